"""Real-code side of the tag/report model M5 (C16, C36).

* `TagRun`      a real Engine with a plan-driven hardware (registers T0..T2, Tot), accumulator tags, UOD commands,
                virtual clock; `tick()`, `report(snapshot)` = EngineMessageBuilder.collect_tag_updates, `fields()`.
* `Recorder`    class-level wrappers around the Tag primitives and Engine.notify_tag_updates that log every
                operation the running engine performs on its registered tags (trace for the model), including
                direct field assignments outside the primitives (`silent`, `stamp`).
* `Enc`         canonical encoding of values / times for the wire (dyadic numbers scaled by 1024, anything else
                an ordinal under Python `==`).
* `run_unit_ops` level-A driver: explicit operation sequences against the real objects of a stopped engine.
* `gen_case`, `run_case`  generated engine runs (program + schedule) with reports after 1..5 ticks.
"""
from __future__ import annotations

import time as _time
from pathlib import Path
from typing import Any

EPOCH = 1_000_000.0
SCALE = 1024
UOD_COMMANDS = {"CmdA": 1, "CmdB": 3, "CmdC": 6}
REGISTERS = ["T0", "T1", "T2", "Tot"]
ORD_BASE = 10 ** 12


class Clock:
    def __init__(self):
        self.now = EPOCH
        self._orig = (_time.time, _time.monotonic)

    def install(self):
        _time.time = lambda: self.now
        _time.monotonic = lambda: self.now

    def uninstall(self):
        _time.time, _time.monotonic = self._orig


class Enc:
    """Values: None -> n; numbers whose 1024-fold is an integer -> that integer; everything else -> ORD_BASE + k
    where k is the first-occurrence ordinal under `==`.  Times: 1024-fold, must be integral."""
    def __init__(self):
        self.table: list[Any] = []

    def val(self, v: Any) -> str:
        if v is None:
            return "n"
        if isinstance(v, (int, float)):  # bool included: the code compares with `!=`, and True == 1
            x = v * SCALE
            if x == x and abs(x) < ORD_BASE and x == int(x):
                return str(int(x))
        for k, w in enumerate(self.table):
            if w == v:
                return str(ORD_BASE + k)
        self.table.append(v)
        return str(ORD_BASE + len(self.table) - 1)

    @staticmethod
    def time(t: float) -> str:
        x = t * SCALE
        if x != int(x):
            raise ValueError(f"time {t!r} is not a multiple of 1/1024")
        return str(int(x))


def make_hw(clock: Clock):
    from openpectus.engine.hardware import HardwareLayerBase

    class PlanHardware(HardwareLayerBase):
        def __init__(self):
            super().__init__()
            self._is_connected = True
            self.values: dict[str, Any] = {"T0": 0, "T1": 0, "T2": 0, "Tot": 0.0}
            self.skew = 0.0
            self.written: dict[str, Any] = {}

        def tick(self):
            # wall time passing inside the tick (only in the skewed-clock search runs)
            clock.now += self.skew

        def read(self, r):
            return self.values[r.name]

        def write(self, value, r):
            self.written[r.name] = value

    return PlanHardware()


OUT_COMMANDS = {"OutA": 1.0, "OutB": 2.0}     # UOD commands that set the output tag `Out` (safe value 0.0)


def make_uod(clock: Clock, exec_log: list, holder: dict | None = None):
    from openpectus.engine.hardware import RegisterDirection
    from openpectus.lang.exec.tags import Tag, TagDirection
    from openpectus.lang.exec.tags_impl import ReadingTag
    from openpectus.lang.exec.uod import UodBuilder, UodCommand

    def make_exec(name: str, iterations: int):
        def exec_fn(cmd: UodCommand, **kvargs):
            exec_log.append(("exec", name))
            cmd._verif_iter = getattr(cmd, "_verif_iter", 0) + 1
            if cmd._verif_iter >= iterations:
                cmd.set_complete()
        return exec_fn

    hw = make_hw(clock)
    b = (UodBuilder().with_instrument("VerifUod").with_author("v", "v@example.org").with_filename(__file__)
         .with_hardware(hw).with_location("loc"))
    for t in ("T0", "T1", "T2"):
        b = b.with_tag(Tag(name=t, value=0)).with_hardware_register(t, RegisterDirection.Read)
    b = b.with_tag(ReadingTag("Tot", unit="L")).with_hardware_register("Tot", RegisterDirection.Read)
    b = b.with_tag(Tag(name="CVol", value=2.0, unit="L"))
    b = b.with_accumulated_volume("Tot").with_accumulated_cv("CVol", "Tot")
    # an output: written to the hardware, forced to its safe value while the run is paused / held / stopped
    b = b.with_tag(Tag(name="Out", value=0.0, direction=TagDirection.Output))
    b = b.with_hardware_register("Out", RegisterDirection.Write, safe_value=0.0)

    def make_out(name: str, value: float):
        def exec_fn(cmd: UodCommand, **kvargs):
            exec_log.append(("exec", name))
            engine = (holder or {}).get("engine")
            # a UOD author has no tick time at hand; the harness passes the engine's (C16 is about the engine's sites)
            cmd.context.tags["Out"].set_value(value, engine._tick_time if engine is not None else _time.time())
            cmd.set_complete()
        return exec_fn
    for name, it in UOD_COMMANDS.items():
        b = b.with_command(name=name, exec_fn=make_exec(name, it))
    for name, v in OUT_COMMANDS.items():
        b = b.with_command(name=name, exec_fn=make_out(name, v))
    b = b.with_command_overlap(["CmdB", "CmdC"])
    return b.build(), hw


class TagRun:
    def __init__(self, pcode: str | None, start: bool = True, dt: float = 0.125, skew: float = 0.0):
        from openpectus.engine.engine import Engine, EngineTiming
        from openpectus.engine.engine_message_builder import EngineMessageBuilder
        from openpectus.lang.exec.clock import WallClock
        from openpectus.lang.exec.timer import NullTimer
        import openpectus.protocol.models as Mdl
        self.clock = Clock()
        self.clock.install()
        self.exec_log: list = []
        self.holder: dict = {}
        self.uod, self.hw = make_uod(self.clock, self.exec_log, self.holder)
        self.hw.skew = skew
        self.start_time = self.clock.now
        self.engine = Engine(self.uod, EngineTiming(WallClock(), NullTimer(), dt, 1.0))
        self.holder["engine"] = self.engine
        self.engine.run(skip_timer_start=True)
        if pcode is not None:
            self.engine.set_method(Mdl.Method.from_pcode(pcode))
        self.mb = EngineMessageBuilder(self.engine, "", False)
        self.dt = dt
        self.tick_times: list[float] = []
        self.raised: list[str] = []
        if start:
            self.engine.execute_control_command_from_user("Start")

    def close(self):
        try:
            self.engine.cleanup()
        finally:
            self.clock.uninstall()

    def tags(self) -> list:
        return list(self.engine._iter_all_tags())

    def user(self, name: str) -> str:
        try:
            self.engine.execute_control_command_from_user(name)
            return "ok"
        except Exception as e:
            return f"err:{type(e).__name__}"

    def tick(self, dt: float | None = None, hw: dict[str, Any] | None = None) -> float:
        dt = self.dt if dt is None else dt
        if hw:
            self.hw.values.update(hw)
        self.clock.now += dt
        t = self.clock.now
        self.tick_times.append(t)
        try:
            self.engine.tick(t, dt)
        except BaseException as e:  # C13's business; recorded, the run goes on
            self.raised.append(f"{type(e).__name__}: {e}")
        self.clock.now = t  # undo any skew: the next tick starts on the grid again
        return t

    def report(self, snapshot: bool = False) -> list:
        return self.mb.collect_tag_updates(snapshot=snapshot)

    def fields(self) -> dict[str, tuple]:
        return {str(t.name): (t.value, t.simulated_value, t.simulated, t.tick_time) for t in self.tags()}

    def readonly(self) -> dict[str, Any]:
        """what a snapshot report would show right now (Tag.as_readonly)"""
        return {str(t.name): (t.simulated_value if t.simulated else t.value) for t in self.tags()}


# ----------------------------------------------------------------------------------------------------------
# trace recorder

class Recorder:
    """Logs, for the tags registered in `run.engine`: the start of every Engine.tick (with the time it was given),
    the phases of the tick (read_process_image, interpreter.tick, update_calculated_tags, command_manager.tick),
    every primitive call with the *call site* (file, line of the outermost caller that is not itself a
    set_value/simulate_value wrapper), the time it passed and whether it changed a field, every direct field
    assignment outside the primitives (`silent`, `stamp`, with site), and notify_tag_updates.

    entries: ("tick", t, wall) ("phase", name) ("set"|"sim", i, val, t, site, changed) ("simfail", i)
             ("simoff", i, changed) ("silent", i, val, site) ("stamp", i, t, site) ("raw:<field>", i, val) ("notify",)"""
    FIELDS = ("value", "simulated_value", "simulated", "tick_time")
    WRAPPERS = ("set_value", "set_value_and_unit", "simulate_value", "simulate_value_and_unit", "stop_simulation")

    def __init__(self, run: TagRun):
        import openpectus
        from openpectus.engine.command_manager import CommandManager
        from openpectus.engine.engine import Engine
        from openpectus.lang.exec.pinterpreter import PInterpreter
        from openpectus.lang.exec.tags import Tag
        self.Tag, self.Engine, self.PInterpreter, self.CommandManager = Tag, Engine, PInterpreter, CommandManager
        self.root = str(Path(openpectus.__file__).resolve().parent) + "/"
        self.run = run
        self.ids = {id(t): i for i, t in enumerate(run.tags())}
        self.log: list[tuple] = []
        self.depth = 0
        self._saved: dict[str, Any] = {}

    def site(self, frame) -> tuple[str, int] | None:
        """(file relative to the openpectus package, line) of the call site; None outside the package"""
        f = frame
        while f is not None and f.f_code.co_name in Recorder.WRAPPERS and \
                f.f_code.co_filename.startswith(self.root):
            f = f.f_back
        if f is None or not f.f_code.co_filename.startswith(self.root):
            return None
        return f.f_code.co_filename[len(self.root):], f.f_lineno

    def install(self):
        import sys
        Tag, Engine, rec = self.Tag, self.Engine, self
        for name in ("set_value", "simulate_value", "simulate_value_and_unit", "stop_simulation"):
            self._saved[name] = Tag.__dict__[name]
        for name in ("notify_tag_updates", "tick", "read_process_image", "update_calculated_tags"):
            self._saved["E." + name] = Engine.__dict__[name]
        self._saved["P.tick"] = self.PInterpreter.__dict__["tick"]
        self._saved["C.tick"] = self.CommandManager.__dict__["tick"]
        self._saved["had_setattr"] = "__setattr__" in Tag.__dict__
        orig = self._saved

        def fields(tag):
            return (tag.value, tag.simulated_value, tag.simulated)

        def differs(a, b):
            return any(not (x is y) and x != y for x, y in zip(a, b))

        def set_value(self, val, tick_time):
            i = rec.ids.get(id(self))
            top = i is not None and rec.depth == 0
            if top:
                before, site = fields(self), rec.site(sys._getframe(1))
            rec.depth += 1
            try:
                return orig["set_value"](self, val, tick_time)
            finally:
                rec.depth -= 1
                if top:
                    rec.log.append(("set", i, val, tick_time, site, differs(before, fields(self))))

        def simulate_value(self, val, tick_time):
            i = rec.ids.get(id(self))
            top = i is not None and rec.depth == 0
            if top:
                before, site = fields(self), rec.site(sys._getframe(1))
            rec.depth += 1
            try:
                return orig["simulate_value"](self, val, tick_time)
            finally:
                rec.depth -= 1
                if top:
                    rec.log.append(("sim", i, val, tick_time, site, differs(before, fields(self))))

        def simulate_value_and_unit(self, val, unit, tick_time):
            i = rec.ids.get(id(self))
            top = i is not None and rec.depth == 0
            if top:
                before, site = fields(self), rec.site(sys._getframe(1))
            rec.depth += 1
            try:
                r = orig["simulate_value_and_unit"](self, val, unit, tick_time)
            except Exception:
                rec.depth -= 1
                if top:
                    rec.log.append(("simfail", i))
                raise
            rec.depth -= 1
            if top:
                rec.log.append(("sim", i, self.simulated_value, tick_time, site, differs(before, fields(self))))
            return r

        def stop_simulation(self):
            i = rec.ids.get(id(self))
            top = i is not None and rec.depth == 0
            if top:
                before = fields(self)
            rec.depth += 1
            try:
                return orig["stop_simulation"](self)
            finally:
                rec.depth -= 1
                if top:
                    rec.log.append(("simoff", i, differs(before, fields(self))))

        def setattr_hook(self, name, value):
            if rec.depth == 0 and name in Recorder.FIELDS:
                i = rec.ids.get(id(self))
                if i is not None:
                    site = rec.site(sys._getframe(1))
                    if name == "value":
                        rec.log.append(("silent", i, value, site))
                    elif name == "tick_time":
                        rec.log.append(("stamp", i, value, site))
                    else:
                        rec.log.append(("raw:" + name, i, value))
            object.__setattr__(self, name, value)

        def notify_tag_updates(self):
            if self is rec.run.engine:
                rec.log.append(("notify",))
            return orig["E.notify_tag_updates"](self)

        def e_tick(self, tick_time, increment_time):
            if self is rec.run.engine:
                rec.log.append(("tick", tick_time, _time.time()))
            return orig["E.tick"](self, tick_time, increment_time)

        def e_read(self):
            if self is rec.run.engine:
                rec.log.append(("phase", "self.read_process_image"))
            return orig["E.read_process_image"](self)

        def e_calc(self, tick_time, increment_time):
            if self is rec.run.engine:
                rec.log.append(("phase", "self.update_calculated_tags"))
            return orig["E.update_calculated_tags"](self, tick_time, increment_time)

        def p_tick(self, tick_time, tick_number):
            rec.log.append(("phase", "self.interpreter.tick"))
            return orig["P.tick"](self, tick_time, tick_number)

        def c_tick(self, tick_time, tick_number):
            rec.log.append(("phase", "self._command_manager.tick"))
            return orig["C.tick"](self, tick_time, tick_number)

        Tag.set_value = set_value
        Tag.simulate_value = simulate_value
        Tag.simulate_value_and_unit = simulate_value_and_unit
        Tag.stop_simulation = stop_simulation
        Tag.__setattr__ = setattr_hook
        Engine.notify_tag_updates = notify_tag_updates
        Engine.tick = e_tick
        Engine.read_process_image = e_read
        Engine.update_calculated_tags = e_calc
        self.PInterpreter.tick = p_tick
        self.CommandManager.tick = c_tick

    def uninstall(self):
        Tag, Engine = self.Tag, self.Engine
        for name in ("set_value", "simulate_value", "simulate_value_and_unit", "stop_simulation"):
            setattr(Tag, name, self._saved[name])
        if not self._saved["had_setattr"]:
            del Tag.__setattr__
        for name in ("notify_tag_updates", "tick", "read_process_image", "update_calculated_tags"):
            setattr(Engine, name, self._saved["E." + name])
        self.PInterpreter.tick = self._saved["P.tick"]
        self.CommandManager.tick = self._saved["C.tick"]


class Wire:
    """Turns recorder entries into op lines + the answers the real code gives (the time a site actually passed)."""
    def __init__(self, enc: Enc):
        self.enc = enc
        self.stamp_phase = True     # no `phase stamp` needed before the first tick

    def op(self, op: tuple) -> list[tuple[str, str]]:
        enc, k = self.enc, op[0]
        if k == "tick":
            self.stamp_phase = False
            return [(f"tick\t{enc.time(op[1])}\t{enc.time(op[2])}", "ok")]
        if k == "phase":
            return [(f"phase\t{op[1]}", "ok")]
        if k in ("set", "sim"):
            if op[4] is not None:
                return [(f"sat\t{op[4][0]}\t{op[4][1]}\t{k}\t{op[1]}\t{enc.val(op[2])}", "t=" + enc.time(op[3]))]
            return [(f"{k}\t{op[1]}\t{enc.val(op[2])}\t{enc.time(op[3])}", "ok")]
        if k == "simfail":
            return [(f"simfail\t{op[1]}", "ok")]
        if k == "simoff":
            return [(f"simoff\t{op[1]}", "ok")]
        if k == "silent":
            return [(f"silent\t{op[1]}\t{enc.val(op[2])}", "ok")]
        if k == "stamp":
            if op[3] is not None:
                out = []
                if op[3][0] == "engine/engine.py" and not self.stamp_phase:
                    self.stamp_phase = True
                    out.append(("phase\tstamp", "ok"))
                out.append((f"stat\t{op[3][0]}\t{op[3][1]}\t{op[1]}", "t=" + enc.time(op[2])))
                return out
            return [(f"stamp\t{op[1]}\t{enc.time(op[2])}", "ok")]
        if k == "notify":
            return [("notify", "ok")]
        return [(f"unmodelled\t{k}\t{op[1]}", "ok")]


class View:
    """What the receiver of the reports knows: last reported (value, time, simulated) per tag.  Reports are
    compared modulo entries that tell the receiver nothing new (a notification of an unchanged tag is neither
    required nor forbidden by the property)."""
    def __init__(self, run: "TagRun | None" = None, enc: Enc | None = None):
        # the receiver knows the state the run starts from (as after an initial snapshot)
        self.known: dict[int, tuple[str, str, int]] = {}
        if run is not None and enc is not None:
            for i, t in enumerate(run.tags()):
                self.known[i] = (enc.val(t.value), enc.time(t.tick_time), 0)

    def line(self, rep: list, names: dict[str, int], enc: Enc, snapshot: bool) -> str:
        items = sorted((names[t.name], t) for t in rep)
        news = []
        for i, t in items:
            e = (enc.val(t.value), enc.time(t.tick_time), 1 if t.simulated else 0)
            k = self.known.get(i)
            if k is None or (k[0], k[2]) != (e[0], e[2]):     # a new time alone is not a change of the tag
                self.known[i] = e
                news.append(f"{i}:{e[0]}:{e[1]}:{e[2]}")
        head = f"S{len(items)}|" if snapshot else ""
        return head + (";".join(news) if news else "-")


def decl_lines(run: TagRun, enc: Enc) -> list[str]:
    n_sys = len(run.engine._system_tags.tags)
    return ["decls\t" + ";".join(f"{1 if i < n_sys else 0}:{enc.val(t.value)}:{enc.time(t.tick_time)}"
                                 for i, t in enumerate(run.tags()))]


# ----------------------------------------------------------------------------------------------------------
# generated engine runs

SIM_LINES = ["Simulate: T0 = 5", "Simulate: T1 = 2", "Simulate: Tot = 2 L", "Simulate off: T0", "Simulate off: T1",
             "Simulate off: Tot", "Simulate: Block = X", "Simulate off: Block", "Simulate: Mark = zz",
             "Simulate off: Mark", "Simulate: Block Time = 5 s", "Simulate off: Block Time"]
OUT_LINES = ["OutA", "OutB", "OutA", "OutB", "Pause: 0.5s", "Hold: 0.5s"]   # output changes + timed safe-state episodes
BAD_SIM_LINES = ["Simulate: T1 = 3 L", "Simulate: T2 = 1 kg", "Simulate: Tot = 2 kg", "Simulate off: Nosuch"]
USER_CMDS = ["Pause", "Unpause", "Hold", "Unhold", "Stop", "Start", "Restart"]


def gen_case(rng, malformed: bool = False, ticks: int = 40) -> dict:
    from harness.gen_pcode import gen_program
    pcode, stats = gen_program(rng, malformed=malformed, max_lines=rng.choice([8, 12, 16]))
    lines = pcode.split("\n")
    for _ in range(rng.choice([0, 1, 2, 2, 3, 4])):
        pos = int(rng.random() ** 2 * (len(lines) + 1))   # biased to the front: more likely to be reached
        ref = lines[pos] if pos < len(lines) else (lines[-1] if lines else "")
        indent = ref[:len(ref) - len(ref.lstrip(" "))] if ref.strip() else ""
        pool = SIM_LINES + (BAD_SIM_LINES if malformed or rng.random() < 0.1 else [])
        lines.insert(pos, indent + rng.choice(pool))
    for _ in range(rng.choice([0, 1, 1, 2, 3])):      # the output tag: set by UOD commands, forced safe on pause/hold
        pos = int(rng.random() ** 2 * (len(lines) + 1))
        ref = lines[pos] if pos < len(lines) else (lines[-1] if lines else "")
        indent = ref[:len(ref) - len(ref.lstrip(" "))] if ref.strip() else ""
        lines.insert(pos, indent + rng.choice(OUT_LINES))
    sched = []
    tot = 0.0
    next_report = rng.randrange(1, 6)
    for k in range(ticks):
        hw = {}
        if rng.random() < 0.3:
            hw[f"T{rng.randrange(3)}"] = rng.randrange(0, 4)
        if rng.random() < 0.5:
            tot += rng.choice([0.125, 0.25, 0.5])
            hw["Tot"] = tot
        user = None
        x = rng.random()
        if x < 0.035:
            user = rng.choice(USER_CMDS)
        next_report -= 1
        rep = None
        if next_report == 0:
            rep = "snap" if rng.random() < 0.12 else "upd"
            next_report = rng.randrange(1, 6)
        sched.append({"dt": rng.choice([0.125, 0.125, 0.25, 0.5]), "hw": hw, "user": user, "report": rep})
    return {"pcode": "\n".join(lines), "sched": sched, "malformed": malformed}


LOCK_PROGRAMS = [
    # a Block inside an interrupt becomes due while another block holds the block lock: it is first visited in one
    # tick and gets the lock (and sets the Block tag) ticks later
    "Watch: T0 > 0\n    Block: B2\n        Mark: x\n        End block\nBlock: B1\n    Wait: {w}s\n    End block\nMark: after\nWait: 1s\n",
    "Alarm: T1 > 1\n    Block: BA\n        OutA\n        End block\nBlock: B1\n    Mark: m\n    Wait: {w}s\n    End block\nBlock: B3\n    Wait: 0.5s\n    End block\n",
    "Watch: T0 > 0\n    Block: B2\n        Wait: 0.25s\n        End block\nWatch: T1 > 0\n    Block: B4\n        Mark: y\n        End block\nBlock: B1\n    Wait: {w}s\n    End block\nMark: after\n",
]


def gen_lock_case(rng, ticks: int = 48) -> dict:
    """Block-lock contention: the register that arms the Watch/Alarm changes while the main block is waiting."""
    w = rng.choice([0.5, 0.75, 1, 1.5])
    pcode = rng.choice(LOCK_PROGRAMS).format(w=w)
    arm = rng.randrange(5, 5 + int(w * 8))           # some tick inside the main block's Wait
    sched = []
    tot = 0.0
    for k in range(ticks):
        hw = {}
        if k == arm:
            hw = {"T0": rng.randrange(1, 4), "T1": rng.randrange(2, 4)}
        if rng.random() < 0.3:
            tot += 0.125
            hw["Tot"] = tot
        sched.append({"dt": 0.125, "hw": hw, "user": None,
                      "report": ("snap" if rng.random() < 0.1 else "upd") if rng.random() < 0.6 else None})
    return {"pcode": pcode, "sched": sched, "malformed": False}


GAP_PROGRAMS = [
    "Block: B1\n    Wait: {w}s\n    Mark: late\n    End block\nMark: after\n",
    "Watch: T0 > 2\n    Mark: w\n    Simulate: T1 = 2\nWait: {w}s\nBlock: B2\n    Mark: late\n    Wait: 2s\n    End block\n",
    "Alarm: T1 > 2\n    Mark: alarm\nBlock: B1\n    Wait: {w}s\n    Simulate: Block = X\n    Wait: 1s\n    Simulate off: Block\n    End block\n",
    "Mark: a\nWait: {w}s\nIncrement run counter\nBase: s\nMark: late\n",
]


def gen_gap_case(rng, max_gap: int = 300, total: int = 400) -> dict:
    """Reports after long gaps ("reports taken after arbitrary numbers of ticks"): gaps of 1..max_gap ticks of an
    active run (clock, time and accumulator tags are queued every tick), with changes placed in the last ticks of
    each gap: register values (condition tags, totalizer), a user command, and a method whose Wait ends near the
    end of the first long gap.  Every gap ends with an incremental report or a snapshot."""
    from harness.gen_pcode import gen_program
    gaps: list[int] = []
    left = total
    first = rng.choice([rng.randrange(45, max_gap + 1), rng.randrange(60, 130), rng.randrange(200, max_gap + 1)]
                       if max_gap >= 200 else [rng.randrange(45, max_gap + 1)])
    first = min(first, total)
    gaps.append(first)
    left -= first
    while left > 0:
        g = min(left, rng.choice([1, 2, 5, rng.randrange(1, 60), rng.randrange(41, max_gap + 1)]))
        gaps.append(g)
        left -= g
    if rng.random() < 0.5:
        rng.shuffle(gaps)
    dt = 0.125
    if rng.random() < 0.6:
        w = max(1, int((gaps[0] - rng.randrange(2, 8)) * dt))
        pcode = rng.choice(GAP_PROGRAMS).format(w=w)
    else:
        pcode, _ = gen_program(rng, max_lines=rng.choice([8, 12]))
    sched = []
    tot = 0.0
    vals = {"T0": 0, "T1": 0, "T2": 0}
    paused = False
    for g in gaps:
        for k in range(g):
            hw = {}
            tail = g - k            # 1 = last tick of the gap
            if tail <= 3 and rng.random() < 0.8:
                t = rng.choice(["T0", "T1", "T2"])
                vals[t] = (vals[t] + rng.randrange(1, 4)) % 5
                hw[t] = vals[t]
            elif rng.random() < 0.05:
                t = rng.choice(["T0", "T1", "T2"])
                vals[t] = rng.randrange(0, 4)
                hw[t] = vals[t]
            if rng.random() < 0.3 or tail == 1:
                tot += rng.choice([0.125, 0.25])
                hw["Tot"] = tot
            user = None
            if g > 40 and tail == 2 and rng.random() < 0.4:
                user = "Unpause" if paused else rng.choice(["Pause", "Hold", "Unhold"])
                paused = user == "Pause"
            rep = None
            if tail == 1:
                rep = "snap" if rng.random() < 0.3 else "upd"
            sched.append({"dt": dt, "hw": hw, "user": user, "report": rep})
    return {"pcode": pcode, "sched": sched, "malformed": False, "gaps": gaps}


def gen_long_gap_case(rng, lo: int = 1500, hi: int = 3000) -> dict:
    """A very long stretch without a report (lo..hi ticks of a running method: the clock / time / accumulator tags
    are queued every tick, the backlog grows to many thousand entries), during which the condition registers and
    the run state do NOT change; in the last ticks of the stretch tags change for the first time (a register, the
    totalizer's accumulators keep moving, and usually Pause / Hold -> System State, the output forced safe).  Then a
    report (incremental or snapshot), a few short gaps, and a second long stretch half as long."""
    dt = 0.125
    pcode = rng.choice([
        "OutA\nBlock: B1\n    Wait: {w}s\n    Mark: late\n    End block\nMark: after\n",
        "OutB\nWatch: T0 > 2\n    Mark: w\nWait: {w}s\nMark: late\nWait: 5s\n",
        "Mark: a\nOutA\nWait: {w}s\nIncrement run counter\nMark: late\nWait: 5s\n",
    ])
    first = rng.randrange(lo, hi + 1)
    gaps = [first, rng.randrange(1, 4), rng.randrange(1, 4), max(lo // 2, first // 2), rng.randrange(1, 4)]
    pcode = pcode.format(w=max(1, int((first - rng.randrange(2, 6)) * dt)))
    sched = []
    tot = 0.0
    vals = {"T0": 0, "T1": 0, "T2": 0}
    state = "run"
    for g in gaps:
        long = g > 100
        for k in range(g):
            tail = g - k
            hw = {}
            if tail <= 2 or (not long and rng.random() < 0.5):
                t = rng.choice(["T0", "T1", "T2"])
                vals[t] = (vals[t] + rng.randrange(1, 3)) % 5
                hw[t] = vals[t]
            if rng.random() < 0.4:
                tot += 0.125
                hw["Tot"] = tot
            user = None
            if long and tail == 3 and rng.random() < 0.75:
                user = {"run": rng.choice(["Pause", "Hold"]), "Pause": "Unpause", "Hold": "Unhold"}[state]
                state = user if user in ("Pause", "Hold") else "run"
            rep = None
            if tail == 1:
                rep = "snap" if rng.random() < 0.25 else "upd"
            sched.append({"dt": dt, "hw": hw, "user": user, "report": rep})
    return {"pcode": pcode, "sched": sched, "malformed": False, "gaps": gaps}


def run_case(case: dict, record: bool = False, skew: float = 0.0, observe: bool = False) -> dict:
    """Run the real engine.  Returns per-report observations for the oracles.  With `record`: the operation trace
    and the canonical answers for the model.  With `record` or `observe`: `mut`, the list of
    (tick index, tag name, 'set'|'sim'|'stamp') of every primitive call that changed a field of the tag and of
    every direct assignment to a tag's tick_time (what the C16 oracle needs to know the tick of the last change)."""
    run = TagRun(case["pcode"], skew=skew)
    enc = Enc()
    rec = Recorder(run) if (record or observe) else None
    wire, view = Wire(enc), View(run, enc)
    tags = run.tags()
    names = {str(t.name): i for i, t in enumerate(tags)}
    by_idx = {i: n for n, i in names.items()}
    classes = {str(t.name): [c.__name__ for c in type(t).__mro__] for t in tags}
    n_sys = len(run.engine._system_tags.tags)
    lines: list[str] = []
    answers: list[str] = []
    obs: list[dict] = []
    mut: list[tuple] = []
    cur_tick = [-1]
    try:
        if record:
            lines += decl_lines(run, enc)
            answers += ["ok"] * len(lines)
        if rec:
            rec.install()

        def flush():
            if rec:
                for op in rec.log:
                    if op[0] in ("set", "sim") and op[5]:
                        mut.append((cur_tick[0], by_idx[op[1]], op[0]))
                    elif op[0] == "stamp":
                        mut.append((cur_tick[0], by_idx[op[1]], "stamp"))
                    if record:
                        for ln, ans in wire.op(op):
                            lines.append(ln)
                            answers.append(ans)
                rec.log.clear()

        def take(kind: str, tick_index: int):
            flush()
            if rec:
                rec.depth += 1  # the builder's own work on TagValue copies is not an engine operation
            try:
                rep = run.report(snapshot=(kind == "snap"))
            finally:
                if rec:
                    rec.depth -= 1
                    rec.log.clear()
            if record:
                lines.append(f"collect\t{1 if kind == 'snap' else 0}\t{enc.time(run.clock.now)}")
                answers.append(view.line(rep, names, enc, kind == "snap"))
            obs.append({"kind": kind, "tick": tick_index, "now": run.clock.now,
                        "entries": [(str(t.name), t.value, t.tick_time, bool(t.simulated)) for t in rep],
                        "readonly": run.readonly(), "all_names": list(names)})

        take("snap", -1)
        field_hist: list[dict] = [run.fields()]
        for k, st in enumerate(case["sched"]):
            if st.get("user"):
                run.user(st["user"])
            cur_tick[0] = k
            run.tick(st["dt"], st["hw"])
            flush()
            field_hist.append(run.fields())
            if st.get("report"):
                take(st["report"], k)
        flush()
        return {"obs": obs, "fields": field_hist, "tick_times": list(run.tick_times), "start": run.start_time,
                "lines": lines, "answers": answers, "raised": list(run.raised), "skew": skew, "classes": classes,
                "mut": mut if rec else None, "system": [by_idx[i] for i in range(n_sys)],
                "written": dict(run.hw.written)}
    finally:
        if rec:
            rec.uninstall()
        run.close()


# ----------------------------------------------------------------------------------------------------------
# level A: explicit operations on the real objects of a stopped engine

def run_unit_ops(ops: list[list]) -> tuple[list[str], list[str]]:
    """ops: ['set'|'sim'|'simunit', name, value, t] | ['simfail'|'simoff', name] | ['notify'] |
            ['etick', t, {reg: value}] | ['collect', snapshot, now] |
            ['bt', ev, *args] | ['st', ev, *args]
    Returns (op lines incl. the declarations, answers of the real code)."""
    from openpectus.lang.exec.events import BlockInfo, RunStateChange, ScopeInfo
    run = TagRun("", start=False)
    enc = Enc()
    view = View(run, enc)
    try:
        tags = run.tags()
        names = {t.name: i for i, t in enumerate(tags)}
        lines = decl_lines(run, enc)
        answers = ["ok"] * len(lines)
        bt, st = run.engine.tags["Block Time"], run.engine.tags["Scope Time"]
        for op in ops:
            k = op[0]
            if k in ("set", "sim", "simunit"):
                tag = run.engine.tags[op[1]]
                if k == "set":
                    tag.set_value(op[2], op[3])
                elif k == "sim":
                    tag.simulate_value(op[2], op[3])
                else:
                    tag.simulate_value_and_unit(op[2], tag.unit, op[3])
                lines.append(f"{'set' if k == 'set' else 'sim'}\t{names[op[1]]}\t{enc.val(op[2])}\t{enc.time(op[3])}")
                answers.append("ok")
            elif k == "simfail":
                tag = run.engine.tags[op[1]]
                try:
                    tag.simulate_value_and_unit("abc" if tag.unit else 1.0, "L", EPOCH)
                    raise AssertionError("simulate_value_and_unit was expected to fail")
                except ValueError:
                    pass
                lines.append(f"simfail\t{names[op[1]]}")
                answers.append("ok")
            elif k == "simoff":
                run.engine.tags[op[1]].stop_simulation()
                lines.append(f"simoff\t{names[op[1]]}")
                answers.append("ok")
            elif k == "notify":
                run.engine.notify_tag_updates()
                lines.append("notify")
                answers.append("ok")
            elif k == "etick":
                run.hw.values.update(op[2])
                run.clock.now = op[1]
                run.engine.tick(op[1], 0.125)
                reads = ",".join(f"{names[r]}:{enc.val(run.hw.values[r])}" for r in REGISTERS)
                lines.append(f"etick\t{enc.time(op[1])}\t{reads}")
                answers.append("ok")
            elif k == "collect":
                run.clock.now = op[2]
                rep = run.report(snapshot=bool(op[1]))
                lines.append(f"collect\t{1 if op[1] else 0}\t{enc.time(op[2])}")
                answers.append(view.line(rep, names, enc, bool(op[1])))
            elif k in ("bt", "st"):
                tag = bt if k == "bt" else st
                ev, args = op[1], op[2:]
                err = None
                try:
                    if ev == "start":
                        run.clock.now = args[0]
                        tag.on_start("run")
                        wire = f"start\t{enc.time(args[0])}"
                    elif ev == "bstart":
                        tag.on_block_start(BlockInfo("b", 0))
                        wire = "bstart"
                    elif ev == "bend":
                        wire = "bend"
                        tag.on_block_end(BlockInfo("b", 0), None)
                    elif ev == "sstart":
                        run.clock.now = args[0]
                        tag.on_scope_start(ScopeInfo(str(0), "", "Block"))
                        wire = f"sstart\t{enc.time(args[0])}"
                    elif ev == "act":
                        wire = f"act\t{args[0]}"
                        tag.on_scope_activate(ScopeInfo(str(args[0]), "", "Block"))
                    elif ev == "end":
                        wire = f"end\t{args[0]}"
                        tag.on_scope_end(ScopeInfo(str(args[0]), "", "Block"))
                    elif ev == "tick":
                        wire = f"tick\t{enc.time(args[0])}\t{enc.time(args[1])}"
                        tag.on_tick(args[0], args[1])
                    elif ev == "pause":
                        wire = "pause"
                        tag.on_runstate_change(RunStateChange.PAUSE)
                    elif ev == "unpause":
                        wire = "unpause"
                        tag.on_runstate_change(RunStateChange.UNPAUSE)
                    else:
                        raise AssertionError(ev)
                except (IndexError, KeyError, ValueError) as e:
                    err = type(e).__name__
                gv = enc.time(tag.get_value())
                lines.append(f"{k}\t{names[tag.name]}\t{wire}")
                answers.append(f"ok {gv}" if err is None else f"err:{err} {gv}")
            else:
                raise AssertionError(op)
        return lines, answers
    finally:
        run.close()


# ----------------------------------------------------------------------------------------------------------
# level A generators

UNIT_TAGS = {  # name -> (values for set, values for simulate)
    "Block": ([None, "A", "B"], ["X", "A"]),
    "Run Counter": ([0, 1, 2], [7, 1]),
    "T0": ([0, 1, 2, None], [5, 1]),
    "T1": ([0, 3], [3]),
    "Tot": ([0.0, 0.5, 1.0, None], [2.0, 0.5]),
    "CVol": ([2.0, 4.0], [8.0]),
    "Out": ([0.0, 1.0, 2.0], [3.0]),
    "Block Time": ([0.0, 0.125, 5.0, None], [5.0, 0.125]),
    "Scope Time": ([0.0, 0.25, None], [1.0]),
}


def gen_unit_ops(rng, n_ops: int) -> list[list]:
    """Random level-A sequence: mostly on-grid increasing times, sometimes adversarial ones (0.0, a tick number,
    an earlier time); clock tag events; engine ticks of the stopped engine; reports."""
    ops: list[list] = []
    now = EPOCH
    names = list(UNIT_TAGS)
    hw = {"T0": 0, "T1": 0, "T2": 0, "Tot": 0.0}

    def t():
        x = rng.random()
        if x < 0.8:
            return now
        return rng.choice([0.0, 5.0, 17.0, EPOCH - 1.0, now - 0.125, now + 0.5])

    for _ in range(n_ops):
        if rng.random() < 0.4:
            now += rng.choice([0.125, 0.25, 0.5])
        x = rng.random()
        name = rng.choice(names)
        if x < 0.22:
            ops.append(["set", name, rng.choice(UNIT_TAGS[name][0]), t()])
        elif x < 0.36:
            ops.append(["sim", name, rng.choice(UNIT_TAGS[name][1]), t()])
        elif x < 0.40:
            u = rng.choice(["Tot", "CVol", "Block Time", "Scope Time"])
            ops.append(["simunit", u, rng.choice([v for v in UNIT_TAGS[u][1] if v is not None]), t()])
        elif x < 0.45:
            ops.append(["simfail", name])
        elif x < 0.53:
            ops.append(["simoff", name])
        elif x < 0.62:
            ops.append(["notify"])
        elif x < 0.70:
            if rng.random() < 0.6:
                hw[rng.choice(["T0", "T1", "T2"])] = rng.randrange(0, 3)
            if rng.random() < 0.4:
                hw["Tot"] = rng.choice([0.0, 0.5, 1.0, 1.5])
            ops.append(["etick", now if rng.random() < 0.9 else now - 1.0, dict(hw)])
        elif x < 0.80:
            # reports are taken at tick boundaries (after notify_tag_updates): which unchanged tags happen to sit in
            # the queue must not decide whether a not-yet-notified change is seen
            ops.append(["notify"])
            ops.append(["collect", rng.random() < 0.25, now])
        elif x < 0.90:
            ev = rng.choice(["start", "bstart", "bstart", "bend", "tick", "tick", "tick", "pause", "unpause"])
            if ev == "start":
                ops.append(["bt", "start", now])
            elif ev == "tick":
                ops.append(["bt", "tick", t(), rng.choice([0.125, 0.25, 0.0])])
            else:
                ops.append(["bt", ev])
        else:
            ev = rng.choice(["start", "sstart", "act", "act", "end", "tick", "tick", "tick", "pause", "unpause"])
            if ev in ("start", "sstart"):
                ops.append(["st", ev, now])
            elif ev in ("act", "end"):
                ops.append(["st", ev, rng.randrange(0, 3)])
            elif ev == "tick":
                ops.append(["st", "tick", t(), rng.choice([0.125, 0.25, 0.0])])
            else:
                ops.append(["st", ev])
    ops.append(["notify"])
    ops.append(["collect", False, now])
    ops.append(["collect", True, now])
    return ops


EXH_ALPHABET: list[list] = (
    [["set", n, v] for n, vs in (("Block", [None, "A"]), ("T0", [0, 1])) for v in vs]
    # simulate_value(None, …) is left out: it is outside the property's operation set (the interpreter never issues
    # it) and whether its silent flip becomes visible depends on unrelated earlier notifications
    + [["sim", n, v] for n, vs in (("Block", ["A", "B"]), ("T0", [1, 2])) for v in vs]
    + [["simoff", "Block"], ["simoff", "T0"], ["simfail", "Block"], ["simfail", "T0"],
       ["notify"], ["collect", False], ["collect", True],
       ["bt", "bstart"], ["bt", "tick"], ["bt", "start"]]
)


def exhaustive_unit_ops(max_len: int):
    """All sequences over EXH_ALPHABET up to `max_len`, times on the grid by position."""
    import itertools
    for n in range(1, max_len + 1):
        for combo in itertools.product(range(len(EXH_ALPHABET)), repeat=n):
            ops = []
            for pos, k in enumerate(combo):
                a = EXH_ALPHABET[k]
                now = EPOCH + (pos + 1) * 0.125
                if a[0] in ("set", "sim"):
                    ops.append([a[0], a[1], a[2], now])
                elif a[0] == "collect":
                    ops.append(["notify"])          # reports at tick boundaries
                    ops.append(["collect", a[1], now])
                elif a[0] == "bt" and a[1] == "tick":
                    ops.append(["bt", "tick", now, 0.125])
                elif a[0] == "bt" and a[1] == "start":
                    ops.append(["bt", "start", now])
                else:
                    ops.append(list(a))
            now = EPOCH + (n + 1) * 0.125
            ops += [["notify"], ["collect", False, now]]
            yield ops
