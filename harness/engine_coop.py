"""Two real threads on the real Engine under a cooperative scheduler (property C40).

The ticking thread runs `Engine.tick`, the request thread runs the request entry points the aggregator calls
(`set_method`, `inject_code`, `execute_control_command_from_user`, `cancel_instruction`, `force_instruction`).
Yield points are *call-boundary wrappers* installed by this module (class attributes of the imported repo are
replaced in the harness process only — no source file is touched):

  tick thread     before each sub-call of `Engine.tick`: `hwl.tick`, `read_process_image`, [lock acquire],
                  `Tracking.tick`, `PInterpreter.tick`, `update_calculated_tags`, `CommandManager.tick`,
                  `notify_tag_updates`, `write_process_image`; and *inside* the sub-calls where a tick spends its
                  time: before the hardware read (`hwl.read_batch`), before every UOD command exec function
                  (`UodCommand.execute`, in the executing loop of the command manager) and before the hardware write
                  (`hwl.write_batch`) and, with the output UOD (`make_output_uod`), every time `write_process_image` picks up the
                  value of one output register (`write.reg`); and inside `PInterpreter.tick` after every sub-tick of the main generator and of each
                  interrupt generator (`interp.subtick`, generator granularity)
  request thread  at the entry of each entry point, at the lock acquire (if the entry point takes the lock) and before
                  its sub-calls `_validate_control_command`, `CommandManager.schedule`, `MethodManager.merge_method`,
                  `MethodManager.set_method`, `MethodManager.parse_inject_code`, `PInterpreter.inject_node`,
                  `CommandManager.cancel_instruction`, `CommandManager.force_instruction`, and the sub-steps of a merge:
                  `MethodManager._create_interpreter_merge_state`, `_create_interpreter_from_state`,
                  `Engine.on_interpreter_reset`

`engine._lock` (a `threading.Lock`) is replaced by a `CoopLock` with the same `with` protocol that tells the
scheduler when a thread has to wait for it, so a thread blocked on the lock is simply not schedulable.  Exactly one
thread runs at any time; a *schedule* is the list of thread choices ("T"/"R") made at the yield points, so every run
is deterministic and replayable.
"""
from __future__ import annotations

import threading
from typing import Any, Callable

TICK_LABELS = ["hwl.tick", "read_process_image", "tracking.tick", "interpreter.tick", "update_calculated_tags",
               "command_manager.tick", "notify_tag_updates", "write_process_image"]


class Coop:
    """Cooperative scheduler: worker threads park at yield points; `step(name)` lets one run to its next one."""

    def __init__(self) -> None:
        self.cv = threading.Condition()
        self.current: str | None = None          # the worker allowed to run (None = the scheduler itself)
        self.names: dict[int, str] = {}          # thread ident -> worker name
        self.at: dict[str, str] = {}             # worker -> label it is parked at ("<done>" when finished)
        self.waiting_lock: dict[str, "CoopLock"] = {}
        self.trace: list[tuple[str, str]] = []   # (worker, label) in the order the segments were started
        self.errors: dict[str, BaseException] = {}
        self.threads: dict[str, threading.Thread] = {}

    # -- worker side
    def me(self) -> str | None:
        return self.names.get(threading.get_ident())

    def _park(self, name: str, label: str) -> None:
        with self.cv:
            self.at[name] = label
            self.current = None
            self.cv.notify_all()
            self.cv.wait_for(lambda: self.current == name)

    def yield_point(self, label: str) -> None:
        name = self.me()
        if name is not None:
            self._park(name, label)

    def spawn(self, name: str, fn: Callable[[], Any]) -> None:
        def body():
            self.names[threading.get_ident()] = name
            with self.cv:
                self.at[name] = "<start>"
                self.cv.notify_all()
                self.cv.wait_for(lambda: self.current == name)
            try:
                fn()
            except BaseException as e:  # noqa: BLE001 - reported to the scheduler
                self.errors[name] = e
            with self.cv:
                self.at[name] = "<done>"
                self.current = None
                self.cv.notify_all()
        t = threading.Thread(target=body, name=f"coop-{name}", daemon=True)
        self.threads[name] = t
        t.start()
        with self.cv:
            self.cv.wait_for(lambda: name in self.at)

    # -- scheduler side
    def done(self, name: str) -> bool:
        return self.at.get(name) == "<done>"

    def enabled(self, name: str) -> bool:
        if self.done(name):
            return False
        lk = self.waiting_lock.get(name)
        return lk is None or lk.owner is None

    def step(self, name: str) -> None:
        """Let worker `name` run the segment that starts at the label it is parked at."""
        assert self.enabled(name), f"{name} is not enabled"
        self.trace.append((name, self.at[name]))
        with self.cv:
            self.current = name
            self.cv.notify_all()
            if not self.cv.wait_for(lambda: self.current is None, timeout=20):
                raise RuntimeError(f"worker {name} did not reach a yield point (deadlock?) at {self.at.get(name)}")

    def join(self) -> None:
        for t in self.threads.values():
            t.join(timeout=5)


class CoopLock:
    """Drop-in for the engine's `threading.Lock` (used only via `with`)."""

    def __init__(self, coop: Coop) -> None:
        self.coop = coop
        self.owner: str | None = None

    def acquire(self, blocking: bool = True, timeout: float = -1) -> bool:
        name = self.coop.me()
        if name is None:                      # the harness's own sequential calls: nobody else is running
            assert self.owner is None
            self.owner = "<main>"
            return True
        bounded = (not blocking) or (timeout is not None and timeout >= 0)
        if not bounded:
            self.coop.waiting_lock[name] = self   # from here on the worker is schedulable only while the lock is free
        self.coop._park(name, "acq")
        if bounded:
            # virtual time: a holder that is parked at a yield point inside its critical section holds the lock for
            # longer than any timeout — the bounded acquire gives up
            if self.owner is not None:
                return False
            self.owner = name
            return True
        assert self.owner is None, "scheduler resumed a worker whose lock is held"
        del self.coop.waiting_lock[name]
        self.owner = name
        return True

    def release(self) -> None:
        if self.owner == (self.coop.me() or "<main>"):
            self.owner = None

    def __enter__(self):
        self.acquire()
        return self

    def __exit__(self, *a):
        self.release()

    def locked(self) -> bool:
        return self.owner is not None


# ----------------------------------------------------------------------------------------------------
# instrumentation (installed once per process; transparent for threads that are not workers of `ACTIVE`)

ACTIVE: Coop | None = None
_installed = False


def _yp(label: str, role: str) -> None:
    c = ACTIVE
    if c is not None and c.me() == role:
        c.yield_point(label)


def _wrap(cls, attr: str, label: str, role: str) -> None:
    """Replace `cls.attr` by a wrapper that is a yield point for the worker `role` ("T" ticking thread, "R" request
    thread) and transparent for every other caller."""
    orig = getattr(cls, attr)

    def wrapper(self, *a, **k):
        _yp(label, role)
        return orig(self, *a, **k)
    wrapper.__name__ = getattr(orig, "__name__", attr)
    wrapper.__wrapped__ = orig  # type: ignore[attr-defined]
    setattr(cls, attr, wrapper)


def install() -> None:
    global _installed
    if _installed:
        return
    from openpectus.engine.command_manager import CommandManager
    from openpectus.engine.engine import Engine
    from openpectus.engine.method_manager import MethodManager
    from openpectus.lang.exec.pinterpreter import PInterpreter
    from openpectus.lang.exec.tracking import Tracking
    # sub-calls of Engine.tick
    _wrap(Engine, "read_process_image", "read_process_image", "T")
    _wrap(Tracking, "tick", "tracking.tick", "T")
    _wrap(PInterpreter, "tick", "interpreter.tick", "T")
    # generator granularity inside the interpreter tick: a yield point after every sub-tick
    orig_subticks = PInterpreter.tick_iterate_subticks

    def subticks(self, *a, **k):
        for item in orig_subticks(self, *a, **k):
            _yp("interp.subtick", "T")
            yield item
    subticks.__wrapped__ = orig_subticks  # type: ignore[attr-defined]
    PInterpreter.tick_iterate_subticks = subticks  # type: ignore[method-assign]
    _wrap(Engine, "update_calculated_tags", "update_calculated_tags", "T")
    _wrap(CommandManager, "tick", "command_manager.tick", "T")
    _wrap(Engine, "notify_tag_updates", "notify_tag_updates", "T")
    _wrap(Engine, "write_process_image", "write_process_image", "T")
    from openpectus.lang.exec.uod import UodCommand
    _wrap(UodCommand, "execute", "uod.execute", "T")            # inside CommandManager.tick's executing loop
    # request entry points and their sub-calls
    for name in ("set_method", "inject_code", "execute_control_command_from_user", "cancel_instruction",
                 "force_instruction"):
        _wrap(Engine, name, "enter:" + name, "R")
    _wrap(Engine, "_validate_control_command", "validate_control_command", "R")
    _wrap(CommandManager, "schedule", "schedule", "R")
    _wrap(MethodManager, "merge_method", "merge_method", "R")
    _wrap(MethodManager, "set_method", "mm.set_method", "R")
    _wrap(MethodManager, "parse_inject_code", "parse_inject_code", "R")
    _wrap(PInterpreter, "inject_node", "inject_node", "R")
    _wrap(MethodManager, "_create_interpreter_merge_state", "merge.state", "R")
    _wrap(MethodManager, "_create_interpreter_from_state", "merge.from_state", "R")
    _wrap(Engine, "on_interpreter_reset", "interpreter_reset", "R")
    _wrap(CommandManager, "cancel_instruction", "cm.cancel_instruction", "R")
    _wrap(CommandManager, "force_instruction", "cm.force_instruction", "R")
    _installed = True


def instrument_engine(engine, coop: Coop) -> None:
    """Per-engine part: the scheduler-aware lock, the hardware tick and the hardware batch calls.  Setting
    `engine.uod.hwl._verif_fail_reads = n` makes the next n `read_batch` calls raise HardwareLayerException."""
    # the engine's lock(s), found by what they are, not by what they are called
    lock_type = type(threading.Lock())
    rlock_type = type(threading.RLock())
    replaced = [k for k, v in vars(engine).items() if isinstance(v, (lock_type, rlock_type, CoopLock))]
    for k in replaced:
        setattr(engine, k, CoopLock(coop))
    engine._verif_lock_attrs = replaced
    hwl = engine.uod.hwl
    if not hasattr(hwl, "_verif_tick"):
        hwl._verif_tick = hwl.tick

        def tick():
            _yp("hwl.tick", "T")
            return hwl._verif_tick()
        hwl.tick = tick
        for name in ("read_batch", "write_batch"):               # inside read_process_image / write_process_image
            orig = getattr(hwl, name)

            def batch(*a, _orig=orig, _name=name, **k):
                _yp("hwl." + _name, "T")
                if _name == "read_batch" and getattr(hwl, "_verif_fail_reads", 0) > 0:
                    from openpectus.engine.hardware import HardwareLayerException
                    hwl._verif_fail_reads -= 1
                    raise HardwareLayerException("verif: read failed")
                return _orig(*a, **k)
            setattr(hwl, name, batch)


def make_output_uod(exec_log: list, images: list):
    """The harness UOD of harness/engine_run.py (same tags and commands) on a recording hardware with two *output*
    registers V1, V2 (safe value 0): every image `write_batch` gets is appended to `images`, and the conversion function
    (`from_tag`) of each register is a yield point of the ticking thread (`write.reg`) — the place where
    `write_process_image` picks up one output value after the other."""
    from openpectus.engine.hardware import NullHardware, RegisterDirection
    from openpectus.lang.exec.tags import Tag, TagDirection
    from openpectus.lang.exec.uod import UodBuilder, UodCommand
    from harness.engine_run import COND_TAGS, UOD_COMMANDS

    class RecordingHW(NullHardware):
        def write_batch(self, values, registers):
            images.append({r.name: v for v, r in zip(values, registers)})
            return super().write_batch(values, registers)

    def make_exec(name: str, iterations: int):
        def exec_fn(cmd: UodCommand, **kvargs):
            exec_log.append(("exec", name, cmd.get_iteration_count() if hasattr(cmd, "get_iteration_count") else -1))
            cmd._verif_iter = getattr(cmd, "_verif_iter", 0) + 1
            if cmd._verif_iter >= iterations:
                cmd.set_complete()
        return exec_fn

    def pick_up(value):
        _yp("write.reg", "T")
        return value

    b = (UodBuilder().with_instrument("VerifUod").with_author("v", "v@example.org").with_filename(__file__)
         .with_hardware(RecordingHW()).with_location("loc"))
    for t in COND_TAGS:
        b = b.with_tag(Tag(name=t, value=0))
    for reg in ("V1", "V2"):
        b = b.with_hardware_register(reg, RegisterDirection.Write, safe_value=0, from_tag=pick_up)
        b = b.with_tag(Tag(reg, value=5, unit=None, direction=TagDirection.Output))
    for name, it in UOD_COMMANDS.items():
        b = b.with_command(name=name, exec_fn=make_exec(name, it),
                           init_fn=(lambda n: (lambda cmd: exec_log.append(("init", n))))(name),
                           finalize_fn=(lambda n: (lambda cmd: exec_log.append(("final", n))))(name))
    b = b.with_command_overlap(["CmdB", "CmdC"])
    return b.build()


def run_schedule(coop: Coop, choices: str, workers: dict[str, Callable[[], Any]]) -> tuple[str, list[list[str]]]:
    """Run the workers under the given choice string.  "T"/"R" = let that worker run one segment; a lower-case
    letter = let that worker run until it is done or has to wait for the lock.  A choice that is not enabled is
    skipped; when the string is exhausted the remaining segments run in the fixed order T, then R.
    Returns (the choices actually made — upper-case, one per segment: the canonical, replayable schedule —,
             the set of enabled workers at each of those decisions)."""
    global ACTIVE
    ACTIVE = coop
    made: list[str] = []
    enabled_log: list[list[str]] = []

    def go(name: str) -> None:
        enabled_log.append([n for n in workers if coop.enabled(n)])
        made.append(name)
        coop.step(name)
    try:
        for name, fn in workers.items():
            coop.spawn(name, fn)
        for ch in choices:
            name = ch.upper()
            if name not in workers:
                continue
            if ch.isupper():
                if coop.enabled(name):
                    go(name)
            else:
                while coop.enabled(name):
                    go(name)
        while True:
            en = [n for n in workers if coop.enabled(n)]
            if not en:
                break
            go(en[0])
        if not all(coop.done(n) for n in workers):
            raise RuntimeError(f"deadlock: {coop.at} waiting {list(coop.waiting_lock)}")
        coop.join()
    finally:
        ACTIVE = None
    return "".join(made), enabled_log


def explore_all(run_one: Callable[[str], tuple[str, list[list[str]]]], limit: int | None = None) -> list[str]:
    """Every maximal schedule exactly once (stateless search): run a prefix and continue with the default order;
    wherever another worker was enabled beyond the prefix, queue prefix-so-far + that worker.
    `run_one(choices)` executes one fresh scenario and returns what `run_schedule` returns."""
    out: list[str] = []
    stack = [""]
    while stack:
        if limit is not None and len(out) >= limit:
            break
        prefix = stack.pop()
        made, en = run_one(prefix)
        out.append(made)
        for i in range(len(made) - 1, len(prefix) - 1, -1):
            for alt in en[i]:
                if alt != made[i]:
                    stack.append(made[:i] + alt)
    return out
