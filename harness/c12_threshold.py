"""C12, interpreter half, third clause: "a forced Watch, Wait or *threshold* instruction proceeds without waiting".

Generated methods whose lines carry thresholds (`2.0 Wait: 1s`, `3.0 Watch: T0 > 0`, `1.5 Block: B`, `2.0 CmdA` …);
while the interpreter holds a line back for its threshold, a force request is sent for that line — through
`Engine.force_instruction` with the line's instance id (a line in state AwaitingThreshold is not shown in the
run log, so this is the id of its runtime record, which is what the API accepts) — and the oracle demands that
an accepted force lets the line start within the next ticks although its threshold has not been reached.
Used by a delimited section of props/C12.py (added by the C04 builder; the rest of C12 belongs to b-m2).
"""
from __future__ import annotations

import random

from vp.core import Failure

LINES = ["Wait: 0.5s", "Wait: 2s", "Watch: T0 > 0", "Alarm: T1 > 0", "Block: B", "CmdA", "CmdB", "Mark: m"]
import collections
STATS: collections.Counter = collections.Counter()
PROMPT_TICKS = 3        # an accepted force must let the line start within this many interpreter ticks


def threshold_cases(rng: random.Random, n: int) -> list[dict]:
    cases = []
    for _ in range(n):
        lines = ["Base: s"]
        depth = 0
        held = []
        for k in range(rng.randrange(1, 4)):
            thr = rng.choice(["2.0", "3.0", "4.5", "6.0"])
            body = rng.choice(LINES)
            if body == "Mark: m":
                body = f"Mark: m{k}"
            if body == "Block: B":
                body = f"Block: B{k}"
            lines.append("    " * depth + f"{thr} {body}")
            held.append(len(lines) - 1)
            if body.startswith(("Watch", "Alarm", "Block")):
                lines.append("    " * (depth + 1) + f"Mark: in{k}")
                if body.startswith("Block"):
                    lines.append("    " * (depth + 1) + "End block")
            if rng.random() < 0.5:
                lines.append("    " * depth + f"Mark: after{k}")
        ticks = 70
        plan = [[] for _ in range(ticks)]
        for _ in range(rng.randrange(1, 4)):
            plan[rng.randrange(3, 40)].append(["force-held"])
        if rng.random() < 0.3:
            plan[rng.randrange(3, 40)].append(["cancel-held"])
        for t in range(ticks):
            if rng.random() < 0.1:
                plan[t].append(["tag", f"T{rng.randrange(2)}", rng.randrange(2)])
        cases.append({"pcode": "\n".join(lines) + "\n", "ticks": ticks, "plan": plan, "kind": "c12-threshold"})
    # fixed cases: every kind of line, force at every offset of the waiting time
    for body in LINES:
        extra = "    Mark: in\n" + ("    End block\n" if body.startswith("Block") else "") \
            if body.startswith(("Watch", "Alarm", "Block")) else ""
        for t0 in range(4, 20, 3):
            plan = [[] for _ in range(60)]
            plan[t0] = [["force-held"]]
            cases.append({"pcode": f"Base: s\nMark: a\n5.0 {body}\n{extra}Mark: z\n", "ticks": 60, "plan": plan,
                          "kind": "c12-threshold"})
    return cases


def oracle_forced_threshold(case: dict) -> Failure | None:
    from harness.engine_run import EngineRun
    run = EngineRun(case["pcode"])
    try:
        pending: dict[str, tuple[int, int]] = {}      # node id -> (tick of the accepted force, interpreter ticks since)
        for t in range(case["ticks"]):
            snap0 = run.snapshot()
            nodes = {n["id"]: n for n in snap0["nodes"]}
            for op in case["plan"][t]:
                if op[0] == "tag":
                    run.set_tag(op[1], op[2])
                    continue
                # the line the interpreter is holding back for its threshold: visited (has a record), not started
                ri = run.engine.interpreter.runtimeinfo
                held = [n for n in snap0["nodes"] if n["threshold"] is not None and not n["started"]
                        and not n["completed"] and not n["forced"] and not n["cancelled"]
                        and ri.get_record_by_node(n["id"]) is not None and ri.get_record_by_node(n["id"]).states]
                if not held:
                    continue
                n = held[0]
                rec = ri.get_record_by_node(n["id"])
                iid = getattr(rec, "last_instance_id", None) or rec.states[-1].instance_id
                if op[0] == "cancel-held":
                    run.cancel(iid)
                    continue
                r = run.force(iid)
                now = next(x for x in run.program_nodes() if x.id == n["id"])
                STATS["force_on_held_line_" + ("accepted" if (r == "ok" and now.forced) else "rejected")] += 1
                if r == "ok" and now.forced:
                    pending.setdefault(n["id"], (t, 0))
            snap = run.tick()
            if snap["raised"]:
                return None
            running = snap["tags"].get("System State") == "Running"
            after = {n["id"]: n for n in snap["nodes"]}
            for nid, (t_force, seen) in list(pending.items()):
                n = after[nid]
                if n["started"] or n["completed"] or n["cancelled"] or not n["forced"]:
                    STATS["forced_line_started"] += 1 if n["started"] else 0
                    del pending[nid]       # it proceeded (or the request was undone by a reset / a cancel)
                    continue
                seen += 1 if running else 0
                pending[nid] = (t_force, seen)
                if seen > PROMPT_TICKS:
                    return Failure("forced-threshold-still-waiting", case,
                                   f"line {n['line']} ({n['name']}: {n['arg']}, threshold {n['threshold']}) was forced before "
                                   f"tick {t_force} (request accepted, node.forced set) and has still not started at tick {t}")
        return None
    finally:
        run.close()
