"""Runs one interpreter-level case on the real code, producing the op lines for the model and the
implementation's answer lines."""
from __future__ import annotations

import zlib
from fractions import Fraction

from harness.interp import Harness


def apply_edit_script(cur: list[tuple[str, str]], script: list, keep_indent: bool = False) -> list[tuple[str, str]]:
    """`keep_indent`: a changed line keeps the indentation of the line it replaces, an inserted line takes the
    indentation of the line it is put in front of (of the last line when it is put at the end), so that edits also
    happen inside Block / Watch / Alarm / Macro bodies; appended lines stay at depth 0."""
    new = list(cur)
    fresh = 0

    def ind(text: str) -> str:
        return " " * (len(text) - len(text.lstrip(" "))) if keep_indent and text.strip() else ""

    def unique(i: str) -> str:
        # line ids must be unique within a method (a delete followed by an append could otherwise repeat one)
        taken = {x for x, _ in new}
        k, out = 0, i
        while out in taken:
            k += 1
            out = f"{i}_{k}"
        return out
    for step in script:
        if step[0] == "append":
            fresh += 1
            new.append((unique(f"new_{len(new)}_{fresh}_{zlib.crc32(step[1].encode()) % 9973}"), step[1]))
        elif step[0] == "change" and new:
            k = int(step[1] * len(new))
            new[k] = (new[k][0], ind(new[k][1]) + step[2])
        elif step[0] == "delete" and new:
            k = int(step[1] * len(new))
            del new[k]
        elif step[0] == "insert":
            fresh += 1
            k = int(step[1] * (len(new) + 1))
            lead = ind(new[k][1] if k < len(new) else new[-1][1]) if new else ""
            new.insert(k, (unique(f"ins_{len(new)}_{fresh}_{zlib.crc32(step[2].encode()) % 9973}"), lead + step[2]))
    return new


def run_case(case: dict) -> tuple[list[str], list[str]]:
    import openpectus.lang.model.ast as p
    h = Harness(case["pcode"])
    lines = h.node_lines() + h.content_lines()
    outs = ["ok"] * len(lines)
    scheduled: list[int] = []
    for op in case["ops"]:
        kind = op[0]
        if kind == "tick":
            _, dt, scope, block, tags = op
            lines.append(h.op_line_tick(dt, Fraction(scope), Fraction(block), tags))
            o = h.tick(dt, Fraction(scope), Fraction(block), tags)
            outs.append(o)
            for ev in o.split("|ev=")[1].split("|fl=")[0].split(" "):
                if ev.startswith("cmd:"):
                    scheduled.append(int(ev.split(":")[1]))
        elif kind == "complete":
            pending = [k for k in scheduled if k >= 0 and not h.nodes[k].completed]
            if not pending:
                continue
            k = pending[int(op[1] * len(pending))]
            lines.append(f"complete\t{k}")
            outs.append(h.complete(k))
        elif kind in ("cancel", "force"):
            k = int(op[1] * len(h.nodes))
            n = h.nodes[k]
            # command nodes are cancelled/forced through the command manager (model M2), not here
            if isinstance(n, (p.EngineCommandNode, p.UodCommandNode, p.NotifyNode, p.BatchNode)):
                continue
            if isinstance(n, p.InterpreterCommandNode) and n.instruction_name != "Wait":
                continue
            lines.append(f"{kind}\t{k}")
            outs.append(h.cancel(k) if kind == "cancel" else h.force(k))
        elif kind == "edit":
            # op[1]: edit script applied to the current method lines: list of ("append", text) |
            # ("change", selector, text) | ("delete", selector) | ("insert", selector, text)
            cur = [(ln.id, ln.content) for ln in h.mm._method.lines]
            new = apply_edit_script(cur, op[1], keep_indent=bool(case.get("keep_indent")))
            defs, ans = h.edit(new)
            lines += defs
            outs += ["ok"] * (len(defs) - 1) + [ans]
            scheduled = []
        elif kind == "inject":
            node_lines, op_line = h.inject(op[1])
            lines += node_lines + [op_line]
            outs += ["ok"] * (len(node_lines) + 1)
        else:
            raise ValueError(kind)
    return lines, outs
