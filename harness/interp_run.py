"""Runs one interpreter-level case on the real code, producing the op lines for the model and the
implementation's answer lines."""
from __future__ import annotations

from fractions import Fraction

from harness.interp import Harness


def run_case(case: dict) -> tuple[list[str], list[str]]:
    import openpectus.lang.model.ast as p
    h = Harness(case["pcode"])
    lines = h.node_lines()
    outs = ["ok"] * len(lines)
    scheduled: list[int] = []
    for op in case["ops"]:
        kind = op[0]
        if kind == "tick":
            _, dt, scope, block, tags = op
            lines.append(h.op_line_tick(dt, Fraction(scope), Fraction(block), tags))
            o = h.tick(dt, Fraction(scope), Fraction(block), tags)
            outs.append(o)
            for ev in o.split("|ev=")[1].split("|fl=")[0].split(" "):
                if ev.startswith("cmd:"):
                    scheduled.append(int(ev.split(":")[1]))
        elif kind == "complete":
            pending = [k for k in scheduled if k >= 0 and not h.nodes[k].completed]
            if not pending:
                continue
            k = pending[int(op[1] * len(pending))]
            lines.append(f"complete\t{k}")
            outs.append(h.complete(k))
        elif kind in ("cancel", "force"):
            k = int(op[1] * len(h.nodes))
            n = h.nodes[k]
            # command nodes are cancelled/forced through the command manager (model M2), not here
            if isinstance(n, (p.EngineCommandNode, p.UodCommandNode, p.NotifyNode, p.BatchNode)):
                continue
            if isinstance(n, p.InterpreterCommandNode) and n.instruction_name != "Wait":
                continue
            lines.append(f"{kind}\t{k}")
            outs.append(h.cancel(k) if kind == "cancel" else h.force(k))
        elif kind == "inject":
            node_lines, op_line = h.inject(op[1])
            lines += node_lines + [op_line]
            outs += ["ok"] * (len(node_lines) + 1)
        else:
            raise ValueError(kind)
    return lines, outs
