"""Real-code driver for model M3 (OPM.Model.Interp): runs the real PInterpreter (created by the real
MethodManager from real P-code) with a recording InterpreterContext, and prints the same canonical
observation lines as lean/Driver/Interp.lean.

The context supplies what the model takes as inputs: clock tags, condition tags, completion of
command nodes, cancel/force requests.  Everything else (parser, analyzers, visitor generators, node
flags, tracking, Mark/Block tags) is the repository's own code.
"""
from __future__ import annotations

from fractions import Fraction
from typing import Any

UOD_COMMANDS = ["CmdA", "CmdB", "CmdC"]
COND_TAGS = ["T0", "T1", "T2"]
EPOCH = 1_000_000.0


def frac(x) -> str:
    f = Fraction(x)
    return f"{f.numerator}/{f.denominator}"


def enc(s: str) -> str:
    return "-" if s == "" else ",".join(str(ord(c)) for c in s)


class Recorder:
    """Stands in for EventEmitter: records every emit_on_* call."""
    def __init__(self, sink):
        self.sink = sink

    def __getattr__(self, name):
        if name.startswith("emit_on_"):
            def rec(*args, **kw):
                self.sink(name[len("emit_on_"):], args)
            return rec
        raise AttributeError(name)


class Harness:
    def __init__(self, pcode: str):
        from openpectus.engine.method_manager import MethodManager
        from openpectus.lang.exec.base_unit import BaseUnitProvider
        from openpectus.lang.exec.pinterpreter import InterpreterContext
        from openpectus.lang.exec.tags import SystemTagName, Tag, create_system_tags
        from openpectus.lang.exec.tags_impl import MarkTag
        import openpectus.protocol.models as Mdl

        h = self
        self.events: list[str] = []
        self.lid: dict[str, int] = {}      # line / node id -> ordinal used on the wire
        self.idx: dict[str, int] = {}      # node id -> model index
        self.nodes: list[Any] = []
        tags = create_system_tags()
        tags.add(MarkTag())
        tags.add(Tag(SystemTagName.BLOCK_TIME, value=0.0, unit="s"))
        tags.add(Tag(SystemTagName.SCOPE_TIME, value=0.0, unit="s"))
        for t in COND_TAGS:
            tags.add(Tag(t, value=0))
        bup = BaseUnitProvider()
        for u in ("s", "min", "h"):
            bup.set(u, SystemTagName.SCOPE_TIME, SystemTagName.BLOCK_TIME)
        emitter = Recorder(self._on_emit)

        class Ctx(InterpreterContext):
            @property
            def tags(self):
                return tags

            @property
            def emitter(self):
                return emitter

            @property
            def base_unit_provider(self):
                return bup

            def schedule_execution(self, name, arguments, instance_id):
                h._on_schedule(name, arguments, instance_id)

        self.tags = tags
        self.ctx = Ctx()
        self.mm = MethodManager(UOD_COMMANDS, self.ctx, lambda interp: None)
        self.Mdl = Mdl
        self.SystemTagName = SystemTagName
        self.mm.set_method(Mdl.Method.from_pcode(pcode))
        self.interp.tracking.enable()
        self._hook_tracking()
        self.tick_no = 0
        self._index_program()

    # -- plumbing
    @property
    def interp(self):
        return self.mm.interpreter

    def _hook_tracking(self):
        tr = self.interp.tracking
        orig = tr.mark_completed
        h = self

        def mark_completed(instance, update_node=True):
            import openpectus.lang.model.ast as p
            if isinstance(instance, p.Node) and not tr.silently_skip(instance):
                h.events.append(f"tc:{h.idx.get(instance.id, -1)}")
            return orig(instance, update_node)
        tr.mark_completed = mark_completed

    def line_id(self, real_id: str) -> int:
        if real_id not in self.lid:
            self.lid[real_id] = len(self.lid)
        return self.lid[real_id]

    def _index_program(self):
        self.nodes = []
        self.idx = {}
        for n in self.interp._program.get_all_nodes():
            self.idx[n.id] = len(self.nodes)
            self.nodes.append(n)

    def _on_emit(self, name: str, args):
        i = lambda node_id: self.idx.get(node_id, -1)  # noqa: E731
        if name == "block_start":
            self.events.append(f"bs:{args[0]}")
        elif name == "block_end":
            self.events.append(f"be:{args[0]}>{args[1]}")
        elif name == "scope_start":
            self.events.append(f"ss:{i(args[0])}")
        elif name == "scope_activate":
            self.events.append(f"sa:{i(args[0])}")
        elif name == "scope_end":
            self.events.append(f"se:{i(args[0])}")
        elif name == "method_end":
            self.events.append("me")
        elif name == "notify_command":
            pass
        else:
            self.events.append(f"?{name}")

    def _on_schedule(self, name, arguments, instance_id):
        from openpectus.lang.exec.errors import EngineError
        rec = self.interp.tracking.get_record_by_instance_id(instance_id)
        node_idx = self.idx.get(rec.node_id, -1) if rec is not None else -1
        if name == "Unknowncmd":
            raise EngineError("Invalid command type scheduled", "Unknown command")
        self.events.append(f"cmd:{node_idx}:{name}")

    # -- program description for the model
    def node_lines(self, start: int = 0, prefix: str = "") -> list[str]:
        import openpectus.lang.model.ast as p
        out = []
        for k in range(start, len(self.nodes)):
            n = self.nodes[k]
            parent = self.idx[n.parent.id] if n.parent is not None else -1
            thr = "-" if n.threshold is None else frac(n.threshold)
            in_prog = 0 if self._is_injected(n) else 1
            sig = f"{type(n).__name__}|{n.arguments}|{n.threshold}"
            out.append("\t".join([prefix + "node", str(k), str(parent), self._kind(n, p), thr, enc(n.key_path),
                                  str(in_prog), str(self.line_id(n.id)), enc(sig)]))
        return out

    def content_lines(self, prefix: str = "") -> list[str]:
        return [f"{prefix}line\t{self.line_id(ln.id)}\t{enc(ln.content)}" for ln in self.mm._method.lines]

    def _is_injected(self, n) -> bool:
        import openpectus.lang.model.ast as p
        while n.parent is not None:
            n = n.parent
        return isinstance(n, p.InjectedNode)

    def _kind(self, n, p) -> str:  # noqa: C901
        if isinstance(n, p.ProgramNode):
            return "program"
        if isinstance(n, p.InjectedNode):
            return "injected"
        if isinstance(n, p.WhitespaceNode):
            return f"blank {int(n.has_only_trailing_whitespace)}"
        if isinstance(n, p.MarkNode):
            return f"mark {enc(n.name)}"
        if isinstance(n, p.MacroNode):
            return f"macro {enc(n.macro_name)}"
        if isinstance(n, p.CallMacroNode):
            return f"call {enc(n.macro_name)}"
        if isinstance(n, p.BlockNode):
            return f"block {enc(n.name)}"
        if isinstance(n, p.EndBlockNode):
            return "endblock"
        if isinstance(n, p.EndBlocksNode):
            return "endblocks"
        if isinstance(n, (p.WatchNode, p.AlarmNode)):
            c = n.tag_operator_value
            ops = {"<": "lt", "<=": "le", "=": "eq", "==": "eq", "!=": "ne", ">": "gt", ">=": "ge"}
            k = "watch" if isinstance(n, p.WatchNode) else "alarm"
            return f"{k} {COND_TAGS.index(c.tag_name)} {ops[c.op]} {int(c.tag_value)}"
        if isinstance(n, p.InterpreterCommandNode):
            name = n.instruction_name
            if name == "Wait":
                import re
                from openpectus.lang.exec.regex import REGEX_DURATION
                m = re.match(REGEX_DURATION, n.arguments)
                if m is None:
                    return "failing wait"
                secs = Fraction(m.group("number")) * {"s": 1, "min": 60, "h": 3600}[m.group("number_unit")]
                return f"wait {secs.numerator}/{secs.denominator}"
            if name == "Base":
                if n.arguments in ("s", "min", "h"):
                    return f"base {dict(s=1, min=60, h=3600)[n.arguments]}/1 {enc(n.arguments)}"
                return "failing base"
            if name == "Run counter":
                try:
                    int(n.arguments)
                except ValueError:
                    return "failing runcounter"
            return f"simple {enc(name)}"
        if isinstance(n, (p.EngineCommandNode, p.UodCommandNode)):
            return f"cmd {enc(n.instruction_name)} {int(n.instruction_name == 'Unknowncmd')}"
        if isinstance(n, (p.BatchNode, p.NotifyNode)):
            return f"simple {enc(n.instruction_name)}"
        if isinstance(n, p.ErrorInstructionNode):
            return "failing error"
        raise ValueError(f"node kind not modelled: {type(n).__name__}")

    # -- ops
    def tick(self, dt_eighths: int, scope: Fraction, block: Fraction, tagvals: list[int]) -> str:
        self.tick_no += 1
        t = EPOCH + self._elapsed(dt_eighths)
        self.tags[self.SystemTagName.SCOPE_TIME].set_value(float(scope), t)
        self.tags[self.SystemTagName.BLOCK_TIME].set_value(float(block), t)
        for name, v in zip(COND_TAGS, tagvals):
            self.tags[name].set_value(v, t)
        self.events = []
        self.interp.tracking.tick(t, self.tick_no)
        err = 0
        try:
            self.interp.tick(t, self.tick_no)
        except Exception:
            err = 1
        return self.observe(err)

    _t = 0

    def _elapsed(self, dt_eighths: int) -> float:
        self._t += dt_eighths
        return self._t / 8.0

    def op_line_tick(self, dt_eighths: int, scope: Fraction, block: Fraction, tagvals: list[int]) -> str:
        # the model gets the same absolute time (relative to the epoch: only differences matter)
        return "\t".join(["tick", frac(Fraction(self._t + dt_eighths, 8)), frac(scope), frac(block),
                          ",".join(str(v) for v in tagvals)])

    def observe(self, err: int) -> str:
        import openpectus.lang.model.ast as p
        mark = str(self.tags["Mark"].get_value() or "")
        block = self.tags[self.SystemTagName.BLOCK].get_value()
        base = str(self.tags[self.SystemTagName.BASE].get_value())
        imap = ",".join(str(self.idx.get(i.node.id, -1)) for i in self.interp.interrupts)
        fl = []
        for n in self.nodes:
            bits = [n.started, n.completed, n.failed, n.cancelled, n.forced,
                    getattr(n, "children_complete", False), getattr(n, "interrupt_registered", False),
                    getattr(n, "activated", False), getattr(n, "block_ended", False),
                    getattr(n, "lock_acquired", False), getattr(n, "is_registered", False)]
            s = "".join("1" if b else "0" for b in bits)
            s += f":{getattr(n, 'child_index', 0)}:{getattr(n, 'run_count', 0)}:" \
                 f"{getattr(n, 'run_started_count', 0)}:{getattr(n, 'run_completed_count', 0)}"
            fl.append(s)
        macros = ",".join(f"{enc(k)}={self.idx.get(v.id, -1)}" for k, v in self.interp._program.macros.items())
        return "|".join([f"err={err}", f"marks={enc(mark)}", f"block={'-' if block in (None, '') else enc(str(block))}",
                         f"base={enc(base)}", f"imap={imap}", f"macros={macros}", "ev=" + " ".join(self.events),
                         "fl=" + " ".join(fl)])

    def complete(self, k: int) -> str:
        n = self.nodes[k]
        if not n.failed:
            n.completed = True
        return "ok"

    def cancel(self, k: int) -> str:
        try:
            self.interp.tracking.mark_cancelled(self.nodes[k])
            return "ok"
        except ValueError:
            return "rejected"

    def force(self, k: int) -> str:
        try:
            self.interp.tracking.mark_forced(self.nodes[k])
            return "ok"
        except ValueError:
            return "rejected"

    def edit(self, lines: list[tuple[str, str]]) -> tuple[list[str], str]:
        """`Engine.set_method` while the run is started. `lines` = [(line id, content)].
        Returns (definition lines of the new method for the model + the op line, answer)."""
        from openpectus.lang.exec.errors import MethodEditError
        Mdl = self.Mdl
        method = Mdl.Method(lines=[Mdl.MethodLine(id=i, content=c) for i, c in lines], version=0)
        try:
            if self.mm.program_is_started:
                self.mm.merge_method(method)
                ans = "merged"
            else:
                self.mm.set_method(method)
                ans = "set"
        except MethodEditError:
            ans = "rejected"
        # what the method would be, for the model (parsed independently of the outcome)
        if ans != "rejected":
            self._hook_tracking()
            self._index_program()
            defs = self.node_lines(prefix="new") + self.content_lines(prefix="new")
        else:
            probe = Harness.__new__(Harness)
            probe.__dict__.update(lid=self.lid, idx={}, nodes=[])
            prog = self.mm._parse(self.mm._to_parser_method(method))
            self.mm._apply_analysis(prog)
            for n in prog.get_all_nodes():
                probe.idx[n.id] = len(probe.nodes)
                probe.nodes.append(n)
            defs = Harness.node_lines(probe, prefix="new") + \
                [f"newline\t{self.line_id(i)}\t{enc(c)}" for i, c in lines]
        return defs + ["edit"], ans

    def inject(self, pcode: str) -> tuple[list[str], str]:
        """Returns (node definition lines for the model, op line)."""
        # (public `interrupts` property: the registered interrupts in registration order)
        before = {id(i.node) for i in self.interp.interrupts}
        prog = self.mm.parse_inject_code(pcode)
        self.interp.inject_node(prog)
        new = [i.node for i in self.interp.interrupts if id(i.node) not in before]
        assert len(new) == 1
        inj = new[0]
        start = len(self.nodes)
        stack = [inj]
        order = []

        def walk(n):
            order.append(n)
            for c in getattr(n, "children", []) or []:
                walk(c)
        walk(inj)
        for n in order:
            self.idx[n.id] = len(self.nodes)
            self.nodes.append(n)
        return self.node_lines(start), f"inject\t{start}"
