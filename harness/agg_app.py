"""In-process aggregator application (FastAPI app + Aggregator + temp SQLite file) shared by checks that
exercise the REST / LSP surface (C32).  One instance per process: `AggregatorServer` registers a process-wide
aggregator singleton (`openpectus.aggregator.deps`).  The user's roles are supplied by overriding the
`user_roles` dependency (the JWT decoding in front of it is not part of what is checked here)."""
from __future__ import annotations

import atexit
import os
import shutil
import tempfile

_state: dict = {}


def get():
    """-> dict(server, app, agg, client, roles (mutable holder), calls (list of rpc calls))"""
    if _state:
        return _state
    import logging
    logging.disable(logging.CRITICAL)
    from fastapi.testclient import TestClient
    from openpectus.aggregator.aggregator_server import AggregatorServer
    from openpectus.aggregator.routers import auth
    from openpectus.aggregator.data import database
    import openpectus.aggregator.data.models as DMdl
    import openpectus.protocol.aggregator_messages as AM

    _remove_stale()
    d = tempfile.mkdtemp(prefix=f"verif-agg-{os.getpid()}-")
    atexit.register(cleanup)
    srv = AggregatorServer(db_path=os.path.join(d, "agg.sqlite3"))
    DMdl.DBModel.metadata.create_all(database._engine)
    roles = {"cur": set()}
    srv.fastapi.dependency_overrides[auth.user_roles] = lambda: set(roles["cur"])
    calls: list = []

    async def rpc_call(engine_id, message):
        calls.append((engine_id, type(message).__name__))
        return AM.SuccessMessage()

    srv.aggregator.dispatcher.rpc_call = rpc_call
    client = TestClient(srv.fastapi)
    client.__enter__()      # one event-loop thread for all requests (much cheaper than a portal per request)
    _state.update(server=srv, app=srv.fastapi, agg=srv.aggregator, client=client, roles=roles,
                  calls=calls, tmp=d)
    return _state


def cleanup() -> None:
    """Remove the temp database directory (checks leave through os._exit, so call this explicitly)."""
    d = _state.get("tmp")
    if d:
        shutil.rmtree(d, ignore_errors=True)


def _remove_stale() -> None:
    """Directories of earlier processes that are gone (killed before they could clean up)."""
    import glob
    import re
    for p in glob.glob(os.path.join(tempfile.gettempdir(), "verif-agg-*")):
        m = re.match(r"verif-agg-(\d+)-", os.path.basename(p))
        alive = False
        if m:
            try:
                os.kill(int(m.group(1)), 0)
                alive = True
            except OSError:
                alive = False
        if not alive:
            shutil.rmtree(p, ignore_errors=True)
