"""Op-stream generators for the M2 correspondence (harness/cmdmgr.py vs lean/Driver/CmdMgr.lean) and the
property oracles of C10/C11/C12 over what the *implementation* answered on those streams."""
from __future__ import annotations

import itertools
import random
import re
from typing import Any

from harness.cmdmgr import cfg_line

NCMD = 4
SMALL_SPEC = {"dur": [1, 3, 6, 0], "fail": [-1, 101, -1, 1], "overlaps": [[1, 2]]}


def gen_spec(rng: random.Random) -> dict[str, Any]:
    durs = [rng.choice([0, 1, 1, 2, 3, 4, 6]) for _ in range(NCMD)]
    # (100 + i: set_complete() and then an exception in iteration i)
    fails = [rng.choice([-1, -1, -1, -1, -1, 0, 1, 2, 100, 101, 102]) for _ in range(NCMD)]
    ovl = []
    for _ in range(rng.choice([0, 1, 1, 2])):
        ovl.append(rng.sample(range(NCMD), rng.choice([2, 2, 3])))
    if ovl and rng.random() < 0.3:
        ovl.append(list(ovl[0]))            # the same pair on two lists
    return {"dur": durs, "fail": fails, "overlaps": ovl}


def gen_case(rng: random.Random, n_ops: int, profile: str = "mixed") -> list[str]:
    """`mixed`: everything.  `c11`: requests, ticks, cancels, stops.  `c10`: long commands, sims, stop/restart.
    `c12`: cancel/force on every id."""
    spec = gen_spec(rng)
    if profile == "c10":
        spec["fail"] = [-1] * NCMD
    lines = [cfg_line(spec), "user\tstart", "tick"]
    nid = 1
    w = {"mixed": (0.31, 0.33, 0.10, 0.07, 0.05, 0.04, 0.03, 0.03, 0.04),
         "c11": (0.38, 0.34, 0.12, 0.02, 0.00, 0.05, 0.03, 0.02, 0.04),
         "c10": (0.32, 0.32, 0.03, 0.03, 0.10, 0.08, 0.06, 0.02, 0.04),
         "c12": (0.27, 0.28, 0.20, 0.16, 0.00, 0.03, 0.02, 0.01, 0.03)}[profile]
    kinds = ["req", "tick", "cancel", "force", "sim", "stop", "restart", "start", "pause"]
    for _ in range(n_ops):
        k = rng.choices(kinds, w)[0]
        if k == "req":
            # now and then with an argument the command's parser rejects
            lines.append(f"req\t{rng.randrange(NCMD)}" + ("\tbad" if rng.random() < 0.12 else ""))
            nid += 1
        elif k == "tick":
            lines.append("tick")
        elif k in ("cancel", "force"):
            tgt = 999 if rng.random() < 0.06 else (nid - 1 if rng.random() < 0.4 and nid > 1 else rng.randrange(nid + 1))
            lines.append(f"{k}\t{tgt}")
        elif k == "sim":
            lines.append(f"sim\t{rng.randrange(3)}")
        elif k == "pause":
            lines.append(f"pause\t{rng.choice([1, 1, 0])}")
        else:
            lines.append(f"user\t{k}")
            nid += 1
    lines += ["tick"] * 2
    if rng.random() < 0.7:
        lines += ["user\tstop", "tick", "tick"]      # most cases end with the run ending
    else:
        lines += ["tick"]
    return lines


def malformed_case(rng: random.Random) -> list[str]:
    """Requests that are not valid in the state they arrive in: unknown ids, unknown command index, lifecycle
    commands in the wrong state or while another one is in flight, requests while stopped."""
    lines = [cfg_line(gen_spec(rng))]
    for _ in range(rng.randrange(4, 14)):
        lines.append(rng.choice(["req\t0", "req\t7", "req\t1\tbad", "req\t7\tbad", "cancel\t999", "force\t999", "cancel\t0", "force\t1",
                                 "user\tstop", "user\tstart", "user\tstart", "user\trestart", "tick", "tick",
                                 "sim\t2", "pause\t1", "pause\t0"]))
    return lines


def exhaustive_cases(length: int) -> list[list[str]]:
    """Every op sequence of the given length over a small alphabet, after Start."""
    alphabet = ["req\t0", "req\t1", "req\t2", "req\t3", "req\t1\tbad", "tick", "cancel\t1", "pause\t0", "force\t1",
                "user\tstop"]
    head = [cfg_line(SMALL_SPEC), "user\tstart", "tick"]
    return [head + list(seq) + ["tick", "tick"] for seq in itertools.product(alphabet, repeat=length)]


# ------------------------------------------------------------------------------------------------ parsing

_OBS = re.compile(r"^(\S+) \| ev=(\S+) ex=(\S+) qu=(\S+) in=(\S+) tr=(\S+) st=(\d)(\d)(\d)(\d) sys=(\w) run=(\S+) "
                  r"sim=(\S+) rs=(\d+) stop=(\S+)$")


def parse(answer: str) -> dict[str, Any] | None:
    m = _OBS.match(answer)
    if not m:
        return None

    def lst(x):
        return [] if x == "-" else x.split(",")

    def tracks(x):
        out = {}
        if x in ("-", "none"):
            return out
        for e in x.split(";"):
            i, marks, flags, item = e.split(":")
            out[int(i)] = {"marks": marks, "flags": flags, "item": item}
        return out
    inst = {}
    for e in lst(m.group(5)):
        k, ser, owner, rest = e.split(":")
        # serial "-": created, never initialised (no callback yet)
        inst[int(k)] = {"serial": None if ser == "-" else int(ser), "owner": owner, "state": rest}
    return {"reply": m.group(1), "ev": lst(m.group(2)), "ex": lst(m.group(3)), "qu": lst(m.group(4)), "inst": inst,
            "tr": tracks(m.group(6)), "started": m.group(7) == "1", "stopping": m.group(8) == "1",
            "tracking": m.group(9) == "1", "paused": m.group(10) == "1", "sys": m.group(11), "run": m.group(12),
            "sim": lst(m.group(13)), "resets": int(m.group(14)),
            "stop": None if m.group(15) == "none" else [tracks(x) for x in m.group(15).split("/")],
            "raw": answer}


def _conf(spec: dict[str, Any], a: int, b: int) -> bool:
    return a == b or any(a in g and b in g for g in spec["overlaps"])


def spec_of(lines: list[str]) -> dict[str, Any]:
    from harness.cmdmgr import parse_cfg
    return parse_cfg(lines[0])


# ------------------------------------------------------------------------------------------------ oracles
# over the implementation's answers; each returns [(key, detail)]

def oracle_c11(lines: list[str], answers: list[str]) -> list[tuple[str, str]]:
    spec = spec_of(lines)
    out: list[tuple[str, str]] = []
    name_of: dict[int, int] = {}      # serial -> command index
    state: dict[int, str] = {}
    for n, (ln, a) in enumerate(zip(lines, answers)):
        o = parse(a)
        if o is None:
            continue
        execs = []
        for e in o["ev"]:
            ser = int(re.match(r"[ixf](\d+)", e).group(1))
            st = state.get(ser, "new")
            if e[0] == "i":
                if st != "new":
                    out.append(("instance-initialized-twice", f"op {n}: #{ser}"))
                state[ser] = "init"
            elif e[0] == "x":
                name_of[ser] = int(e.split("k")[1])
                if st == "new":
                    out.append(("exec-before-init", f"op {n}: #{ser}"))
                if st == "final":
                    out.append(("exec-after-finalize", f"op {n}: #{ser}"))
                else:
                    state[ser] = "run"
                execs.append(ser)
            else:
                if st == "final":
                    out.append(("instance-finalized-twice", f"op {n}: #{ser}"))
                if st == "new":
                    # pairing: the finalize callback of an instance whose initialize callback never ran
                    out.append(("finalized-without-initialize", f"op {n}: #{ser} finalized, never initialized"))
                state[ser] = "final"
        if len(execs) > 1 and ln == "tick":
            for a1, a2 in itertools.combinations(sorted(set(execs)), 2):
                if _conf(spec, name_of[a1], name_of[a2]):
                    kind = "same-command" if name_of[a1] == name_of[a2] else "overlapping-commands"
                    out.append((f"two-instances-execute-in-one-tick:{kind}",
                                f"op {n}: instances #{a1} (K{name_of[a1]}) and #{a2} (K{name_of[a2]}) both executed"))
        # an instance that has ended (its exec raised, it completed, it was cancelled) is finalized by the end of the op
        for e in o["ev"]:
            if e[0] == "x":
                ser, it, k = int(re.match(r"x(\d+)", e).group(1)), int(e.split(".")[1].split("k")[0]), int(e.split("k")[1])
                fail_it = spec["fail"][k] % 100 if spec["fail"][k] >= 0 else -1
                if fail_it == it and f"f{ser}" not in o["ev"]:
                    out.append(("failed-instance-not-finalized", f"op {n}: exec of #{ser} (K{k}) raised, no finalize"))
                if fail_it != it and spec["dur"][k] > 0 and it + 1 >= spec["dur"][k] and f"f{ser}" not in o["ev"]:
                    out.append(("completed-instance-not-finalized", f"op {n}: #{ser} (K{k}) completed, no finalize"))
        for k, rec in o["inst"].items():
            if rec["serial"] is not None and ("c" in rec["state"].lstrip("0123456789") or "d" in rec["state"]):
                out.append(("ended-instance-still-in-map",
                            f"op {n}: #{rec['serial']} (K{k}) is cancelled/complete and still in uod.command_instances"))
        # when the run ends every instance that was initialised has been finalized
        if o["stop"] is not None:
            for ser, st in state.items():
                if st in ("init", "run"):
                    out.append(("initialised-instance-not-finalized-when-run-ends",
                                f"op {n}: #{ser} was initialised and is not finalized although the run has ended"))
                    state[ser] = "lost"
        # an instance that left the map must have been finalized
        live = {rec["serial"] for rec in o["inst"].values()}
        for ser, st in state.items():
            if st in ("init", "run") and ser not in live:
                out.append(("instance-dropped-without-finalize", f"op {n}: #{ser} left uod.command_instances unfinalized"))
                state[ser] = "lost"
    return out


def oracle_c10(lines: list[str], answers: list[str]) -> list[tuple[str, str]]:
    """At the op in which Stop / Restart's stop phase completes (an on_stop snapshot is reported)."""
    out: list[tuple[str, str]] = []
    last_run = None
    runs_seen: list[str] = []
    pending_restart = False
    begin_next = False
    for n, (ln, a) in enumerate(zip(lines, answers)):
        o = parse(a)
        if o is None:
            continue
        if o["run"] != "-":
            if o["run"] != last_run and o["run"] in runs_seen:
                out.append(("run-id-reused", f"op {n}: run id ordinal {o['run']} used again"))
            if o["run"] not in runs_seen:
                runs_seen.append(o["run"])
            last_run = o["run"]
        if ln == "user\trestart" and o["reply"] == "ok":
            pending_restart = True
        if o["stop"] is not None:
            if any(rec["serial"] is not None for rec in o["inst"].values()):
                out.append(("instance-survives-stop", f"op {n}: instances {sorted(o['inst'])} after the run ended"))
            elif o["inst"]:
                out.append(("uninitialised-instance-survives-stop",
                            f"op {n}: never initialised instances {sorted(o['inst'])} still in uod.command_instances"))
            for snap in o["stop"]:
                for i, t in snap.items():
                    if "S" in t["marks"] and not any(c in t["marks"] for c in "DFX"):
                        out.append(("started-command-not-concluded-in-final-runlog",
                                    f"op {n}: request {i} has states {t['marks']}"))
            if o["sim"]:
                out.append(("simulation-survives-stop", f"op {n}: tags {o['sim']} still simulated"))
            if o["run"] != "-":
                out.append(("run-id-survives-stop", f"op {n}: run id not cleared"))
            if any(x.isdigit() for x in o["ex"] + o["qu"]):
                out.append(("uod-request-survives-stop", f"op {n}: executing = {o['ex']} queue = {o['qu']}"))
        if begin_next and ln == "tick":
            begin_next = False
            # Restart's third phase, the new run begins: nothing of the old run's pause is left (else the method
            # would never run again)
            if o["started"] and o["paused"] and o["reply"] == "ok":
                out.append(("restarted-run-begins-paused", f"op {n}: the run begun by Restart is paused"))
        if pending_restart and o["stop"] is not None:
            pending_restart = False
            begin_next = True       # the run has ended (second phase); the next tick begins the new one
    return out


def oracle_c12(lines: list[str], answers: list[str]) -> list[tuple[str, str]]:
    out: list[tuple[str, str]] = []
    prev = None
    cancelled_serials: dict[int, int] = {}
    for n, (ln, a) in enumerate(zip(lines, answers)):
        o = parse(a)
        if o is None:
            continue
        f = ln.split("\t")
        if f[0] in ("cancel", "force") and prev is not None:
            i = int(f[1])
            t = prev["tr"].get(i)
            offered = t is not None and t["item"] not in ("none", "!!", "??") and \
                t["item"][0 if f[0] == "cancel" else 1] in "CF"
            known = t is not None
            produced = t is not None and t["item"] not in ("none", "!!", "??")
            same = all(o[k] == prev[k] for k in ("ex", "qu", "inst", "tr", "sim", "run", "sys", "paused")) and not o["ev"]
            if known and produced and not offered:
                if o["reply"] == "ok":
                    # which branch served it: the command's (it had started) or the node's
                    site = "uod-command" if "U" in t["marks"] else "node"
                    concl = ":concluded" if any(c in t["marks"] for c in "DFX") else ""
                    out.append((f"unoffered-{f[0]}-accepted:{site}{concl}", f"op {n}: {ln!r} on item {t} answered ok"))
                elif not same:
                    out.append((f"rejected-{f[0]}-changed-state", f"op {n}: {ln!r}"))
            if not known and not same:
                out.append((f"{f[0]}-of-unknown-id-changed-state", f"op {n}: {ln!r}"))
            if not known and f[0] == "cancel" and o["reply"] == "ok":
                out.append(("cancel-of-unknown-id-accepted", f"op {n}"))
            if f[0] == "cancel" and o["reply"] == "ok" and known:
                if "U" in t["marks"]:
                    # a started command: must be finalized, must never execute again
                    ser = next((r["serial"] for r in prev["inst"].values() if r["owner"] == str(i)), None)
                    if ser is not None:
                        cancelled_serials[ser] = n
                        if f"f{ser}" not in o["ev"]:
                            out.append(("cancelled-uod-command-not-finalized", f"op {n}: #{ser} still alive"))
                else:
                    cancelled_serials[-1 - i] = n     # a request that has not started: must never start
        for e in o["ev"]:
            ser = int(re.match(r"[ixf](\d+)", e).group(1))
            if e[0] == "x" and ser in cancelled_serials:
                out.append(("cancelled-uod-command-executes", f"op {n}: #{ser} executes after the cancel at op "
                                                             f"{cancelled_serials[ser]}"))
        for k, rec in o["inst"].items():
            if rec["serial"] is None:
                continue              # never initialised: it has not run
            key = -1 - int(rec["owner"]) if rec["owner"].isdigit() else None
            if key in cancelled_serials and n > cancelled_serials[key]:
                out.append(("cancelled-unstarted-uod-command-executes",
                            f"op {n}: request {rec['owner']} was cancelled at op {cancelled_serials[key]} and runs"))
                del cancelled_serials[key]
        prev = o
    return out
