"""The correspondence stream shared by the interpreter properties (C02–C05, C41, …): generated
P-code + interpreter-level schedules run on the real PInterpreter and on OPM.Model.Interp."""
from __future__ import annotations

from harness.gen_pcode import gen_program, gen_schedule, gen_snippet
from harness.interp_run import run_case


def m3_stream(ctx, stream: str, n_cases: int, features: set[str] | None = None, max_lines: int = 14,
              max_depth: int = 3, malformed: bool = False, inject: bool = False, extra_cases: list | None = None,
              with_lines: bool = False):
    """Runs `n_cases` generated cases; returns the list of cases (for the oracles)."""
    rng = ctx.rng
    cases = list(extra_cases or [])
    for _ in range(n_cases):
        pcode, stats = gen_program(rng, features=features, max_lines=max_lines, max_depth=max_depth,
                                   malformed=malformed)
        ops = gen_schedule(rng, rng.randrange(12, 45))
        if inject and rng.random() < 0.6:
            k = rng.randrange(2, len(ops))
            ops.insert(k, ["inject", gen_snippet(rng)])
        for k, v in stats.items():
            ctx.count("instr:" + k, v)
        cases.append({"pcode": pcode, "ops": ops})
    cache: dict[int, tuple[list[str], list[str]]] = {}

    def both(c):
        key = id(c)
        if key not in cache:
            try:
                cache[key] = run_case(c)
            except Exception as e:  # the harness could not drive the implementation on this input
                cache[key] = ([], [f"harness-exception:{type(e).__name__}:{e}"])
        return cache[key]

    def nontrivial(c, out):
        # at least one interrupt registered or block entered or macro called during the run
        return any(("imap=" in o and "|imap=|" not in o) or "bs:B" in o for o in out)

    impl_out, model_out = ctx.correspond(stream, "Interp", cases, lambda c: both(c)[0], lambda c: both(c)[1],
                                         nontrivial=nontrivial, impl_timeout=60)
    for c, o in zip(cases, impl_out):
        ctx.count("ticks", sum(1 for x in o if x.startswith("err=")))
        if any(x.startswith("err=1") for x in o):
            ctx.count("runs_with_interpreter_error")
        if any("me" in x.split("|ev=")[1].split("|fl=")[0].split(" ") for x in o if "|ev=" in x):
            ctx.count("runs_reaching_method_end")
    if with_lines:   # also the op lines of every case (to tell which answer belongs to which op)
        return cases, impl_out, model_out, [both(c)[0] for c in cases]
    return cases, impl_out, model_out
