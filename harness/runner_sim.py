"""Deterministic simulation of the real `EngineRunner` (openpectus/engine/engine_runner.py) for C27 / model M12.

The real runner runs, unmodified, on a virtual-time asyncio loop with
  * the real `EngineDispatcher`: `connect_async`, `_register_for_engine_id_async`, `send_registration_msg_async`,
    `disconnect_async`, `send_async`, `assign_sequence_number` all run; only what is underneath them is simulated:
    `httpx.AsyncClient.post` (registration; a re-registration happens after every failure because the runner
    clears `_engine_id`) and `WebSocketRpcClient` (`__aenter__`/`__aexit__`, `other.dispatch_message_async`
    raises RpcChannelClosedException / ConnectionClosedError or answers an RpcResponse); the sequence number
    of every attempt is read from the serialized message on the wire; outcomes and latencies are dictated by a choice
    sequence; the transport is an ordered channel like the production websocket RPC (requests are
    processed, and responses/failures delivered, in send order),
  * a fake message builder producing real `engine_messages` objects,
  * engine events (run start/stop, notifications) injected at loop-iteration boundaries chosen by the
    same choice sequence.
A run is a pure function of (script, choice prefix); beyond the prefix every choice is 0 (= no fault, fast
response, no event now).  `explore()` enumerates choice sequences depth-first under a deviation bound.

Every atomic step of the runner is logged as a token (no source hook: subclass property for `_state`,
list subclass for `_message_buffer`, overrides that only log):
  N<id>:<kind><run>  message created by the builder (kind d=run data, s=run stopped, o=other; run 0 = none)
  S<id>:<seq>        send started (in flight)          B<id>:<seq>  buffered by _post_async
  Q<id>:<seq>        buffered by the buffer_messages task            X<id> rejected (invalid state)
  K<id> / F<id>      head of the channel answered ok / failed         Z<id> in-flight send cancelled
  T<st>              `_state` assigned   G<n> batch taken (buffer copy+clear)
  (Q = `_buffer_message` called outside any `_post_async`; Us/Ub by the coroutine's code object — task name
   strings are not looked at)
  W<id>[!]           the failure handler of message id (0: not a handler) starts waiting for the cancelled
                     state task to end ("!": the state task waits for itself)
  Us / Ub / U0[!]    `_state_task` := steady-state task / buffer task / None ("!": cleared by the state task itself)
  A<s|b>:<id>.<seq>,... the n `_post_async` calls of a batch (consecutive, in order; s=sent, b=re-buffered)
  C1 / C0            connect ok / failed   D  disconnect
"""
from __future__ import annotations

import asyncio
import heapq
import sys
from dataclasses import dataclass, field
from typing import Any, Callable

ABBR = {"Started": "St", "Connected": "Co", "Failed": "Fa", "Disconnected": "Di", "Reconnecting": "Rg",
        "CatchingUp": "Cu", "Reconnected": "Rd", "Stopped": "Sp", "ShutdownComplete": "Sc"}
POST_STATES = ("Connected", "Reconnected", "CatchingUp")
BUFFER_STATES = ("Failed", "Disconnected", "Reconnecting")


CURRENT: dict[str, Any] = {}
_MISSING = object()


def _apply_patches(patches):
    undo = []
    for obj, name, val in patches:
        undo.append((obj, name, vars(obj).get(name, _MISSING)))
        setattr(obj, name, val)
    return undo


def _undo_patches(undo):
    for obj, name, old in reversed(undo):
        if old is _MISSING:
            delattr(obj, name)
        else:
            setattr(obj, name, old)


class VLoop(asyncio.SelectorEventLoop):
    """Virtual time: `time()` is a counter that jumps to the next timer when nothing is ready."""

    def __init__(self):
        super().__init__()
        self._vt = 0.0
        self.iteration = 0
        self.on_iteration: Callable[[], None] | None = None

    def time(self) -> float:
        return self._vt

    def call_at(self, when, callback, *args, context=None):
        return super().call_at(round(when * 1_000_000) / 1_000_000, callback, *args, context=context)

    def _run_once(self):
        self.iteration += 1
        if self.on_iteration is not None:
            self.on_iteration()
        sched = self._scheduled
        while sched and sched[0]._cancelled:
            h = heapq.heappop(sched)
            h._scheduled = False
            self._timer_cancelled_count -= 1
        if not self._ready and sched and sched[0]._when > self._vt:
            self._vt = sched[0]._when
        super()._run_once()


DEFAULT_PROBS = {"send": 0.05, "conn": 0.2, "wait": 0.3, "tags": 0.3, "evd": 1.0}


class Choices:
    """Choice source: the prefix, then (if `rnd` is given) random non-default choices with per-tag
    probability, else 0.  `values` replays the whole run when given as prefix."""

    def __init__(self, prefix: list[int], rnd=None, probs: dict | None = None, policy=None):
        self.prefix = list(prefix)
        self.rnd = rnd
        self.policy = policy      # callable(tag, n, index) -> int | None : directed schedules
        self.probs = dict(DEFAULT_PROBS, **(probs or {}))
        self.log: list[tuple[str, int, int]] = []   # (tag, domain, value)

    def pick(self, tag: str, n: int) -> int:
        i = len(self.log)
        pv = self.policy(tag, n, i) if self.policy is not None and i >= len(self.prefix) else None
        if i < len(self.prefix):
            v = self.prefix[i]
        elif pv is not None:
            v = pv
        elif self.rnd is not None and n > 1 and self.rnd.random() < self.probs.get(tag, 0.0):
            v = self.rnd.randrange(1, n) if tag != "evd" else self.rnd.randrange(0, n)
        else:
            v = 0
        if v >= n:
            v = 0
        self.log.append((tag, n, v))
        return v

    @property
    def exhausted(self) -> bool:
        return len(self.log) >= len(self.prefix)

    @property
    def values(self) -> list[int]:
        return [v for _, _, v in self.log]


@dataclass
class Result:
    tokens: list[str]
    choices: list[tuple[str, int, int]]
    produced: dict[int, dict]            # id -> {kind, run, state (runner state when created), t}
    attempts: list[dict]                 # {id, seq, outcome: ok|fail|faild|cancel|None, t}
    received: list[dict]                 # what the fake aggregator got, in order: {id, seq, attempt}
    buffered_ids: list[int]              # every id that ever entered the buffer (first time order)
    stranded: list[dict]                 # observations of (state == Reconnected and buffer non-empty)
    final_state: str
    final_buffer: list[int]
    final_inflight: list[int]
    quiescent: bool
    t_end: float
    errors: list[str]
    seqs: dict[int, list[int]]           # id -> every sequence number observed on it
    iterations: int = 0
    acked: list[int] = field(default_factory=list)       # ids answered ok, in order
    cancelled: list[int] = field(default_factory=list)   # ids whose in-flight send was cancelled
    rejected: list[int] = field(default_factory=list)    # ids refused by _post_async ("invalid state")
    seq_ctr: int = 0                                     # highest sequence number seen on a message (counter starts at 1)
    limbo: list[int] = field(default_factory=list)       # failed, handler has not buffered them (yet / ever)
    faults: int = 0
    stuck_ids: list[int] = field(default_factory=list)   # their handler waits for a state task that cleared itself
    cancelled_after_fail: list[int] = field(default_factory=list)
    q_in_rd: list[int] = field(default_factory=list)     # appended to the buffer by a buffer task while Reconnected
    orphans: int = 0                                     # buffer tasks dropped from _state_task alive (ever)


_buf_types: dict[type, type] = {}


def _log_buffer_type(base: type) -> type:
    """`_message_buffer` stays whatever sequence type the runner uses (list, deque, …); only `clear` logs."""
    if base not in _buf_types:
        class _LogBuf(base):  # type: ignore
            _sim = None         # set on the runner's buffer only; copies (`deque.copy()` builds `type(self)(self)`) stay silent

            def clear(self):
                if self._sim is not None:
                    self._sim.log(f"G{len(self)}")
                    self._sim.batch = [self._sim.mid(m) for m in self]
                super().clear()
        _buf_types[base] = _LogBuf
    return _buf_types[base]


class Sim:
    def __init__(self, script: list[tuple], prefix: list[int], mode: str = "conn", horizon: float = 40.0,
                 ev_window: int = 40, max_faults: int = 99, rnd=None, probs: dict | None = None,
                 early_events: bool = False, min_time: float = 0.0, fault_until: float = 1e9, policy=None):
        self.script = list(script)
        self.orphan_tasks: list[Any] = []       # buffer tasks dropped from `_state_task` while alive and not cancelled
        self.q_in_rd: list[int] = []            # ids appended by a buffer task while the state was Reconnected
        self.waiting_on: dict[Any, list[int]] = {}
        self.stuck_ids: list[int] = []          # handlers waiting for a state task that cleared itself
        self.cancelled_after_fail: list[int] = []
        self.min_time = min_time
        self.ch = Choices(prefix, rnd, probs, (lambda t, n, i: policy(t, n, i, self)) if policy else None)
        self.early_events = early_events
        self.acked: list[int] = []
        self.cancelled_ids: list[int] = []
        self.rejected_ids: list[int] = []
        self.failed_open: list[int] = []
        self.mode = mode
        self.horizon = horizon
        self.max_faults = max_faults
        self.faults = 0
        self.tokens: list[str] = []
        self.msgs: list[Any] = []
        self.ids: dict[int, int] = {}
        self.produced: dict[int, dict] = {}
        self.attempts: list[dict] = []
        self.received: list[dict] = []
        self.buffered_ids: list[int] = []
        self.stranded: list[dict] = []
        self.errors: list[str] = []
        self.seqs: dict[int, list[int]] = {}
        self.batch: list[int] = []
        self.first_steady = False
        self.run_no = 0
        self.loop: VLoop | None = None
        self.runner = None
        self.disp = None
        self._seen_tokens = 0
        self._ev_wait: int | None = None      # active iterations still to wait before the next event
        self.ev_window = ev_window
        self._script_pos = 0
        self.quiescent = False
        self.frozen = False
        self.result: Result | None = None
        self.fault_until = fault_until
        self.handler_of: dict[Any, int] = {}
        self.sending: dict[Any, Any] = {}

    # ---- logging -------------------------------------------------------------------
    def log(self, tok: str) -> None:
        if not self.frozen:
            self.tokens.append(tok)

    def mid(self, m) -> int:
        return self.ids[id(m)]

    def faults_allowed(self) -> bool:
        return self.faults < self.max_faults and self.loop.time() < self.fault_until

    def note_seq(self, m) -> int:
        i = self.mid(m)
        s = int(m.sequence_number)
        l = self.seqs.setdefault(i, [])
        if not l or l[-1] != s:
            l.append(s)
        return s

    def new_msg(self, m, kind: str, run: int):
        i = len(self.msgs) + 1
        self.msgs.append(m)
        self.ids[id(m)] = i
        st = self.runner._state if self.runner is not None and "_st" in self.runner.__dict__ else "Started"
        self.produced[i] = {"kind": kind, "run": run, "state": st, "t": self.loop.time() if self.loop else 0.0}
        self.log(f"N{i}:{kind}{run}")
        return m

    # ---- the run --------------------------------------------------------------------
    def run(self) -> Result:
        import openpectus.engine.engine_runner as ER
        loop = VLoop()
        self.loop = loop
        asyncio.set_event_loop(loop)
        sim = self

        import random as _random
        if "d" not in _cls_cache:
            _cls_cache["d"] = _dispatcher_class()
        orig_uniform = _random.uniform

        def uniform(a, b):      # the reconnect wait is dictated by the schedule
            return (0.5, 5.5)[sim.ch.pick("wait", 2)]
        # replaced by identity, wherever it is reachable from engine_runner: the function on the library module
        # (`random.uniform`, `import random as r; r.uniform`) and any global bound to it (`from random import uniform`)
        patches = [(_random, "uniform", uniform)]
        patches += [(ER, n, uniform) for n, v in list(vars(ER).items()) if v is orig_uniform]
        patches += _cls_cache["d"].library_patches()
        undo = _apply_patches(patches)
        try:
            loop.run_until_complete(self._main())
        finally:
            _undo_patches(undo)
            CURRENT.pop("disp", None)
            try:
                pend = [t for t in asyncio.all_tasks(loop) if not t.done()]
                for t in pend:
                    t.cancel()
                if pend:
                    loop.on_iteration = None
                    loop.run_until_complete(asyncio.gather(*pend, return_exceptions=True))
            except BaseException as e:  # pragma: no cover
                self.errors.append(f"teardown:{type(e).__name__}")
            loop.close()
            asyncio.set_event_loop(None)
        assert self.result is not None
        return self.result

    async def _main(self):
        loop = self.loop
        builder = SimBuilder(self)
        self.disp = SimDispatcher(self, builder)
        CURRENT["disp"] = self.disp
        emitter = _Emitter()
        self.runner = make_runner(self, self.disp, builder, emitter, loop)

        async def on_first_steady():
            self.first_steady = True
        self.runner.first_steady_state_callback = on_first_steady
        loop.on_iteration = self._iteration_hook
        done_at = None
        while loop.time() < self.horizon:
            await asyncio.sleep(0.05)
            r = self.runner
            calm = (r._state in ("Connected", "Reconnected") and not r._message_buffer and not self.disp.queue
                    and self._script_pos >= len(self.script) and self.ch.exhausted and not self.disp.broken
                    and loop.time() >= self.min_time
                    and (self.ch.rnd is None or not self.faults_allowed()))
            if calm:
                if done_at is None:
                    done_at = loop.time() + 0.4
                elif loop.time() >= done_at:
                    self.quiescent = True
                    break
            else:
                done_at = None
        loop.on_iteration = None
        r = self.runner
        self.result = Result(tokens=merge_batches(self.tokens), choices=list(self.ch.log), produced=self.produced,
                             attempts=[dict(a) for a in self.attempts], received=list(self.received),
                             buffered_ids=list(self.buffered_ids), stranded=self.stranded, final_state=r._state,
                             final_buffer=[self.mid(m) for m in r._message_buffer],
                             final_inflight=[e["id"] for e in self.disp.queue],
                             quiescent=self.quiescent, t_end=loop.time(), errors=self.errors,
                             seqs={k: list(v) for k, v in self.seqs.items()},
                             iterations=loop.iteration, acked=list(self.acked), cancelled=list(self.cancelled_ids),
                             rejected=list(self.rejected_ids),
                             seq_ctr=max([1] + [q for l in self.seqs.values() for q in l]),
                             limbo=sorted(self.failed_open), faults=self.faults, stuck_ids=list(self.stuck_ids),
                             cancelled_after_fail=list(self.cancelled_after_fail), q_in_rd=list(self.q_in_rd),
                             orphans=len(self.orphan_tasks))
        self.frozen = True   # what happens during teardown (cancelling every task) is not part of the run

    def _iteration_hook(self):
        r = self.runner
        if r is None:
            return
        if r._state == "Reconnected" and len(r._message_buffer) > 0:
            if not self.stranded or self.stranded[-1]["ids"] != [self.mid(m) for m in r._message_buffer]:
                self.stranded.append({"t": self.loop.time(), "ids": [self.mid(m) for m in r._message_buffer],
                                      "live_orphans": sum(1 for t in self.orphan_tasks if not t.done())})
        while self._script_pos < len(self.script) and self.script[self._script_pos][0] == "await":
            if r._state != self.script[self._script_pos][1]:      # hold the script until the runner is in that state
                return
            self._script_pos += 1
        if self._script_pos < len(self.script) and (self.first_steady or self.early_events):
            # an engine event arrives (call_soon_threadsafe from the engine thread) at a loop-iteration boundary;
            # which one: `evd` = number of further iterations-with-runner-activity to let pass first
            if self._ev_wait is None:
                self._ev_wait = self.ch.pick("evd", self.ev_window)
                self._seen_tokens = len(self.tokens)
            elif len(self.tokens) != self._seen_tokens:
                self._seen_tokens = len(self.tokens)
                self._ev_wait -= 1
            if self._ev_wait <= 0:
                ev = self.script[self._script_pos]
                self._script_pos += 1
                self._ev_wait = None
                self._inject(ev)

    def _inject(self, ev: tuple):
        r = self.runner
        try:
            if ev[0] == "start":
                self.run_no += 1
                r._on_before_start(f"run{self.run_no}")
                r.on_start(f"run{self.run_no}")
            elif ev[0] == "stop":
                if r.run_id is not None:
                    r.on_stop()
            elif ev[0] == "notify":
                r.on_notify_command("n")
            elif ev[0] == "block":
                r.on_block_start(_Obj(name="b"))
            else:
                self.errors.append(f"unknown event {ev}")
        except Exception as e:  # pragma: no cover
            self.errors.append(f"inject:{type(e).__name__}:{e}")


def _task_role(runner, task) -> str:
    """'b' = the buffer_messages loop, 's' = the steady-state loop — by the coroutine's code object, not by the
    task's name string (a renamed task is still the same role)."""
    try:
        code = task.get_coro().cr_code
        cls = type(runner).__mro__[1]
        if code is cls.buffer_messages.__code__:
            return "b"
        if code is cls.steady_state_send_messages.__code__:
            return "s"
    except Exception:
        pass
    return "b" if "buffer" in task.get_name() else "s"


class _TaskProxy:
    """Stands for `_state_task`; logs when a coroutine starts waiting for the task to finish."""

    def __init__(self, sim, task, role="s"):
        self.sim, self.task, self.role = sim, task, role

    def get_name(self):
        return self.task.get_name()

    def cancel(self, *a):
        return self.task.cancel(*a)

    def cancelling(self):
        return self.task.cancelling()

    def done(self):
        return self.task.done()

    def __str__(self):
        return str(self.task)

    def __await__(self):
        cur = asyncio.current_task()
        if not self.task.done():
            who = self.sim.handler_of.get(cur, 0)
            if who and cur is not self.task:
                self.sim.waiting_on.setdefault(self.task, []).append(who)
            self.sim.log(f"W{who}" + ("!" if cur is self.task else ""))
        return (yield from self.task.__await__())


class _Obj:
    def __init__(self, **kw):
        self.__dict__.update(kw)


class _Emitter:
    def add_listener(self, listener):
        self.listener = listener


class SimBuilder:
    """Stands in for EngineMessageBuilder: real message classes, minimal payloads."""

    def __init__(self, sim: Sim):
        self.sim = sim
        import openpectus.protocol.engine_messages as EM
        import openpectus.protocol.models as Mdl
        self.EM, self.Mdl = EM, Mdl

    def _run_of(self, run_id) -> int:
        return int(run_id[3:]) if run_id else 0

    def create_register_engine_msg(self, uod_name, uod_author_name, uod_author_email, uod_filename, location):
        return self.EM.RegisterEngineMsg(uod_name=uod_name, uod_author_name=uod_author_name,
                                         uod_author_email=uod_author_email, uod_filename=uod_filename,
                                         location=location, secret="", engine_version="sim", computer_name="sim")

    def create_uod_info(self):
        EM, Mdl = self.EM, self.Mdl
        m = EM.UodInfoMsg(readings=[], commands=[],
                          uod_definition=Mdl.UodDefinition(commands=[], system_commands=[], tags=[]),
                          plot_configuration=Mdl.PlotConfiguration.empty(), hardware_str="hw",
                          required_roles=set(), data_log_interval_seconds=1.0)
        return self.sim.new_msg(m, "o", 0)

    def create_tag_updates_snapshot_msg(self):
        return self.sim.new_msg(self.EM.TagsUpdatedMsg(tags=[]), "o", 0)

    def create_tag_updates_msg(self, run_id):
        run = self._run_of(run_id)
        if run == 0 and self.sim.ch.pick("tags", 2) == 1:
            return None
        return self.sim.new_msg(self.EM.TagsUpdatedMsg(tags=[], run_id=run_id), "d" if run else "o", run)

    def create_run_started_msg(self, run_id, tick_time):
        return self.sim.new_msg(self.EM.RunStartedMsg(run_id=run_id, started_tick=0.0), "o", self._run_of(run_id))

    def create_run_stopped_msg(self, run_id):
        m = self.EM.RunStoppedMsg(run_id=run_id, runlog=self.Mdl.RunLog.empty(),
                                  method_state=self.Mdl.MethodState.empty(), archive=None, archive_filename=None)
        return self.sim.new_msg(m, "s", self._run_of(run_id))

    def create_runlog_msg(self, run_id):
        m = self.EM.RunLogMsg(id="rl", run_id=run_id, runlog=self.Mdl.RunLog.empty())
        return self.sim.new_msg(m, "d", self._run_of(run_id))

    def create_error_log_msg(self):
        return None

    def create_control_state_msg(self):
        m = self.EM.ControlStateMsg(control_state=self.Mdl.ControlState(is_running=False, is_holding=False,
                                                                        is_paused=False))
        return self.sim.new_msg(m, "o", 0)

    def create_method_state_msg(self):
        return self.sim.new_msg(self.EM.MethodStateMsg(method_state=self.Mdl.MethodState.empty()), "o", 0)

    def create_method_msg(self):
        return self.sim.new_msg(self.EM.MethodMsg(method=self.Mdl.Method.empty()), "o", 0)

    def _wpn(self):
        EM = self.EM
        m = EM.WebPushNotificationMsg(notification=EM.WebPushNotification(title="t", body="b"),
                                      topic=EM.NotificationTopic.RUN_STOP)
        return self.sim.new_msg(m, "o", 0)

    def create_wpn_run_stopped_msg(self): return self._wpn()
    def create_wpn_run_started_msg(self): return self._wpn()
    def create_wpn_run_paused_msg(self): return self._wpn()
    def create_wpn_block_started_msg(self, block_name): return self._wpn()
    def create_wpn_notify_command_msg(self, text): return self._wpn()
    def create_wpn_watch_activated_msg(self, watch_argument): return self._wpn()
    def create_wpn_method_error_msg(self): return self._wpn()
    def create_wpn_network_error_msg(self): return self._wpn()


def _dispatcher_class():
    from openpectus.protocol.engine_dispatcher import EngineDispatcher
    from openpectus.protocol.exceptions import ProtocolException, ProtocolNetworkException
    import openpectus.protocol.messages as M
    from openpectus.protocol.serialization import serialize
    from fastapi_websocket_rpc.rpc_methods import RpcResponse
    from fastapi_websocket_rpc.rpc_channel import RpcChannelClosedException
    from websockets.exceptions import ConnectionClosedError
    import json

    import openpectus.protocol.aggregator_messages as AM

    class _Other:
        def __init__(self, disp):
            self._disp = disp

        async def dispatch_message_async(self, message_json: dict):
            return await self._disp._wire_call(message_json)

    # What the real connect / registration / send code calls underneath is replaced ON THE LIBRARY CLASSES for the
    # duration of a run (`library_patches`), so it does not matter how engine_dispatcher imports or names them
    # (`from x import C`, `import x as y; y.C`, …).  `CURRENT["disp"]` is the dispatcher of the running simulation.
    def ws_init(self, *a, **kw):
        pass

    async def ws_aenter(self):
        disp = CURRENT["disp"]
        fail = disp._connect_choice()
        await asyncio.sleep(0.02)
        if fail:
            raise ConnectionRefusedError("sim websocket refused")
        disp.broken = False
        disp.sim.log("C1")
        return self

    async def ws_aexit(self, *a, **kw):
        CURRENT["disp"]._channel_closed()

    ws_other = property(lambda self: _Other(CURRENT["disp"]))

    class _Response:
        def __init__(self, obj):
            self.status_code = 200
            self.is_error = False
            self._obj = obj

        def json(self):
            return self._obj

    def http_init(self, *a, **kw):
        pass

    async def http_aenter(self):
        return self

    async def http_aexit(self, *a, **kw):
        return None

    async def http_post(self, *a, **kw):
        disp = CURRENT["disp"]
        # a failing connect attempt fails here every other time (when a registration is needed at all)
        if disp._connect_choice() and disp._conn_fail_no % 2 == 0:
            raise OSError("sim registration post failed")
        disp.registrations += 1
        return _Response(serialize(AM.RegisterEngineReplyMsg(success=True, engine_id="E", secret_match=True,
                                                             version_match=True)))

    def library_patches():
        import httpx
        from fastapi_websocket_rpc.websocket_rpc_client import WebSocketRpcClient
        return [(WebSocketRpcClient, "__init__", ws_init), (WebSocketRpcClient, "__aenter__", ws_aenter),
                (WebSocketRpcClient, "__aexit__", ws_aexit), (WebSocketRpcClient, "other", ws_other),
                (httpx.AsyncClient, "__init__", http_init), (httpx.AsyncClient, "__aenter__", http_aenter),
                (httpx.AsyncClient, "__aexit__", http_aexit), (httpx.AsyncClient, "post", http_post)]

    class SimDispatcher(EngineDispatcher):
        """The real dispatcher (`send_async`, `assign_sequence_number`) over a simulated websocket RPC client:
        an ordered fallible channel whose connect / call outcomes come from the choice sequence."""

        def __init__(self, sim: Sim, builder):
            opts = {"uod_name": "u", "uod_author_name": "a", "uod_author_email": "e", "uod_filename": "f",
                    "location": "l"}
            super().__init__(builder, aggregator_host="sim", secure=False, uod_options=opts)
            self.sim = sim
            self.queue: list[dict] = []
            self.broken = True        # no connection yet
            self._pump_handle = None
            self._conn_decided = None
            self._conn_fail_no = 0
            self.registrations = 0

        # connect_async / _register_for_engine_id_async / send_registration_msg_async / disconnect_async are the
        # REAL methods.  Underneath them `httpx.AsyncClient` (registration POST) and `WebSocketRpcClient`
        # (websocket) of the engine_dispatcher module are replaced by `_HttpClient` / `_Ws` while a run lasts.
        def _connect_choice(self) -> bool:
            """one choice per connect attempt: fail it?  (alternately at the registration POST, when there is one,
            and at the websocket hand-shake)"""
            sim = self.sim
            if self._conn_decided is None:
                self._conn_decided = sim.faults_allowed() and sim.ch.pick("conn", 2) == 1
                if self._conn_decided:
                    sim.faults += 1
                    self._conn_fail_no += 1
            return self._conn_decided

        async def connect_async(self):
            self._conn_decided = None
            try:
                return await super().connect_async()
            except BaseException:
                if self._conn_decided:
                    self.sim.log("C0")
                raise
            finally:
                self._conn_decided = None

        async def disconnect_async(self):
            self.sim.log("D")          # `disconnect_async` called (the real one closes the client if there is one)
            self.broken = True
            return await super().disconnect_async()

        def _channel_closed(self):
            sim = self.sim
            self.broken = True
            # closing the channel fails every pending call, in order
            for e in self.queue:
                e["due"] = sim.loop.time()
                if e["outcome"] == "ok":
                    e["outcome"] = "fail"
            self._pump()

        async def send_async(self, message):
            # the REAL EngineDispatcher.send_async runs (engine_id, assign_sequence_number, serialize, error
            # mapping); only the websocket RPC call underneath it is simulated (`_wire_call`)
            self.sim.sending[asyncio.current_task()] = message
            try:
                return await super().send_async(message)
            finally:
                self.sim.sending.pop(asyncio.current_task(), None)

        async def _wire_call(self, message_json: dict):
            """Stands for `self._rpc_client.other.dispatch_message_async(message_json=...)`."""
            sim = self.sim
            message = sim.sending[asyncio.current_task()]
            i = sim.mid(message)
            seq = int(message_json["sequence_number"])      # what goes over the wire in this attempt
            l = sim.seqs.setdefault(i, [])
            if not l or l[-1] != seq:
                l.append(seq)
            sim.log(f"S{i}:{seq}")
            now = sim.loop.time()
            if self.broken:
                outcome, slow = "fail", False
            else:
                dom = 3 if sim.faults_allowed() else 1
                c = sim.ch.pick("send", 4 if dom == 3 else 2)
                if dom == 1:
                    outcome, slow = "ok", c == 1
                else:
                    outcome = ("ok", "fail", "ok", "faild")[c]
                    slow = c == 2
                if outcome != "ok":
                    sim.faults += 1
                    if sim.mode == "conn":
                        self.broken = True
                        for e in self.queue:          # the channel closes: every pending call fails, now
                            if e["outcome"] == "ok":
                                e["outcome"] = "fail"
                            e["due"] = now
                        slow = False
            fut = sim.loop.create_future()
            entry = {"id": i, "seq": seq, "fut": fut, "due": now + (0.15 if slow else 0.0), "outcome": outcome,
                     "att": len(sim.attempts)}
            sim.attempts.append({"id": i, "seq": seq, "outcome": None, "t": now})
            self.queue.append(entry)
            if outcome in ("ok", "faild"):
                sim.received.append({"id": i, "seq": seq, "attempt": entry["att"]})  # arrives in send order
            self._arm()
            try:
                ok = await fut
            except asyncio.CancelledError:
                if sim.frozen:
                    raise
                if entry in self.queue:
                    self.queue.remove(entry)
                    sim.attempts[entry["att"]]["outcome"] = "cancel:" + entry["outcome"]
                    self._arm()
                elif sim.attempts[entry["att"]]["outcome"] == "ok":
                    raise      # already answered ok: the message is delivered, only the waiting task dies
                else:
                    sim.attempts[entry["att"]]["outcome"] += ":cancelled-after"
                    sim.cancelled_after_fail.append(i)
                    if i in sim.failed_open:
                        sim.failed_open.remove(i)
                sim.cancelled_ids.append(i)
                sim.log(f"Z{i}")
                raise
            if not ok:
                # both exception types the real send_async maps to ProtocolNetworkException
                if entry["att"] % 2 == 0:
                    raise RpcChannelClosedException("sim channel closed")
                raise ConnectionClosedError(None, None)
            return RpcResponse(result=json.dumps(serialize(M.SuccessMessage())), result_type=None)

        def _arm(self):
            if self._pump_handle is not None:
                self._pump_handle.cancel()
                self._pump_handle = None
            if self.queue:
                self._pump_handle = self.sim.loop.call_at(max(self.queue[0]["due"], self.sim.loop.time()), self._pump)

        def _pump(self):
            sim = self.sim
            now = sim.loop.time()
            while self.queue and self.queue[0]["due"] <= now + 1e-9:
                e = self.queue.pop(0)
                ok = e["outcome"] == "ok"
                sim.log(("K" if ok else "F") + str(e["id"]))
                (sim.acked if ok else sim.failed_open).append(e["id"])
                sim.attempts[e["att"]]["outcome"] = e["outcome"]
                if not e["fut"].done():
                    e["fut"].set_result(ok)
            self._arm()

    SimDispatcher.library_patches = staticmethod(library_patches)
    return SimDispatcher


_cls_cache: dict[str, Any] = {}


def SimDispatcher(sim, builder):
    if "d" not in _cls_cache:
        _cls_cache["d"] = _dispatcher_class()
    return _cls_cache["d"](sim, builder)


def _runner_class():
    from openpectus.engine.engine_runner import EngineRunner
    import openpectus.protocol.messages as M

    class SimRunner(EngineRunner):
        """The real runner; the overrides only log."""

        def __init__(self, sim, dispatcher, builder, emitter, loop):
            self.__dict__["_sim"] = sim
            super().__init__(dispatcher, builder, emitter, loop)
            buf = _log_buffer_type(type(self._message_buffer))(self._message_buffer)
            buf._sim = sim
            self._message_buffer = buf

        @property
        def _state(self):
            return self.__dict__["_st"]

        @_state.setter
        def _state(self, v):
            self.__dict__["_st"] = v
            self.__dict__["_sim"].log("T" + ABBR[v])

        def _buffer_message(self, message):
            sim = self._sim
            super()._buffer_message(message)
            direct = asyncio.current_task() not in sim.handler_of    # not inside a _post_async call: a buffer task
            i = sim.mid(message)
            seq = sim.note_seq(message)
            if i not in sim.buffered_ids:
                sim.buffered_ids.append(i)
            if i in sim.failed_open:
                sim.failed_open.remove(i)
            if direct and self._state == "Reconnected":
                sim.q_in_rd.append(i)
            sim.log(("Q" if direct else "B") + f"{i}:{seq}")

        @property
        def _state_task(self):
            return self.__dict__.get("_stask")

        @_state_task.setter
        def _state_task(self, task):
            sim = self.__dict__["_sim"]
            old = self.__dict__.get("_stask")
            if old is not None and old.role == "b" and not old.task.done() and old.task.cancelling() == 0 \
                    and (task is None or task is not old.task):
                sim.orphan_tasks.append(old.task)       # nothing refers to it any more and nobody cancelled it
            if task is None:
                if "_stask" in self.__dict__:       # not the initial assignment in __init__
                    me = old is not None and asyncio.current_task() is old.task
                    if me:
                        sim.stuck_ids.extend(sim.waiting_on.get(old.task, []))
                    sim.log("U0" + ("!" if me else ""))
                self.__dict__["_stask"] = None
            else:
                role = _task_role(self, task)
                sim.log("Ub" if role == "b" else "Us")
                self.__dict__["_stask"] = _TaskProxy(sim, task, role)

        async def _post_async(self, message, *args, **kw):
            sim = self._sim
            cur = asyncio.current_task()
            prev = sim.handler_of.get(cur)
            sim.handler_of[cur] = sim.mid(message)
            try:
                return await self._post_logged(message, *args, **kw)
            finally:
                if prev is None:
                    sim.handler_of.pop(cur, None)
                else:
                    sim.handler_of[cur] = prev

        async def _post_logged(self, message, *args, **kw):
            r = await super()._post_async(message, *args, **kw)
            if isinstance(r, M.ErrorMessage) and r.message is not None and r.message.endswith("invalid state"):
                self._sim.log(f"X{self._sim.mid(message)}")
                self._sim.rejected_ids.append(self._sim.mid(message))
            return r

    return SimRunner


def make_runner(sim, dispatcher, builder, emitter, loop):
    if "r" not in _cls_cache:
        _cls_cache["r"] = _runner_class()
    return _cls_cache["r"](sim, dispatcher, builder, emitter, loop)


def merge_batches(tokens: list[str]) -> list[str]:
    """`G n` is followed (one loop iteration later) by the n `_post_async` calls of the gather, consecutive and
    in buffer order.  They become one token A<s|b>:id.seq,...  If they are not consecutive / uniform the raw
    tokens are kept (and the model rejects the trace)."""
    out: list[str] = []
    i = 0
    pending: int | None = None
    while i < len(tokens):
        t = tokens[i]
        if t[0] == "G":
            pending = int(t[1:])
            out.append(t)
            i += 1
            continue
        if pending and t[0] in "SB" and _is_batch_start(tokens, i, pending, out):
            kind = t[0]
            items = [tokens[i + k][1:].replace(":", ".") for k in range(pending)]
            out.append("A" + ("s" if kind == "S" else "b") + ":" + ",".join(items))
            i += pending
            pending = None
            continue
        out.append(t)
        i += 1
    return out


def _is_batch_start(tokens: list[str], i: int, n: int, out: list[str]) -> bool:
    if i + n > len(tokens):
        return False
    kind = tokens[i][0]
    ids = []
    for k in range(n):
        t = tokens[i + k]
        if t[0] != kind:
            return False
        ids.append(int(t[1:].split(":")[0]))
    # batch members are messages that were created (N) before the G token; a fresh post has its N after it
    g = max(j for j, t in enumerate(out) if t[0] == "G")
    known = set()
    for t in out[:g]:
        if t[0] == "N":
            known.add(int(t[1:].split(":")[0]))
    return all(x in known for x in ids) and _batch_ids(out, g) == ids


def _batch_ids(out: list[str], g: int) -> list[int]:
    """Replay buffer content up to the G token from the tokens themselves."""
    buf: list[int] = []
    for t in out[:g]:
        if t[0] in "BQ":
            buf.append(int(t[1:].split(":")[0]))
        elif t[0] == "G":
            buf = []
        elif t[0] == "A" and t[1] == "b":
            buf.extend(int(x.split(".")[0]) for x in t[3:].split(","))
    return buf


def simulate(script: list[tuple], prefix: list[int], **kw) -> Result:
    return Sim(script, prefix, **kw).run()


# ---------------------------------------------------------------------------------------------------
# systematic exploration: all choice sequences with at most `dev` non-default choices (and at most
# `faults` transport faults), depth-first in lexicographic order, optionally only over the first
# `depth` choice points.

def is_fault(tag: str, v: int) -> bool:
    return (tag == "send" and v in (1, 3)) or (tag == "conn" and v == 1)


def explore(script, faults: int, others: int, total: int, limit: int, depth: int = 10 ** 9, **kw):
    """Yields (prefix, Result), breadth first over choice sequences that deviate from the default schedule in
    at most `faults` transport faults (failed send / failed connect), at most `others` other choices (slow
    answer, reconnect wait, event position, empty tag update) and at most `total` places altogether, the
    deviations being among the first `depth` choice points of the run.  Stops after `limit` runs
    (`explore.complete` tells whether the scope was exhausted)."""
    from collections import deque
    queue: deque[tuple[list[int], int, int]] = deque([([], 0, 0)])
    seen = 0
    explore.complete = False
    while queue and seen < limit:
        prefix, nf, no = queue.popleft()
        res = simulate(script, prefix, max_faults=faults, **kw)
        seen += 1
        yield prefix, res
        if nf + no >= total:
            continue
        log = res.choices
        for pos in range(len(prefix), min(len(log), depth)):
            tag, dom, _ = log[pos]
            for v in range(1, dom):
                f = is_fault(tag, v)
                if (f and nf < faults) or (not f and no < others):
                    queue.append((prefix + [0] * (pos - len(prefix)) + [v], nf + f, no + (not f)))
    explore.complete = not queue
