"""C20 generators: UOD specs (tags with units, regex / default / custom commands, base-unit providers) and methods that
are mostly valid against the definition such a UOD publishes (so that many of them pass the analyzer), with near-miss
arguments, units of the same and of other quantities, undefined names at low weight.
Everything derives from the `random.Random` passed in."""
from __future__ import annotations

TAG_NAMES = ["Flow", "Pressure", "TT01", "Conc", "Fraction", "Level", "pH", "Speed", "Mode", "Cond", "UV", "Weight"]
TAG_UNITS = ["%", "vol%", "wt%", "mol%", "degC", "degF", "K", "L/h", "L/min", "L/d", "bar", "Pa", "mS/cm", "kg", "g",
             "CV", "AU", "mAU", "s", "min", "L", "mL", "m2", "LMH", "kg/h", "g/min", None, None, None]
CMD_NAMES = ["Pump", "Valve", "Inlet", "Outlet", "Mixer", "Heater", "Note", "Zero", "Feed", "Drain", "Set point", "PU01"]
UNIT_SETS = [["%"], ["L/h", "L/min"], ["s", "min", "h"], ["bar"], ["m**2", "L/m2/h"], ["degC"], ["%", "L/h"], None, None]
OPTION_POOL = ["Open", "Closed", "A", "B", "VA01", "VA02", "A+", "B|C", "V(1)", "x.y", "a b", "[1]", "on*", "Up?", "C^2"]
BASE_UNITS = ["L", "h", "min", "s", "mL", "CV", "DV", "g", "kg"]
FAR = ["Xyzzy", "Qwertyuiop", "Unobtainium", "Frobnicate"]
# a uod author's own regular expressions (with_command_regex_arguments takes any string): not anchored at the start / at
# the end / at neither end / anchored at both; with arguments the expression matches as a whole
RAW_REGEXES = [
    (r"(?P<number>[0-9]+[.]?[0-9]*) ?(?P<number_unit>Hz|kHz)\s*$", ["50 Hz", "2.5kHz", "7 Hz "]),
    (r"^\s*(?P<position>Open|Closed)", ["Open", " Closed", "Open"]),
    (r"(?P<number>[0-9]+) ?(?P<number_unit>%|rpm)", ["50 %", "1200rpm", "7 %"]),
    (r"^(?P<value>[A-Z][0-9]{2})$", ["A01", "V17", "B99"]),
    (r"(?P<value>on|off)$", ["on", "off", "on"]),
]
RAW_PREFIXES = ["+", "ca. ", "x", "-", "= ", "  ", "to "]
RAW_SUFFIXES = [" approx", "x", " !", "s", ".0", " ", " (max)"]


def gen_spec(rng, allow_custom: bool = True) -> dict:
    from openpectus.lang.exec import units as U
    tags = []
    for name in rng.sample(TAG_NAMES, rng.randrange(2, 7)):
        unit = rng.choice(TAG_UNITS)
        if unit is None:
            value = rng.choice([0, 1, 7, 2.5, "on", "idle"])
        else:
            value = rng.choice([0.0, 1.0, 5.0, 20.0, 37.5, 100.0])
        tags.append([name, unit, value])
    cmds = []
    for name in rng.sample(CMD_NAMES, rng.randrange(2, 7)):
        r = rng.random()
        if r < 0.24:
            cmds.append({"name": name, "kind": "number", "units": rng.choice(UNIT_SETS),
                         "non_negative": rng.random() < 0.5, "int_only": rng.random() < 0.25})
        elif r < 0.35:
            rx, samples = rng.choice(RAW_REGEXES)
            cmds.append({"name": name, "kind": "rawregex", "regex": rx, "samples": samples})
        elif r < 0.42:
            cmds.append({"name": name, "kind": "number_optional", "units": rng.choice(UNIT_SETS[:4]),
                         "non_negative": rng.random() < 0.5})
        elif r < 0.67:
            k = rng.random()
            excl = rng.sample(OPTION_POOL, rng.randrange(1, 4)) if k < 0.8 else None
            addi = rng.sample(OPTION_POOL, rng.randrange(1, 4)) if k > 0.4 else None
            if addi and excl:
                addi = [o for o in addi if o not in excl] or None
            cmds.append({"name": name, "kind": "categorical", "exclusive": excl, "additive": addi})
        elif r < 0.77:
            cmds.append({"name": name, "kind": "text", "allow_empty": rng.random() < 0.5})
        elif r < 0.85:
            cmds.append({"name": name, "kind": "noargs"})
        elif r < 0.94 or not allow_custom:
            cmds.append({"name": name, "kind": "default"})
        else:
            cmds.append({"name": name, "kind": "custom"})
    _ = U
    return {"tags": tags, "cmds": cmds, "base": rng.choice(["none", "none", "volume", "cv"])}


def earlier_version(rng, spec: dict) -> dict:
    """An earlier version of the same uod: same tag and command NAMES (so process values, command list and plot
    configuration look the same), other units / argument patterns."""
    import copy
    old = copy.deepcopy(spec)
    changed = False
    for c in old["cmds"]:
        if rng.random() < 0.7:
            k = c["kind"]
            if k in ("number", "number_optional"):
                c["units"] = rng.choice([u for u in UNIT_SETS[:7] if u != c.get("units")])
                c["non_negative"] = not c.get("non_negative")
                changed = True
            elif k == "categorical":
                c["exclusive"], c["additive"] = ["Old", "Older"], None
                changed = True
            elif k == "rawregex":
                rx, samples = rng.choice([x for x in RAW_REGEXES if x[0] != c["regex"]])
                c["regex"], c["samples"] = rx, samples
                changed = True
            elif k == "text":
                c["allow_empty"] = not c.get("allow_empty")
                changed = True
            elif k == "noargs":
                c["kind"] = "default"      # used to take any argument
                changed = True
    for t in old["tags"]:
        if t[1] is not None and rng.random() < 0.5:
            t[1] = rng.choice([u for u in TAG_UNITS if u is not None and u != t[1]])
            t[2] = 1.0
            changed = True
    if not changed:
        t = old["tags"][0]
        t[1], t[2] = ("kg" if t[1] != "kg" else "g"), 1.0
    return old


def number_arg(rng, c: dict, valid: bool) -> str:
    units = c.get("units")
    sign = "" if c.get("non_negative") or rng.random() < 0.7 else "-"
    if c.get("int_only"):
        num = str(rng.randrange(0, 500))
    else:
        num = rng.choice([str(rng.randrange(0, 500)), f"{rng.randrange(0, 50)}.{rng.randrange(0, 100)}",
                          f".{rng.randrange(1, 100)}", f"{rng.randrange(0, 50)}."])
    unit = rng.choice(units) if units else ""
    sep = rng.choice(["", " "]) if unit else ""
    s = f"{sign}{num}{sep}{unit}"
    if valid:
        return s
    r = rng.random()
    if r < 0.25:
        return f"{sign}{num}{sep}{rng.choice(['xx', 'kg', 'L/hh', 'percent'])}"
    if r < 0.45 and units:
        return f"{sign}{num}"
    if r < 0.6:
        return f"{num}..5{sep}{unit}"
    if r < 0.75:
        return f"-{num}{sep}{unit}" if c.get("non_negative") else f"--{num}{sep}{unit}"
    if r < 0.9:
        return f"{s} extra"
    return "" if c["kind"] == "number" else "x"


def categorical_arg(rng, c: dict, valid: bool) -> str:
    excl, addi = c.get("exclusive") or [], c.get("additive") or []
    if valid:
        if excl and (not addi or rng.random() < 0.5):
            return rng.choice(excl)
        k = rng.randrange(1, 4)
        return "+".join(rng.choice(addi) for _ in range(k))
    r = rng.random()
    pool = excl + addi
    if r < 0.3:
        return rng.choice(["Nope", "open", "VA99", ""])
    if r < 0.5 and excl:
        return rng.choice(excl) + "+" + rng.choice(pool)
    if r < 0.7 and addi:
        return rng.choice(addi) + "++" + rng.choice(addi)
    if r < 0.85:
        return "+" + rng.choice(pool)
    return rng.choice(pool) + "x"


def rawregex_arg(rng, c: dict, valid: bool) -> str:
    """the matching part, mostly with something in front of / behind it (whether that is acceptable depends on where
    the author anchored the expression — the analysis and the engine have to agree on it)"""
    core = rng.choice(c["samples"])
    if not valid:
        return rng.choice(["", "nope", "?", core[:-1] if len(core) > 1 else "x"])
    r = rng.random()
    if r < 0.3:
        return core
    if r < 0.6:
        return rng.choice(RAW_PREFIXES) + core
    if r < 0.85:
        return core + rng.choice(RAW_SUFFIXES)
    return rng.choice(RAW_PREFIXES) + core + rng.choice(RAW_SUFFIXES)


def raw_probe_args(c: dict) -> list[str]:
    """fixed argument strings around the samples of a rawregex command, for the validate/parse probe"""
    core = c["samples"][0]
    return [core] + [p + core for p in RAW_PREFIXES[:4]] + [core + x for x in RAW_SUFFIXES[:4]] + ["+" + core + " !", ""]


def cmd_line(rng, c: dict, valid: bool) -> str:
    k = c["kind"]
    if k == "rawregex":
        # arguments are stripped by the parser; a method line cannot carry leading blanks in the argument
        return f"{c['name']}: {rawregex_arg(rng, c, valid)}".rstrip()
    if k in ("number", "number_optional"):
        if k == "number_optional" and valid and rng.random() < 0.3:
            return rng.choice([c["name"], c["name"] + ":  "])
        return f"{c['name']}: {number_arg(rng, c, valid)}".rstrip()
    if k == "categorical":
        a = categorical_arg(rng, c, valid)
        return f"{c['name']}: {a}" if a else c["name"]
    if k == "text":
        if valid:
            t = rng.choice(["hello", "step 1", "a: b", "x > 3", "5 %"])
            return f"{c['name']}: {t}" if not (c.get("allow_empty") and rng.random() < 0.3) else c["name"]
        return c["name"]
    if k == "noargs":
        return c["name"] if valid else f"{c['name']}: now"
    if k == "default":
        return rng.choice([c["name"], f"{c['name']}: anything", f"{c['name']}: 87"])
    if k == "custom":
        return f"{c['name']}: {rng.randrange(0, 99)}" if valid else f"{c['name']}: {rng.choice(['abc', '1.5', '-3', ''])}".rstrip()
    raise ValueError(k)


def cond_text(rng, spec: dict, simulate: bool = False) -> str:
    """`tag op value [unit]` against the spec's tags: mostly well-formed, units of the same / other quantities."""
    from openpectus.lang.exec import units as U
    system = [["Run Time", "s", 0.0], ["Block Time", "s", 0.0], ["Run Counter", None, 0], ["System State", None, "Running"]]
    name, unit, value = rng.choice(spec["tags"] + (system if not simulate and rng.random() < 0.25 else []))
    r = rng.random()
    if r < 0.06:
        # an undefined name: unrelated, or one edit away from a defined one (the analyzer's "did you mean" path)
        name = rng.choice(FAR[:2] + [name[:-1] + "x", name + "s", name[:1] + name[2:] if len(name) > 3 else name + "x"])
    op = "=" if simulate else rng.choice(["<", "<=", ">", ">=", "=", "==", "!="])
    if unit is None and isinstance(value, str):
        op = "=" if simulate else rng.choice(["=", "==", "!=", "=", ">"])
        val = rng.choice(["on", "idle", "Running", "3"])
    else:
        val = rng.choice(["0", "1", "3", "2.5", "50", "100", "0.5"])
    cu = ""
    if unit is not None:
        r = rng.random()
        if r < 0.45:
            cu = unit
        elif r < 0.91:
            try:
                cu = rng.choice(U.QUANTITY_UNIT_MAP[U.get_unit_quantity_name(unit)])
            except ValueError:
                cu = unit
        elif r < 0.96:
            cu = rng.choice(["s", "L/h", "kg", "bar", "%", "degC"])
        elif r < 0.98:
            cu = ""
        else:
            cu = rng.choice(["xx", "Lh", "zz"])
    elif rng.random() < 0.04:
        cu = rng.choice(["s", "%", "kg"])
    sep = rng.choice(["", " "]) if cu else ""
    return f"{name} {op} {val}{sep}{cu}"


def gen_method(rng, spec: dict, n_lines: int) -> str:
    lines: list[str] = []

    def add(text, indent=0):
        lines.append(" " * indent + text)
    if rng.random() < 0.5:
        add("Base: s")
    while len(lines) < n_lines:
        r = rng.random()
        indent = 0
        th = f"{rng.choice(['0', '0.1', '0.25'])} " if rng.random() < 0.1 else ""
        if r < 0.34 and spec["cmds"]:
            c = rng.choice(spec["cmds"])
            add(th + cmd_line(rng, c, rng.random() < 0.92), indent)
        elif r < 0.52:
            add(f"{rng.choice(['Watch', 'Alarm'])}: {cond_text(rng, spec)}")
            for _ in range(rng.randrange(1, 3)):
                if spec["cmds"] and rng.random() < 0.5:
                    add(cmd_line(rng, rng.choice(spec["cmds"]), rng.random() < 0.93), 4)
                else:
                    add(rng.choice(["Mark: a", "Mark: b", "Info: in watch"]), 4)
        elif r < 0.60:
            add(f"Simulate: {cond_text(rng, spec, simulate=True)}")
        elif r < 0.64:
            name = rng.choice(spec["tags"])[0]
            if rng.random() < 0.12:
                name = rng.choice([rng.choice(FAR), name[:-1] + "x", name + "s"])
            add(f"Simulate off: {name}")
        elif r < 0.70:
            # units from the static list, the time units, and near misses that start with / contain / end in a unit
            near = ["sec", "mins", "minutes", "1 min", "each", "Lh", "hs", "s min", "ms", "xx"]
            add(f"Base: {rng.choice(BASE_UNITS + ['s', 's', 'min', 'h'] + ([rng.choice(near)] * 3 if rng.random() < 0.5 else []))}")
        elif r < 0.78:
            add(rng.choice(["Wait: 0.1 s", "Wait: 0.2s", "Wait: 0.001 h", "Wait: .1 s", "Wait: 0.1 s",
                            "Wait: 1" if rng.random() < 0.4 else "Wait: 0.3 s"]))
        elif r < 0.84:
            add(rng.choice(["Run counter: 3", "Run counter: 07", "Increment run counter", "Run counter: 12",
                            rng.choice(["Run counter: x", "Increment run counter: 2", "Run counter: 2.5", "Run counter: 4"])]))
        elif r < 0.90:
            add(rng.choice(["Info: hello", "Warning: careful", "Info", "Pause: 0.2 s", "Hold: 0.2 s", "Notify: ping",
                            "Batch: B7", rng.choice(["Pause: 0.2", "Hold: 1 x", "Hold: 0.1 s", "Pause: 0.1 s"])]))
        elif r < 0.94:
            add("Block: B" + str(len(lines)))
            add(rng.choice(["Mark: in block", "Info: in block"]), 4)
            add("End block", 4)
        elif r < 0.985:
            add(rng.choice(["Mark: A", "# comment", "", "Mark"]))
        else:
            add(rng.choice(FAR + ["Unpause", "Start", "Noop"]) + rng.choice(["", ": 1"]))
    if rng.random() < 0.15:
        add(rng.choice(["Stop", "Stop: now", "Restart: 1"]))
    return "\n".join(lines)
