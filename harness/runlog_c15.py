"""Harness of C15 (run log producible and well-formed).

* canonical text of records / run logs (same text as lean/Driver/RunLog.lean prints);
* `TrackLog`: records every outermost call of the state-appending API of `Tracking` / `RuntimeInfo` of a real
  engine run as op lines for the model (`step`), with what the call read from the AST node as input;
* `run_case`: drives the real Engine through a schedule (ticks, cancel/force by run-log item id, user commands,
  injections, live edits), logs the ops, dumps records + run log after every tick, and runs the property oracle
  on what `Tracking.get_runlog()` returned;
* synthetic record lists (well-formed and not) built directly from `RuntimeRecord` objects.
"""
from __future__ import annotations

from fractions import Fraction
from typing import Any

from vp.core import enc, Infra


class BrokenTie(RuntimeError):
    """The op log can no longer observe the implementation (the code changed shape): the correspondence is
    broken — reported by the decision rule as a violation with no failing input, never as a verdict and never
    as an infrastructure fault."""

SKIP_NAMES = ("Start", "Restart", "Stop")
UNKNOWN_INST = 900_000


def t8(t: float) -> int:
    f = Fraction(t) * 8
    if f.denominator != 1:
        raise Infra(f"time {t!r} is not a multiple of 1/8 s")
    return int(f)


class Ords:
    """first-occurrence ordinals"""
    def __init__(self):
        self.m: dict[str, int] = {}

    def __call__(self, k: str) -> int:
        if k not in self.m:
            self.m[k] = len(self.m)
        return self.m[k]


def flags4(o) -> str:
    return "".join("1" if b else "0" for b in (o.cancellable, o.cancelled, o.forcible, o.forced))


def cmd_kind(command) -> str:
    from openpectus.lang.exec.uod import UodCommand
    if command is None:
        return "n"
    return "u" if isinstance(command, UodCommand) else "o"


def name_field(name) -> str:
    return "~" if name is None else enc(name)


def state_text(st, inst: int) -> str:
    return ";".join([str(inst), str(st.state_name), str(t8(st.state_time)), str(int(st.state_tick)),
                     flags4(st), cmd_kind(st.command), enc(st.name)])


def records_text(records, nodes: Ords, inst_of) -> str:
    out = []
    for r in records:
        sts = "/".join(state_text(st, inst_of(st.instance_id)) for st in r.states) or "-"
        out.append(f"{nodes(r.node_id)}:{enc(r.node_class_name)}:{name_field(r.name)}:{sts}")
    return "|".join(out) or "-"


def item_text(it, inst: int) -> str:
    fl = flags4(it) + ("1" if it.failed else "0")
    return ";".join([str(inst), str(it.state), str(t8(it.start)), "~" if it.end is None else str(t8(it.end)), fl,
                     enc(it.name)])


def runlog_text(runtimeinfo, inst_of) -> tuple[str, Any]:
    """canonical answer of `get_runlog()`; also returns the RunLog (or the exception)"""
    try:
        rl = runtimeinfo.get_runlog()
    except AssertionError as e:
        msg = str(e)
        if "tick out of order" in msg:
            return "err:order-tick", e
        if "time out of order" in msg:
            return "err:order-time", e
        if "Error generating runlog" in msg:
            return "err:item-none", e
        return "err:AssertionError", e
    except ValueError as e:
        return "err:inst-mismatch", e
    except Exception as e:  # noqa
        return f"err:{type(e).__name__}", e
    return "|".join(item_text(it, inst_of(it.id)) for it in rl.items) or "-", rl


def record_lines(records, nodes: Ords, inst_of) -> list[str]:
    lines = ["clear"]
    for r in records:
        lines.append(f"rec\t{nodes(r.node_id)}\t{enc(r.node_class_name)}\t{name_field(r.name)}")
        for st in r.states:
            lines.append("\t".join(["st", str(inst_of(st.instance_id)), str(st.state_name), str(t8(st.state_time)),
                                    str(int(st.state_tick)), enc(st.name), flags4(st), cmd_kind(st.command)]))
    lines.append("runlog")
    return lines


# ----------------------------------------------------------------------------------------
# op log of the tracking API

class TrackLog:
    """Installed around one engine run; `lines`/`outs` are the op lines and the implementation's answers."""
    current: "TrackLog | None" = None
    _patched = False

    def __init__(self, guard: bool = True):
        self.lines: list[str] = []
        self.outs: list[str] = []
        self.depth = 0
        self.nodes = Ords()
        self.inst: dict[str, int] = {}
        self.tracking = None
        self.guard = guard
        self.stale_calls = 0
        self.counts: dict[str, int] = {}
        self.n_addrec = 0          # records seen by the hook since the current tracker was installed

    def inst_of(self, uid: str) -> int:
        if uid not in self.inst:
            return UNKNOWN_INST + (hash_stable(uid) % 1000)
        return self.inst[uid]

    def emit(self, line: str, out: str):
        self.lines.append(line)
        self.outs.append(out)
        k = line.split("\t", 2)
        key = k[0] + (":" + k[1] if k[0] == "mark" else "")
        self.counts[key] = self.counts.get(key, 0) + 1

    # -- what Tracking reads from the node
    def env_for_record(self, tr, record, fallback=None) -> str:
        import openpectus.lang.model.ast as p
        node = tr.get_known_node_by_id(record.node_id) if record is not None else fallback
        if node is None:
            return "0\t0\t-\t0000" if record is not None else "1\t0\t-\t0000"
        skip = isinstance(node, p.NullNode) and node.command_name in SKIP_NAMES
        return f"1\t{int(skip)}\t{enc(node.runlog_name or '')}\t{flags4(node)}"

    def target(self, tr, instance):
        import openpectus.lang.model.ast as p
        if isinstance(instance, p.Node):
            return f"n\t{self.nodes(instance.id)}", tr.runtimeinfo.get_record_by_node(instance.id)
        skip = int(instance.name in SKIP_NAMES)
        return f"c\t{self.inst_of(instance.instance_id)}\t{skip}", tr.runtimeinfo.get_record_by_instance(instance.instance_id)

    @classmethod
    def install(cls):
        if cls._patched:
            return
        try:
            cls._install()
        except AttributeError as e:     # the tracking API this harness wraps by (public) name has changed
            raise BrokenTie(f"tracking API changed, the C15 op log cannot be installed: {e}") from e

    @classmethod
    def _install(cls):
        cls._patched = True
        import openpectus.lang.model.ast as p
        from openpectus.lang.exec.tracking import Tracking
        from openpectus.lang.exec.runlog import RuntimeInfo

        def active(self_tr):
            log = cls.current
            if log is None:
                return None
            if log.tracking is not self_tr:
                log.stale_calls += 1
                return None
            return log

        orig_init = Tracking.__init__

        def init(self, runtimeinfo, tags, node_accessor, enabled=False):
            orig_init(self, runtimeinfo, tags, node_accessor, enabled)
            log = cls.current
            if log is not None:
                log.tracking = self
                log.inst = {}          # uuids are allocated per RuntimeInfo; node ordinals continue (only names)
                log.n_addrec = len(runtimeinfo.records)
                log.emit(f"init\t{int(bool(enabled))}\t{int(log.guard)}", "ok")
                for r in runtimeinfo.records:   # normally empty
                    log.emit(f"addrec\t{log.nodes(r.node_id)}\t{enc(r.node_class_name)}\t{name_field(r.name)}", "ok")
        Tracking.__init__ = init

        orig_tick = Tracking.tick

        def tick(self, tick_time, tick_number):
            orig_tick(self, tick_time, tick_number)
            log = active(self)
            if log is not None:
                log.emit(f"tick\t{t8(tick_time)}\t{int(tick_number)}", "ok")
        Tracking.tick = tick

        for nm, b in (("enable", 1), ("disable", 0)):
            def mk(nm=nm, b=b):
                orig = getattr(Tracking, nm)

                def f(self):
                    orig(self)
                    log = active(self)
                    if log is not None:
                        log.emit(f"enable\t{b}", "ok")
                return f
            setattr(Tracking, nm, mk())

        # Record creation is observed where it becomes visible - the list behind the public `RuntimeInfo.records` -
        # not through a private method name: every RuntimeInfo gets a list subclass whose growth is logged.
        class LoggedRecords(list):
            owner = None

            def _seen(self, record):
                log = cls.current
                if log is not None and log.tracking is not None and log.tracking.runtimeinfo is self.owner:
                    log.n_addrec += 1
                    log.emit(f"addrec\t{log.nodes(record.node_id)}\t{enc(record.node_class_name)}\t"
                             f"{name_field(record.name)}", "ok")

            def append(self, record):
                list.append(self, record)
                self._seen(record)

            def insert(self, i, record):
                if i != len(self):
                    raise BrokenTie("RuntimeInfo inserts a record in the middle of its list: not an op of the tracking model")
                list.insert(self, i, record)
                self._seen(record)

            def extend(self, records):
                for r in records:
                    self.append(r)

            def __iadd__(self, records):
                self.extend(records)
                return self

        orig_ri_init = RuntimeInfo.__init__

        def ri_init(self, *a, **kw):
            orig_ri_init(self, *a, **kw)
            sentinel = object()
            for k, v in list(vars(self).items()):
                if type(v) is list:
                    v.append(sentinel)
                    hit = any(x is sentinel for x in self.records)
                    v.pop()
                    if hit:
                        lst = LoggedRecords(v)
                        lst.owner = self
                        setattr(self, k, lst)
                        self._verif_records_attr = k
                        return
            raise BrokenTie("no list attribute of RuntimeInfo backs its public `records`: record creation cannot be observed")
        RuntimeInfo.__init__ = ri_init

        orig_create = Tracking.create_node_instance_id

        def create(self, node):
            log = active(self)
            if log is None:
                return orig_create(self, node)
            outer = log.depth == 0
            record = self.runtimeinfo.get_record_by_node(node.id)
            log.depth += 1
            try:
                uid = orig_create(self, node)
            except Exception as e:
                log.depth -= 1
                if outer:
                    log.emit(f"create\t{log.nodes(node.id)}\t{log.env_for_record(self, record, node)}",
                             f"err:{type(e).__name__}")
                raise
            log.depth -= 1
            log.inst[uid] = len(log.inst)
            if outer:
                log.emit(f"create\t{log.nodes(node.id)}\t{log.env_for_record(self, record, node)}",
                         f"ok {log.inst[uid]}")
            return uid
        Tracking.create_node_instance_id = create

        def wrap_mark(kind: str, op: str):
            orig = getattr(Tracking, "mark_" + kind)

            def f(self, instance, *a, **kw):
                log = active(self)
                if log is None or log.depth > 0:
                    return orig(self, instance, *a, **kw)
                tgt, record = log.target(self, instance)
                update_node = kw.get("update_node", a[0] if a else True)
                upd_ok = True
                if update_node and kind in ("cancelled", "forced") and record is not None:
                    n = instance if (isinstance(instance, p.Node) and kind == "cancelled") \
                        else self.get_known_node_by_id(record.node_id)
                    if n is not None:
                        upd_ok = n.cancellable if kind == "cancelled" else n.forcible
                log.depth += 1
                out = "ok"
                try:
                    return orig(self, instance, *a, **kw)
                except Exception as e:
                    out = f"err:{type(e).__name__}"
                    raise
                finally:
                    log.depth -= 1
                    env = log.env_for_record(self, record, instance if isinstance(instance, p.Node) else None)
                    if op == "mark":
                        log.emit(f"mark\t{kind.replace('_', '')}\t{tgt}\t{env}\t{int(bool(upd_ok))}", out)
                    else:
                        log.emit(f"fail\t{tgt}\t{env}", out)
            setattr(Tracking, "mark_" + kind, f)

        for kind in ("started", "completed", "cancelled", "forced", "awaiting_condition", "awaiting_threshold"):
            wrap_mark(kind, "mark")
        wrap_mark("failed", "fail")

        def wrap_cmd(nm: str, uod: int):
            orig = getattr(Tracking, nm)

            def f(self, command):
                log = active(self)
                if log is None or log.depth > 0:
                    return orig(self, command)
                record = self.runtimeinfo.get_record_by_instance(command.instance_id)
                log.depth += 1
                out = "ok"
                try:
                    return orig(self, command)
                except Exception as e:
                    out = f"err:{type(e).__name__}"
                    raise
                finally:
                    log.depth -= 1
                    log.emit(f"cmdst\t{uod}\t{log.inst_of(command.instance_id)}\t{int(command.name in SKIP_NAMES)}\t"
                             f"{log.env_for_record(self, record)}", out)
            setattr(Tracking, nm, f)
        wrap_cmd("mark_uod_command_started", 1)
        wrap_cmd("mark_internal_command_started", 0)


def hash_stable(s: str) -> int:
    import zlib
    return zlib.crc32(s.encode())


# ----------------------------------------------------------------------------------------
# property oracle on one run log (exactly the clauses of the property text)

CONCLUSIVE = ("completed", "failed", "cancelled")


def check_runlog(rl) -> list[tuple[str, str]]:
    """[(key, detail)] for a RunLog the implementation produced."""
    bad: list[tuple[str, str]] = []
    items = rl.items
    for a, b in zip(items, items[1:]):
        if not a.start <= b.start:
            bad.append(("items-not-ordered-by-start", f"{a.name!r}@{a.start} before {b.name!r}@{b.start}"))
            break
    ids = [it.id for it in items]
    if len(set(ids)) != len(ids):
        dup = next(i for i in ids if ids.count(i) > 1)
        bad.append(("duplicate-item-id", f"id {dup} on items {[it.name for it in items if it.id == dup]}"))
    for it in items:
        if it.end is not None and it.end < it.start:
            bad.append(("item-ends-before-start", f"{it.name!r}: start {it.start} end {it.end}"))
            break
    for it in items:
        if str(it.state) in CONCLUSIVE:
            if it.end is None:
                bad.append((f"{it.state}-item-without-end", f"{it.name!r}"))
                break
            if it.cancellable:
                bad.append((f"{it.state}-item-cancellable", f"{it.name!r}"))
                break
            if it.forcible:
                bad.append((f"{it.state}-item-forcible", f"{it.name!r}"))
                break
    return bad


EXCLUDED_NODE_CLASSES = ("ProgramNode", "BlankNode", "CommentNode", "InjectedNode", "NullNode")


class CompletionLog:
    """Last clause, per invocation.  Every write `node.completed = True` (False -> True) that the real interpreter /
    tracking code performs is observed through a harness-side `__setattr__` hook on `ast.Node` (no repo change), so
    the oracle sees every completion of every node, also those that are reset again within the same tick (Alarm
    re-arm, macro re-invocation).  An event remembers the tracker, the tracker time and the instance id of the
    invocation in progress (`record.last_instance_id`, the id `mark_completed` uses).  After the tick the run log must
    show THE item of that invocation as Completed with that end time."""
    current: "CompletionLog | None" = None
    _patched = False

    def __init__(self, engine):
        self.engine = engine
        self.events: list[dict] = []
        self.seen_inst: dict[tuple[int, str], set] = {}   # (tracker, node id) -> instance ids of earlier completions
        self.n_events = 0
        self.n_repeat = 0
        self.raw = 0               # every completed-write seen by the hook

    @classmethod
    def install(cls):
        if cls._patched:
            return
        cls._patched = True
        import sys
        import openpectus.lang.model.ast as p

        def setattr_hook(self, name, value):
            if name == "completed" and value and not self.__dict__.get("completed", False):
                log = cls.current
                if log is not None:
                    caller = sys._getframe(1).f_code.co_name
                    if caller != "apply_state":        # state transplant of a live edit, not an execution
                        log.on_completed(self, caller)
            object.__setattr__(self, name, value)
        p.Node.__setattr__ = setattr_hook

    def on_completed(self, node, caller: str):
        tr = self.engine._tracking
        if tr is None:
            return
        rec = tr.runtimeinfo.get_record_by_node(node.id)
        self.raw += 1
        self.events.append({"node": node, "tr": tr, "t": tr.tick_time, "caller": caller,
                            "inst": rec.last_instance_id if rec is not None else None, "has_record": rec is not None})

    def check(self, rl) -> list[tuple[str, str]]:
        """Judge the completion events since the last call against the run log just produced."""
        out: list[tuple[str, str]] = []
        events, self.events = self.events, []
        tr_now = self.engine._tracking
        for ev in events:
            node = ev["node"]
            cls = type(node).__name__
            if ev["tr"] is not tr_now or cls in EXCLUDED_NODE_CLASSES:
                continue                       # interpreter was reset after the event / not a method instruction
            nm = node.runlog_name
            if nm is None or nm == "Stop":
                continue
            self.n_events += 1
            rec = tr_now.runtimeinfo.get_record_by_node(node.id)
            what = f"{cls} {nm!r} completed at {ev['t']} (set in {ev['caller']})"
            if rec is None or ev["inst"] is None:
                ids = {st.instance_id for st in rec.states} if rec is not None else set()
                if not any(it.id in ids and str(it.state) == "completed" and it.end == ev["t"] for it in rl.items):
                    out.append((f"completed-instruction-without-item:{cls}", what + ": its record has no invocation"))
                continue
            key_n = (id(tr_now), node.id)
            earlier = self.seen_inst.setdefault(key_n, set())
            item = next((it for it in rl.items if it.id == ev["inst"]), None)
            if cls == "MacroNode" and item is not None and str(item.state) == "completed":
                continue   # `Call macro` re-sets the flag of the definition line, which completed (and is shown) earlier
            if ev["inst"] in earlier:
                out.append((f"invocations-share-instance-id:{cls}",
                            what + ": an earlier completion of this instruction had the same instance id"))
            earlier.add(ev["inst"])
            if len(earlier) > 1:
                self.n_repeat += 1
            if item is None:
                out.append((f"completed-instruction-without-item:{cls}", what + ": no item with the id of this invocation"))
            elif str(item.state) == "completed":
                if item.end != ev["t"]:
                    out.append((f"completed-instruction-has-stale-completed-item:{cls}",
                                what + f": the item of this invocation is Completed with end {item.end}"))
            else:
                names = [str(st.state_name) for st in rec.states if st.instance_id == ev["inst"]]
                site = ""
                if str(item.state) == "cancelled":
                    k = names.index("cancelled") if "cancelled" in names else len(names)
                    site = ":cancelled-before-start" if "started" not in names[:k] else ":cancelled-after-start"
                    mine = [st for st in rec.states if st.instance_id == ev["inst"]]
                    others: dict[str, list] = {}
                    for st in rec.states:
                        if st.instance_id != ev["inst"]:
                            others.setdefault(st.instance_id, []).append(st)
                    if mine and any(sts[0].state_tick <= mine[0].state_tick and
                                    not any(str(x.state_name) in ("started",) + CONCLUSIVE for x in sts)
                                    for sts in others.values()):
                        # an earlier visit of the node got its own invocation that never started: its request ran under
                        # the id of this invocation (the node was visited twice before the first request was scheduled)
                        site += ":double-visit"
                    if any(any(str(x.state_name) == "started" for x in sts) and
                           not any(str(x.state_name) in CONCLUSIVE for x in sts) for sts in others.values()):
                        # an earlier invocation of the node is still shown as running: its command was superseded by this
                        # invocation's request and the Cancelled state of that clean-up landed here
                        site += ":superseded-earlier-invocation"
                    cmds = [st.command for st in mine if st.command is not None]
                    if cmds and not any(c.is_cancelled() for c in cmds):
                        site += ":command-not-cancelled"   # only the log says Cancelled, the command object was not cancelled
                out.append((f"completed-instruction-shown-as-{item.state}:{cls}{site}",
                            what + f": the item of this invocation shows {item.state}; states {names}"))
        return out


# ----------------------------------------------------------------------------------------
# engine runs

FLAKY_COMMANDS = {"FlakyA": 1, "FlakyC": 3}   # name -> iteration (1-based) in which the exec function raises
LONG_COMMANDS = {"CmdLong": 15}               # name -> iterations until complete (outlasts an Alarm cycle / a macro call)


def flaky_engine_run(pcode: str):
    """`EngineRun` whose UOD additionally has commands whose exec function raises while running
    (`_execute_uod_command` then cancels the command as clean-up and `_execute_command` marks it failed).
    The extra commands are added by wrapping `UodBuilder.build` for the duration of the construction."""
    from harness.engine_run import EngineRun
    from openpectus.lang.exec.uod import UodBuilder

    def make_exec(name: str, at: int):
        def exec_fn(cmd, **kvargs):
            cmd._verif_iter = getattr(cmd, "_verif_iter", 0) + 1
            if cmd._verif_iter >= at:
                raise ValueError(f"{name} fails in iteration {at}")
        return exec_fn
    def make_long(name: str, n: int):
        def exec_fn(cmd, **kvargs):
            cmd._verif_iter = getattr(cmd, "_verif_iter", 0) + 1
            if cmd._verif_iter >= n:
                cmd.set_complete()
        return exec_fn
    orig = UodBuilder.build

    def build(self):
        for name, at in FLAKY_COMMANDS.items():
            if name not in self.command_factories:
                self.with_command(name=name, exec_fn=make_exec(name, at))
        for name, n in LONG_COMMANDS.items():
            if name not in self.command_factories:
                self.with_command(name=name, exec_fn=make_long(name, n))
        return orig(self)
    UodBuilder.build = build
    try:
        return EngineRun(pcode)
    finally:
        UodBuilder.build = orig


def run_case(case: dict, guard: bool = True, with_ops: bool = True) -> dict:
    """Returns {'lines','outs' (tracking stream), 'fails': [(key, detail, tick)], 'stats': {...}}."""
    from harness.engine_run import EngineRun
    from harness.interp_run import apply_edit_script
    TrackLog.install()
    log = TrackLog(guard)
    TrackLog.current = log if with_ops else None
    fails: list[tuple[str, str, int]] = []
    seen_keys: set[str] = set()
    stats = {"ticks": 0, "items": 0, "cancel_ok": 0, "force_ok": 0, "late_requests": 0, "edits_ok": 0, "injects_ok": 0,
             "conclusive_items": 0, "runlogs": 0, "failed_items": 0}
    CompletionLog.install()
    run = flaky_engine_run(case["pcode"])
    clog = CompletionLog(run.engine)
    CompletionLog.current = clog
    edited = False

    def fail(key: str, detail: str, tick: int):
        if key not in seen_keys:
            seen_keys.add(key)
            fails.append((key, detail, tick))

    def observe(tick: int):
        tr = run.engine.tracking
        inst_of = log.inst_of if with_ops else Ords()
        text, rl = runlog_text(tr.runtimeinfo, inst_of)
        stats["runlogs"] += 1
        if with_ops:
            # a dead hook must never look like a verdict: the op log has to account for every record / invocation
            recs = tr.runtimeinfo.records
            if log.tracking is not tr:
                raise BrokenTie("C15 op log: the engine's tracker was not seen by the Tracking.__init__ hook (broken tie)")
            if log.n_addrec != len(recs):
                raise BrokenTie(f"C15 op log: {len(recs)} runtime records but {log.n_addrec} record creations observed "
                            "(record-creation hook dead: broken tie, no verdict)")
            if any(r.states for r in recs) and log.counts.get("create", 0) == 0:
                raise BrokenTie("C15 op log: records have states but no create_node_instance_id call was observed "
                            "(tracking hooks dead: broken tie, no verdict)")
            log.emit("dump", records_text(recs, log.nodes, log.inst_of))
            log.emit("trunlog", text)
        if text.startswith("err:"):
            fail("runlog-raises-" + text[4:], f"get_runlog() raised {type(rl).__name__}: {str(rl)[:120]}", tick)
            return None
        for key, detail in check_runlog(rl):
            fail(key, detail, tick)
        for key, detail in clog.check(rl):
            fail(key, detail, tick)
        stats["items"] = max(stats["items"], len(rl.items))
        if clog.raw == 0 and any(str(it.state) == "completed" for it in rl.items):
            raise BrokenTie("C15 oracle: the run log has Completed items but the node.completed hook saw no write "
                        "(completion hook dead: no verdict)")
        stats["failed_items"] = max(stats["failed_items"], sum(1 for it in rl.items if str(it.state) == "failed"))
        stats["conclusive_items"] = max(stats["conclusive_items"],
                                        sum(1 for it in rl.items if str(it.state) in CONCLUSIVE))
        return rl

    try:
        rl = observe(0)
        for k, ops in enumerate(case["schedule"]):
            for op in ops:
                kind = op[0]
                if kind in ("cancel", "force"):
                    items = rl.items if rl is not None else []
                    if op[1].startswith("name:"):
                        items = [it for it in items if it.name == op[1][5:]]
                    elif op[1] == "offered":
                        items = [it for it in items if (it.cancellable if kind == "cancel" else it.forcible)]
                    elif op[1] == "concluded":
                        items = [it for it in items if str(it.state) in CONCLUSIVE]
                    if not items:
                        continue
                    it = items[min(int(op[2] * len(items)), len(items) - 1)]
                    late = str(it.state) in CONCLUSIVE
                    res = run.cancel(it.id) if kind == "cancel" else run.force(it.id)
                    if res == "ok":
                        stats[kind + "_ok"] += 1
                        stats["late_requests"] += int(late)
                elif kind == "user":
                    run.user(op[1])
                elif kind == "tag":
                    run.set_tag(op[1], op[2])
                elif kind == "inject":
                    stats["injects_ok"] += int(run.inject(op[1]) == "ok")
                elif kind == "edit":
                    cur = [(ln.id, ln.content) for ln in run.engine.method_manager._method.lines]
                    new = apply_edit_script(cur, op[1])
                    m = run.Mdl.Method(lines=[run.Mdl.MethodLine(id=i, content=c) for i, c in new], version=0)
                    if run.edit(m) == "ok":
                        stats["edits_ok"] += 1
                        edited = True
            run.tick()
            stats["ticks"] += 1
            rl = observe(k + 1)
    finally:
        TrackLog.current = None
        CompletionLog.current = None
        run.close()
    stats["stale_tracking_calls"] = log.stale_calls
    stats["completion_events"] = clog.n_events
    stats["repeated_invocation_completions"] = clog.n_repeat
    return {"lines": log.lines, "outs": log.outs, "fails": fails, "stats": stats, "counts": log.counts}


# ----------------------------------------------------------------------------------------
# synthetic record lists

STATE_NAMES = ["created", "uodcommandset", "internalenginecommandset", "awaitingthreshold", "awaitingcondition",
               "started", "cancelled", "forced", "completed", "failed"]
CLASSES = ["MarkNode", "InterpreterCommandNode", "UodCommandNode", "WatchNode", "AlarmNode", "BlockNode",
           "ProgramNode", "BlankNode", "CommentNode", "InjectedNode", "NullNode", "ErrorInstructionNode"]


def gen_records(rng, wf: bool) -> list[dict]:
    """JSON description of a record list.  wf=True: per instance ordered and nothing after a conclusive state;
    wf=False: random states (also shared instance ids across records, disorder, states after conclusive ones)."""
    recs = []
    next_inst = 0
    t, k = rng.randrange(0, 50), rng.randrange(0, 9)
    for ri in range(rng.randrange(0, 6)):
        cls = rng.choice(CLASSES[:6]) if rng.random() < 0.7 else rng.choice(CLASSES)
        name = rng.choice(["Mark: a", "Wait: 1s", "CmdA", "Stop", "Watch: T0 > 1", "", None, "Block: B1"])
        if cls == "NullNode":
            name = "NullNode"
        states = []
        n_inst = rng.randrange(0, 4)
        insts = []
        for _ in range(n_inst):
            if not wf and rng.random() < 0.15 and next_inst > 0:
                insts.append(rng.randrange(0, next_inst))
            else:
                insts.append(next_inst)
                next_inst += 1
        open_insts = list(insts)
        for _ in range(rng.randrange(0, 9) if insts else 0):
            if wf:
                if not open_insts:
                    break
                i = rng.choice(open_insts)
                nm = rng.choice(STATE_NAMES)
                if nm in CONCLUSIVE:
                    open_insts.remove(i)
                if rng.random() < 0.5:
                    t += rng.randrange(0, 4)
                    k += rng.randrange(0, 2)
            else:
                i = rng.choice(insts)
                nm = rng.choice(STATE_NAMES)
                t += rng.choice([0, 0, 1, 2, -1]) if rng.random() < 0.5 else 0
                k += rng.choice([0, 0, 1, -1]) if rng.random() < 0.4 else 0
            states.append({"i": i, "n": nm, "t": t, "k": k, "l": rng.choice(["Mark: a", "x", ""]),
                           "f": "".join(rng.choice("01") for _ in range(4)),
                           "c": rng.choice("nnnuo") if nm in ("uodcommandset", "internalenginecommandset") else "n"})
        recs.append({"cls": cls, "name": name, "states": states})
    return recs


def build_runtimeinfo(recs: list[dict]):
    from openpectus.engine.commands import EngineCommand
    from openpectus.lang.exec.runlog import RuntimeInfo, RuntimeRecord, RuntimeRecordState, RuntimeRecordStateEnum
    from openpectus.lang.exec.uod import UodCommand

    def command(kind: str):
        if kind == "n":
            return None
        c = (UodCommand if kind == "u" else EngineCommand).__new__(UodCommand if kind == "u" else EngineCommand)
        c._progress = False
        return c
    ri = RuntimeInfo()
    for k, r in enumerate(recs):
        rec = RuntimeRecord(node_id=f"n{k}", name=r["name"], node_class_name=r["cls"])
        for s in r["states"]:
            st = RuntimeRecordState(f"i{s['i']}", RuntimeRecordStateEnum(s["n"]), s["t"] / 8, s["k"], None)
            st.name = s["l"]
            st.cancellable, st.cancelled, st.forcible, st.forced = (ch == "1" for ch in s["f"])
            st.command = command(s["c"])
            rec.states.append(st)
        add_record_fn()(ri, rec)
    return ri


_ADD_RECORD = None


def add_record_fn():
    """The RuntimeInfo method that registers one record (located by role once per process, not by its private name):
    called on a scratch instance with a record it makes `records` grow by that record and `get_record_by_node` find it."""
    global _ADD_RECORD
    if _ADD_RECORD is None:
        import inspect
        from openpectus.lang.exec.runlog import RuntimeInfo, RuntimeRecord
        for name, fn in vars(RuntimeInfo).items():
            if not inspect.isfunction(fn) or name.startswith("__"):
                continue
            try:
                params = list(inspect.signature(fn).parameters)
            except (TypeError, ValueError):
                continue
            if len(params) != 2:
                continue
            ri, rec = RuntimeInfo(), RuntimeRecord(node_id="probe", name="probe", node_class_name="MarkNode")
            try:
                fn(ri, rec)
            except Exception:
                continue
            if len(ri.records) == 1 and ri.records[0] is rec and ri.get_record_by_node("probe") is rec:
                _ADD_RECORD = fn
                break
        if _ADD_RECORD is None:
            raise BrokenTie("no RuntimeInfo method registers a record: synthetic record lists cannot be built")
    return _ADD_RECORD
