"""Sequences of parses through the engine's long-lived parser objects (C17): the MethodManager keeps ONE inject
parser for all injections and re-parses the current method on Restart / Stop+Start, also after live edits.
What parsing text k yields must not depend on texts 1..k-1, and the method program must be the parse of the
CURRENT method (one node per line, carrying that line's id)."""
from __future__ import annotations

from typing import Any


def rows_of(program) -> str:
    """structure of a parsed tree with nodes numbered in pre-order (ids of injected code are not line ids)"""
    import openpectus.lang.model.ast as p
    from harness.parse_common import preorder, kind_of
    nodes = preorder(program)
    pos = {id(n): i for i, (n, _) in enumerate(nodes)}
    out = []
    for i, (n, par) in enumerate(nodes):
        pr = "r" if isinstance(par, p.ProgramNode) else str(pos[id(par)])
        k = kind_of(n)
        out.append(f"{i}:{pr}:-:-:w" if k == "w" else
                   f"{i}:{pr}:{int(bool(n.indent_error))}:{n.position.character}:{k}:L{n.position.line}")
    return ";".join(out) if out else "-"


def fresh_inject_rows(text: str, uod) -> str:
    from openpectus.lang.model.parser import create_inject_parser
    return rows_of(create_inject_parser(list(uod)).parse_pcode(text))


def run_inject_sequence(texts: list[str]) -> list[dict[str, Any]]:
    """every text parsed by `MethodManager.parse_inject_code` of ONE engine, in order"""
    from harness.engine_run import EngineRun
    run = EngineRun("Mark: x", start=False)
    out = []
    try:
        mm = run.engine.method_manager
        for t in texts:
            try:
                prog = mm.parse_inject_code(t)
                out.append({"program": prog, "rows": rows_of(prog), "raised": None})
            except Exception as e:
                out.append({"program": None, "rows": None, "raised": f"{type(e).__name__}: {e}"})
    finally:
        run.close()
    return out


def method_of(lines: list[list[str]]):
    import openpectus.protocol.models as Mdl
    return Mdl.Method(lines=[Mdl.MethodLine(id=i, content=c) for i, c in lines], version=0, last_author="")


def program_ids(mm) -> list[str]:
    from harness.parse_common import preorder
    return [n.id for n, _ in preorder(mm.program)]


def run_method_sequence(v1: list[list[str]], v2: list[list[str]], how: str) -> dict[str, Any]:
    """set_method(v1), Start, a few ticks, live edit to v2 (merge), then `how` = 'Restart' | 'Stop+Start', ticks.
    Observed: ids of the program nodes against the ids of the CURRENT method's lines after each stage."""
    from harness.engine_run import EngineRun
    run = EngineRun("Mark: x", start=False)
    obs: dict[str, Any] = {"stages": [], "raised": None}
    try:
        mm = run.engine.method_manager

        def stage(name: str):
            obs["stages"].append({"stage": name, "line_ids": [ln.id for ln in mm._method.lines],
                                  "node_ids": program_ids(mm),
                                  "node_lines": [n.position.line for n in mm.program.get_all_nodes()][1:],
                                  "state": str(run.engine.tags["System State"].get_value()),
                                  "program": id(mm.program)})
        obs["set"] = run.edit(method_of(v1))
        stage("set_method")
        run.user("Start")
        for _ in range(3):
            run.tick()
        obs["edit"] = run.edit(method_of(v2))
        stage("live-edit")
        if how == "Restart":
            run.user("Restart")
        else:
            run.user("Stop")
            for _ in range(4):
                run.tick()
            run.user("Start")
        for _ in range(16):
            run.tick()
        stage("after-" + how)
        obs["tick_errors"] = list(run.tick_errors)
        # what Restart / Stop do with the parser, called directly so that an exception of the parser is seen
        try:
            mm.reset_interpreter()
            obs["reparse"] = "ok"
        except Exception as e:
            obs["reparse"] = f"{type(e).__name__}: {e}"
        stage("after-reset_interpreter")
    except Exception as e:
        obs["raised"] = f"{type(e).__name__}: {e}"
    finally:
        run.close()
    return obs
