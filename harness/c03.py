"""C03 (thresholds and Wait durations): method generator tuned for thresholds / Base changes / Waits,
an interpreter-level harness with the default 0.1 s tick interval, and the property oracle over the
real Engine (independent of the Lean model).
"""
from __future__ import annotations

import math
import random
import re
from decimal import Decimal
from fractions import Fraction

from harness.gen_pcode import Gen, gen_schedule
from harness.interp import Harness, frac

FACTOR = {"s": 1, "min": 60, "h": 3600}
THR = {
    "s": ["0.125", "0.25", "0.5", "0.75", "1", "1.5", "2", "3"],
    "min": ["0.0078125", "0.015625", "0.03125"],            # 0.47 s, 0.94 s, 1.875 s
    "h": ["0.000244140625", "0.00048828125"],               # 0.88 s, 1.76 s
}
WAITS_ANY = ["0.0625", "0.125", "0.25", "0.375", "0.5", "0.75", "1", "1.25", "1.5"]
WAITS_OFF_GRID = ["0.0625", "0.125", "0.25", "0.375", "0.625", "0.75", "0.875", "1.25"]   # d - 0.1 is no multiple of 0.1


# ----------------------------------------------------------------------------------------
# generator

class GenC03(Gen):
    """gen_pcode.Gen with many more thresholds (chosen to be reachable in the current base unit),
    Base changes and Waits."""

    def __init__(self, rng: random.Random, p_thr: float = 0.4, waits: list[str] | None = None,
                 p_wait: float = 0.2, **kw):
        super().__init__(rng, **kw)
        self.p_thr = p_thr
        self.p_wait = p_wait
        self.base = "min"
        self.waits = waits or WAITS_ANY

    def emit(self, depth: int, text: str, thr: bool = True):
        r = self.rng
        if text.startswith("Base: "):
            self.base = text.split(": ")[1]
        if text.startswith("Wait: "):
            text = f"Wait: {r.choice(self.waits)}s"
        prefix = ""
        if thr and "thr" in self.features and r.random() < self.p_thr:
            prefix = r.choice(THR[self.base]) + " "
            self.count("threshold")
            self.count("threshold_in_" + self.base)
        self.lines.append("    " * depth + prefix + text)

    def mark(self, depth: int):
        if "wait" in self.features and self.rng.random() < self.p_wait:
            self.emit(depth, "Wait: 1s")
            self.count("wait")
        else:
            super().mark(depth)

    def program(self) -> str:
        r = self.rng
        if r.random() < 0.7:
            self.emit(0, f"Base: {r.choice(['s', 's', 's', 'min', 'h'])}", thr=False)
            self.count("base")
        return super().program()


def gen_method(rng: random.Random, features: set[str], max_lines: int = 12, max_depth: int = 2,
               waits: list[str] | None = None, p_thr: float = 0.4) -> tuple[str, dict[str, int]]:
    g = GenC03(rng, p_thr=p_thr, waits=waits, features=features, max_lines=max_lines, max_depth=max_depth)
    return g.program(), g.stats


def gen_clock_schedule(rng: random.Random, n_ticks: int, denom: int = 8, with_requests: bool = True) -> list[list]:
    """Interpreter-level schedule (ticks of `1/denom` s): clocks that cross the generated thresholds, with
    block-clock restarts, stalls (pause) and jumps; interleaved complete / force requests."""
    ops: list[list] = []
    scope = Fraction(0)
    block = Fraction(0)
    tags = [0, 0, 0]
    for _ in range(n_ticks):
        dt = 1 if denom == 10 else rng.choice([1, 1, 1, 2])
        x = rng.random()
        inc = Fraction(dt, denom)
        if x < 0.08:
            inc = Fraction(0)                 # clocks paused
        elif x < 0.12:
            inc = Fraction(rng.choice([1, 2, 30]))   # a long tick (or an accumulator jumping)
        scope += inc
        block = Fraction(0) if rng.random() < 0.06 else block + inc
        if rng.random() < 0.3:
            tags[rng.randrange(3)] = rng.randrange(0, 4)
        ops.append(["tick", dt, str(scope), str(block), list(tags)])
        if with_requests:
            y = rng.random()
            if y < 0.25:
                ops.append(["complete", rng.random()])
            elif y < 0.29:
                ops.append(["force", rng.random()])
    return ops


# ----------------------------------------------------------------------------------------
# interpreter-level harness with 0.1 s ticks (tick times are floats k/10 on the real side, k/10 exactly
# in the model; Wait durations are chosen so that no comparison is within 0.02 s of equality)

class HarnessTenths(Harness):
    def _elapsed(self, dt_tenths: int) -> float:
        self._t += dt_tenths
        return self._t / 10.0

    def op_line_tick(self, dt_tenths: int, scope: Fraction, block: Fraction, tagvals: list[int]) -> str:
        return "\t".join(["tick", frac(Fraction(self._t + dt_tenths, 10)), frac(scope), frac(block),
                          ",".join(str(v) for v in tagvals)])


def run_case_tenths(case: dict) -> tuple[list[str], list[str]]:
    """As harness.interp_run.run_case, with HarnessTenths."""
    import openpectus.lang.model.ast as p
    h = HarnessTenths(case["pcode"])
    lines = h.node_lines()
    outs = ["ok"] * len(lines)
    scheduled: list[int] = []
    for op in case["ops"]:
        kind = op[0]
        if kind == "tick":
            _, dt, scope, block, tags = op
            lines.append(h.op_line_tick(dt, Fraction(scope), Fraction(block), tags))
            o = h.tick(dt, Fraction(scope), Fraction(block), tags)
            outs.append(o)
            for ev in o.split("|ev=")[1].split("|fl=")[0].split(" "):
                if ev.startswith("cmd:"):
                    scheduled.append(int(ev.split(":")[1]))
        elif kind == "complete":
            pending = [k for k in scheduled if k >= 0 and not h.nodes[k].completed]
            if not pending:
                continue
            k = pending[int(op[1] * len(pending))]
            lines.append(f"complete\t{k}")
            outs.append(h.complete(k))
        elif kind == "force":
            k = int(op[1] * len(h.nodes))
            n = h.nodes[k]
            if isinstance(n, (p.EngineCommandNode, p.UodCommandNode, p.NotifyNode, p.BatchNode)):
                continue
            if isinstance(n, p.InterpreterCommandNode) and n.instruction_name != "Wait":
                continue
            lines.append(f"force\t{k}")
            outs.append(h.force(k))
        else:
            raise ValueError(kind)
    return lines, outs


def perturb_clocks(lines: list[str], shift: Fraction) -> list[str]:
    """Mutant input for the self-test: every tick shows the clocks `shift` ahead (a model comparing against
    a later clock would start threshold instructions early)."""
    out = []
    for ln in lines:
        f = ln.split("\t")
        if f[0] == "tick":
            f[2] = frac(Fraction(f[2]) + shift)
            f[3] = frac(Fraction(f[3]) + shift)
            ln = "\t".join(f)
        out.append(ln)
    return out


def perturb_time(lines: list[str], factor: int) -> list[str]:
    """Mutant input for the self-test: tick times run `factor` times faster (Waits end early)."""
    out = []
    for ln in lines:
        f = ln.split("\t")
        if f[0] == "tick":
            f[1] = frac(Fraction(f[1]) * factor)
            ln = "\t".join(f)
        out.append(ln)
    return out


# ----------------------------------------------------------------------------------------
# engine-level oracle

def dec(x) -> Fraction:
    """The number the code compares: Decimal(str(x))."""
    return Fraction(Decimal(str(x)))


SCOPE_CLS = ("ProgramNode", "BlockNode", "WatchNode", "AlarmNode", "InjectedNode")
WS_CLS = ("BlankNode", "CommentNode", "WhitespaceNode")
DURATION = re.compile(r"^\s*([0-9]*\.?[0-9]+)\s*(s|min|h)\s*$")


def gen_rerun_method(rng: random.Random) -> tuple[str, dict[str, int]]:
    """A Wait inside a Macro called 2-3 times, or inside the body of an Alarm that fires again and again."""
    d = rng.choice(["0.25", "0.375", "0.5", "0.75", "1", "1.25"])
    thr = (rng.choice(["0.25", "0.5"]) + " ") if rng.random() < 0.25 else ""
    pre = ["Mark: a"] if rng.random() < 0.6 else []
    post = rng.choice([["Mark: b"], ["Mark: b", "Mark: c"], ["CmdA", "Mark: b"]])
    body = pre + [f"{thr}Wait: {d}s"] + post
    if rng.random() < 0.2:
        body += [f"Wait: {rng.choice(['0.25', '0.5'])}s", "Mark: z"]
    lines = ["Base: s"]
    if rng.random() < 0.5:
        calls = rng.choice([2, 3])
        lines += ["Macro: M1"] + ["    " + x for x in body]
        for c in range(calls):
            lines.append("Call macro: M1")
            if rng.random() < 0.4:
                lines.append(rng.choice(["Mark: m", "Wait: 0.25s", "CmdA"]))
        kind = "rerun_macro"
    else:
        lines += [f"Alarm: T0 > 0"] + ["    " + x for x in body]
        if rng.random() < 0.5:
            lines += ["Mark: m", "Wait: 1s", "Mark: n"]
        kind = "rerun_alarm"
    return "\n".join(lines), {kind: 1, "wait": sum(1 for x in lines if "Wait:" in x)}


def gen_oracle_case(rng: random.Random, default_interval: bool) -> dict:
    features = {"mark", "block", "watch", "wait", "cmd", "thr", "base", "blank"}
    if rng.random() < 0.3:
        features.add("alarm")
    if rng.random() < 0.3:
        features.add("macro")
    rerun = default_interval and rng.random() < 0.3
    if rerun:
        pcode, stats = gen_rerun_method(rng)
    else:
        pcode, stats = gen_method(rng, features, max_lines=rng.choice([6, 9, 12]), max_depth=2, p_thr=0.45)
    n_ticks = rng.choice([60, 90, 120]) if not rerun else rng.choice([90, 120])
    plan: list[list] = []
    paused_until = -1
    mode = None
    for t in range(n_ticks):
        acts: list = []
        if rerun and t == 0:
            acts.append(["tag", "T0", 1])
        elif rng.random() < 0.25 and not (rerun and rng.random() < 0.8):
            acts.append(["tag", f"T{rng.randrange(3)}", rng.randrange(4)])
        if mode is None and rng.random() < 0.03 and t > 3:
            mode = rng.choice(["Pause", "Hold"])
            paused_until = t + rng.randrange(2, 12)
            acts.append(["user", mode])
        elif mode is not None and t >= paused_until:
            acts.append(["user", "Unpause" if mode == "Pause" else "Unhold"])
            mode = None
        plan.append(acts)
    return {"pcode": pcode, "dt": "0.1" if default_interval else "0.125", "ticks": n_ticks, "plan": plan,
            "stats": stats}


def _node_maps(snap):
    nodes = {n["id"]: n for n in snap["nodes"]}
    kids: dict = {}
    for n in snap["nodes"]:
        kids.setdefault(n["parent"], []).append(n["id"])
    return nodes, kids


def _ancestors(nodes, n):
    out = []
    while n["parent"] is not None:
        n = nodes[n["parent"]]
        out.append(n)
    return out


def _scope_sig(snap):
    return [(n["id"], n["started"], n["completed"], n["lock"], n["ended"], n["activated"], n["run_count"],
             n["interrupt_registered"]) for n in snap["nodes"] if n["cls"] in SCOPE_CLS]


def _base_sig(snap):
    return [(n["id"], n["started"], n["completed"]) for n in snap["nodes"] if n["name"] == "Base"]


def _clock(snap) -> Fraction:
    blk = snap["tags"].get("Block")
    return dec(snap["tags"]["Block Time"] if blk not in (None, "") else snap["tags"]["Scope Time"])


def _factor(snap) -> int:
    return FACTOR.get(str(snap["tags"].get("Base")), 60)


def _pred_done(snap, n_id) -> bool:
    """Evidence in `snap` that the visitor stands at (or will in the next tick reach) the threshold point
    of node n: its predecessor is completed (or, for a first child, the parent's body runs) and every
    enclosing scope is live."""
    nodes, kids = _node_maps(snap)
    n = nodes[n_id]
    if n["parent"] is None:
        return False
    anc = _ancestors(nodes, n)
    for a in anc:
        if a["cls"] in ("AlarmNode", "MacroNode", "InjectedNode"):
            return False                      # re-invocations reset flags: not judged
        if a["completed"] or a["cancelled"] or a["failed"] or not a["started"]:
            return False
        if a["cls"] == "BlockNode" and (not a["lock"] or a["ended"]):
            return False
        if a["cls"] == "WatchNode" and not a["activated"]:
            return False
    sibs = kids[n["parent"]]
    i = sibs.index(n_id)
    if i == 0:
        return True
    pred = nodes[sibs[i - 1]]
    return bool(pred["completed"]) and not pred["failed"]


def _scope_event_counter(engine):
    """A read-only listener on the engine's own event emitter: counts scope / block events, so that the
    oracle knows in which ticks the scope or block stack (what the clock tags display) changed."""
    from openpectus.lang.exec.events import EventListener

    class Counter(EventListener):
        def __init__(self):
            super().__init__()
            self.n = 0

        def on_block_start(self, block_info):
            self.n += 1

        def on_block_end(self, block_info, new_block_info):
            self.n += 1

        def on_scope_start(self, scope_info):
            self.n += 1

        def on_scope_activate(self, scope_info):
            self.n += 1

        def on_scope_end(self, scope_info):
            self.n += 1

        def on_start(self, run_id):
            self.n += 1

    c = Counter()
    engine._emitter.add_listener(c)
    return c


def oracle_case(case: dict, stats: dict | None = None):
    """C03 over the real engine. Returns a vp.core.Failure or None.  `stats` counts what was judged."""
    from harness.engine_run import EngineRun
    from vp.core import Failure
    dt = float(case["dt"])
    default_interval = case["dt"] == "0.1"
    run = EngineRun(case["pcode"], dt=dt)
    brief = {"pcode": case["pcode"], "dt": case["dt"], "ticks": case["ticks"], "plan": case["plan"]}
    try:
        e = run.engine
        events = _scope_event_counter(e)
        st_tag = e.tags["Scope Time"]
        bt_tag = e.tags["Block Time"]
        snaps = [run.snapshot()]
        ran = [False]
        timers: list[list[Fraction]] = [[]]
        units_in_program = {m.group(1) for m in re.finditer(r"Base:\s*(s|min|h)\b", case["pcode"])}
        wait_track: dict[str, dict] = {}
        wait_execs: dict[str, int] = {}
        errored = False

        def fail(key, k, detail):
            return Failure(key, dict(brief, tick=k), detail)

        def cnt(key):
            if stats is not None:
                stats[key] = stats.get(key, 0) + 1

        for k in range(1, case["ticks"] + 1):
            for act in case["plan"][k - 1] if k - 1 < len(case["plan"]) else []:
                if act[0] == "tag":
                    run.set_tag(act[1], act[2])
                elif act[0] == "user":
                    run.user(act[1])
            ran_k = bool(e._runstate_started and not e._runstate_paused and not e._runstate_holding
                         and not e._runstate_stopping)
            pre_timers = [dec(v) for v in getattr(st_tag, "_timers", {}).values()] + \
                         [dec(i.value) for i in getattr(bt_tag, "_stack", [])]
            ev0 = events.n
            cur = run.tick()
            prev = snaps[-1]
            snaps.append(cur)
            ran.append(ran_k)
            timers.append(pre_timers)
            if cur["raised"] or cur["tags"].get("Method Status") == "Error" or any(n["failed"] for n in cur["nodes"]):
                errored = True
            if errored:
                break
            pn, _ = _node_maps(prev)
            stable = (events.n == ev0 and _scope_sig(prev) == _scope_sig(cur)
                      and prev["tags"].get("Block") == cur["tags"].get("Block")
                      and prev["tags"].get("Base") == cur["tags"].get("Base") and _base_sig(prev) == _base_sig(cur))
            cur["_stable"] = stable
            for n in cur["nodes"]:
                p = pn.get(n["id"])
                if p is None:
                    continue
                flipped = n["started"] and not p["started"]
                # ---------------- thresholds
                if n["threshold"] is not None and n["cls"] not in WS_CLS and not n["forced"] and not p["forced"]:
                    T = dec(n["threshold"])
                    if flipped:
                        # (1) never before the clock has reached T
                        cnt("thr_start_judged_stable" if stable else "thr_start_judged_unstable")
                        if prev["tags"].get("Block") not in (None, ""):
                            cnt("thr_start_in_block")
                        cnt("thr_start_base_" + str(prev["tags"].get("Base")))
                        if stable:
                            ok = _clock(prev) >= T * _factor(prev)
                            seen = f"clock {float(_clock(prev))} base {prev['tags'].get('Base')}"
                        else:
                            fs = {_factor(prev), _factor(cur)}
                            if _base_sig(prev) != _base_sig(cur):
                                fs |= {FACTOR[u] for u in units_in_program}
                            cands = pre_timers + [_clock(prev)]
                            ok = any(c >= T * f for c in cands for f in fs)
                            seen = f"every scope/block timer {[float(c) for c in cands]} bases {sorted(fs)}"
                        if not ok and p["completed"] and not p["started"] and not n["forced"]:
                            # signature of the recorded finding: the node had been marked completed (by the command
                            # of a previous Alarm invocation) while it was waiting for its threshold
                            return fail("threshold-skipped-node-marked-completed-by-previous-invocation", k,
                                        f"line {n['line']} ({n['name']}: {n['arg']}) threshold {n['threshold']} was waiting, "
                                        f"got `completed` from the command of the previous invocation and started in tick {k}, "
                                        f"but {seen}")
                        if not ok:
                            return fail("threshold-instruction-started-before-clock-reached-threshold", k,
                                        f"line {n['line']} ({n['name']}: {n['arg']}) threshold {n['threshold']} started in "
                                        f"tick {k}, but {seen}")
                        # (2) not later than the first eligible tick (retrospective)
                        kp = next((j for j in range(k - 1, 0, -1) if ran[j]), None)
                        if kp is not None and kp >= 1 and snaps[kp].get("_stable", False):
                            before = snaps[kp - 1]
                            bn, _ = _node_maps(before)
                            b = bn.get(n["id"])
                            if b is not None and _pred_done(before, n["id"]):
                                cnt("thr_promptness_judged")
                            if b is not None and not b["started"] and not b["completed"] and not b["cancelled"] \
                                    and _pred_done(before, n["id"]) and _clock(before) >= T * _factor(before):
                                return fail("threshold-instruction-started-later-than-first-eligible-tick", k,
                                            f"line {n['line']} threshold {n['threshold']}: in tick {kp} the predecessor was "
                                            f"complete and the clock {float(_clock(before))} had reached the threshold, "
                                            f"but it started only in tick {k}")
                    elif ran_k and stable and not n["started"] and not p["started"] and not p["completed"] \
                            and not p["cancelled"] and p["parent"] is not None \
                            and pn[p["parent"]]["cls"] == "ProgramNode":
                        # (2') forward form, main sequence only (the root loop cannot die)
                        if _pred_done(prev, n["id"]) and _clock(prev) >= T * _factor(prev):
                            return fail("threshold-instruction-not-started-at-first-eligible-tick", k,
                                        f"line {n['line']} threshold {n['threshold']}: predecessor complete and clock "
                                        f"{float(_clock(prev))} >= threshold before tick {k}, not started in tick {k}")
                # ---------------- Wait
                # a new execution of a Wait: its `started` flag flips, or (first line of a macro body: reset and
                # restarted in one tick) it was completed before the tick and is started-not-completed after it
                new_exec = flipped or (n["started"] and p["started"] and p["completed"] and not n["completed"])
                if default_interval and n["name"] == "Wait" and new_exec and not n["forced"]:
                    wait_track[n["id"]] = {"i": k, "nth": wait_execs.get(n["id"], 0) + 1}
                    wait_execs[n["id"]] = wait_execs.get(n["id"], 0) + 1
            if any(not r for r in ran[3:]) and ran_k:
                cnt("ticks_after_a_pause_or_hold")
            if default_interval:
                f = _check_waits(cur, k, ran, wait_track, fail, cnt)
                if f is not None:
                    return f
        return None
    finally:
        run.close()


def _check_waits(cur, k, ran, wait_track, fail, cnt):
    nodes, kids = _node_maps(cur)
    tenth = Fraction(1, 10)
    for wid, tr in list(wait_track.items()):
        w = nodes.get(wid)
        if w is None or w["forced"] or not w["started"]:
            wait_track.pop(wid, None)
            continue
        anc = _ancestors(nodes, w)                       # nearest first
        if any(a["cls"] == "InjectedNode" for a in anc):
            wait_track.pop(wid, None)
            continue
        # a Watch/Alarm nested inside an Alarm or Macro body keeps an orphaned generator over reset flags: not judged
        if any(a["cls"] in ("WatchNode", "AlarmNode") and
               any(b["cls"] in ("AlarmNode", "MacroNode") for b in anc[x + 1:]) for x, a in enumerate(anc)):
            wait_track.pop(wid, None)
            continue
        rerun = next((a for a in anc if a["cls"] in ("AlarmNode", "MacroNode")), None)
        rerun_scope = rerun["cls"] if rerun is not None else None
        if rerun is not None:
            # ... and so does a Watch/Alarm anywhere else in the re-run body (its generator survives the reset)
            def has_interrupt(nid):
                return any(nodes[c]["cls"] in ("WatchNode", "AlarmNode") or has_interrupt(c) for c in kids.get(nid, []))
            if has_interrupt(rerun["id"]):
                wait_track.pop(wid, None)
                continue
        m = DURATION.match(w["arg"] or "")
        if m is None:
            wait_track.pop(wid, None)
            continue
        d = Fraction(Decimal(m.group(1))) * FACTOR[m.group(2)]
        sibs = kids[w["parent"]]
        idx = sibs.index(wid)
        if idx + 1 >= len(sibs):
            wait_track.pop(wid, None)
            continue
        succ = nodes[sibs[idx + 1]]
        i = tr["i"]
        if k == i and succ["started"]:
            wait_track.pop(wid, None)     # the successor was not seen un-started in this execution: not judged
            continue
        b = next((t for t in range(i + 1, k + 1) if ran[t]), None)      # tick of the Wait body
        running_after_b = 0 if b is None else sum(1 for t in range(b + 1, k + 1) if ran[t])
        plain_succ = succ["cls"] not in WS_CLS and succ["threshold"] is None
        limit = math.floor(d / tenth) + 1
        if succ["started"]:
            if "j" not in tr:
                tr["j"] = k
                cnt("wait_lower_bound_judged")
                if plain_succ:
                    cnt("wait_upper_bound_judged")
                if rerun_scope is not None:
                    cnt(f"wait_in_{rerun_scope}_execution_{min(tr.get('nth', 1), 3)}_judged")
                if any(not ran[t] for t in range(i, k + 1)):
                    cnt("wait_spanning_pause_or_hold")
                if k - i < math.ceil(d / tenth):
                    return fail("wait-successor-started-before-duration-elapsed", k,
                                f"Wait: {w['arg']} (line {w['line']}, execution {tr.get('nth', 1)}) got started in tick {i}, "
                                f"line {succ['line']} started in tick {k}: {k - i} ticks of 0.1 s < {float(d)} s")
                if plain_succ and running_after_b > limit:
                    return fail("wait-successor-started-later-than-one-tick-after-duration", k,
                                f"Wait: {w['arg']} (line {w['line']}) began waiting in tick {b}, line {succ['line']} started in "
                                f"tick {k}: {running_after_b} interpreter ticks > {limit} (= floor(d/0.1)+1)")
            wait_track.pop(wid, None)
        else:
            parent = nodes[w["parent"]]
            if plain_succ and parent["cls"] == "ProgramNode" and running_after_b > limit:
                return fail("wait-successor-not-started-one-tick-after-duration", k,
                            f"Wait: {w['arg']} (line {w['line']}) began waiting in tick {b}; after {running_after_b} interpreter "
                            f"ticks (> {limit}) line {succ['line']} has not started")
    return None
