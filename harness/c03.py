"""C03 (thresholds and Wait durations): method generator tuned for thresholds / Base changes (time, volume and
column-volume units) / Waits, an interpreter-level harness with the default 0.1 s tick interval that feeds the
model exactly the doubles the code compares, and the property oracle over the real Engine (UOD with totalizer,
column volume and accumulator tags; independent of the Lean model).
"""
from __future__ import annotations

import math
import random
import re
from decimal import Decimal
from fractions import Fraction

from harness.gen_pcode import Gen, gen_schedule
from harness.interp import Harness, frac
from vp.core import Infra

FACTOR = {"s": 1, "min": 60, "h": 3600}
# base units of the volume / column-volume accumulators: (factor to the accumulator tag's unit, kind)
VOL_FACTOR = {"L": Fraction(1), "mL": Fraction(1, 1000), "CV": Fraction(1)}
ALL_FACTOR = {**{u: Fraction(f) for u, f in FACTOR.items()}, **VOL_FACTOR}
THR = {
    "s": ["0.125", "0.25", "0.5", "0.75", "1", "1.5", "2", "3"],
    "min": ["0.0078125", "0.015625", "0.03125"],            # 0.47 s, 0.94 s, 1.875 s
    "h": ["0.000244140625", "0.00048828125"],               # 0.88 s, 1.76 s
    "L": ["0.25", "0.5", "0.75", "1", "1.5", "2"],
    "mL": ["250", "500", "750", "1000", "1500"],
    "CV": ["0.125", "0.25", "0.5", "0.75", "1"],
}
# entries without a unit are seconds; minutes / hours (also values below 0.1 in those units) exercise the unit
# conversion of the duration before the one-tick correction
WAITS_ANY = ["0.0625", "0.125", "0.25", "0.375", "0.5", "0.75", "1", "1.25", "1.5", "0.02min", "0.001h"]
# durations at 0.1 s ticks: on the tick grid (the common case; the comparison is decided by float rounding,
# which the harness reproduces exactly, see HarnessTenths) and off it
WAITS_TENTHS = ["0.0625", "0.1", "0.2", "0.3", "0.5", "0.7", "1", "1.2", "1.5", "0.25", "0.375", "0.75", "1.25",
                "0.02min", "0.025min", "0.001h", "0.0005h"]


# ----------------------------------------------------------------------------------------
# generator

class GenC03(Gen):
    """gen_pcode.Gen with many more thresholds (chosen to be reachable in the current base unit),
    Base changes and Waits."""

    def __init__(self, rng: random.Random, p_thr: float = 0.4, waits: list[str] | None = None,
                 p_wait: float = 0.2, bases: list[str] | None = None, **kw):
        super().__init__(rng, **kw)
        self.p_thr = p_thr
        self.p_wait = p_wait
        self.base = "min"
        self.waits = waits or WAITS_ANY
        self.bases = bases or ["s", "s", "s", "min", "h"]

    def instruction(self, depth: int, budget: int, in_block: bool, in_macro: bool) -> int:
        n0 = len(self.lines)
        used = super().instruction(depth, budget, in_block, in_macro)
        # Base changes of the parent generator choose among s/min/h: re-draw from this generator's units
        for k in range(n0, len(self.lines)):
            if self.lines[k].strip().startswith("Base: ") and k == n0:
                unit = self.rng.choice(self.bases)
                self.lines[k] = self.lines[k][:len(self.lines[k]) - len(self.lines[k].lstrip())] + f"Base: {unit}"
                self.base = unit
        return used

    def emit(self, depth: int, text: str, thr: bool = True):
        r = self.rng
        if text.startswith("Base: "):
            self.base = text.split(": ")[1]
        if text.startswith("Wait: "):
            w = r.choice(self.waits)
            text = f"Wait: {w}" + ("" if w[-1].isalpha() else "s")
            self.count("wait_in_" + ("s" if not w[-1].isalpha() else "h" if w.endswith("h") else "min"))
        prefix = ""
        if thr and "thr" in self.features and r.random() < self.p_thr:
            prefix = r.choice(THR[self.base]) + " "
            self.count("threshold")
            self.count("threshold_in_" + self.base)
        self.lines.append("    " * depth + prefix + text)

    def mark(self, depth: int):
        if "wait" in self.features and self.rng.random() < self.p_wait:
            self.emit(depth, "Wait: 1s")
            self.count("wait")
        else:
            super().mark(depth)

    def program(self) -> str:
        r = self.rng
        if r.random() < 0.7 or any(b in VOL_FACTOR for b in self.bases):
            self.emit(0, f"Base: {r.choice(self.bases)}", thr=False)
            self.count("base")
        return super().program()


def gen_method(rng: random.Random, features: set[str], max_lines: int = 12, max_depth: int = 2,
               waits: list[str] | None = None, p_thr: float = 0.4, bases: list[str] | None = None
               ) -> tuple[str, dict[str, int]]:
    g = GenC03(rng, p_thr=p_thr, waits=waits, bases=bases, features=features, max_lines=max_lines,
               max_depth=max_depth)
    return g.program(), g.stats


def gen_clock_schedule(rng: random.Random, n_ticks: int, denom: int = 8, with_requests: bool = True) -> list[list]:
    """Interpreter-level schedule (ticks of `1/denom` s): clocks that cross the generated thresholds, with
    block-clock restarts, stalls (pause) and jumps; interleaved complete / force requests."""
    ops: list[list] = []
    scope = Fraction(0)
    block = Fraction(0)
    tags = [0, 0, 0]
    for _ in range(n_ticks):
        dt = 1 if denom == 10 else rng.choice([1, 1, 1, 2])
        x = rng.random()
        inc = Fraction(dt, denom)
        if x < 0.08:
            inc = Fraction(0)                 # clocks paused
        elif x < 0.12:
            inc = Fraction(rng.choice([1, 2, 30]))   # a long tick (or an accumulator jumping)
        scope += inc
        block = Fraction(0) if rng.random() < 0.06 else block + inc
        if rng.random() < 0.3:
            tags[rng.randrange(3)] = rng.randrange(0, 4)
        ops.append(["tick", dt, str(scope), str(block), list(tags)])
        if with_requests:
            y = rng.random()
            if y < 0.25:
                ops.append(["complete", rng.random()])
            elif y < 0.29:
                ops.append(["force", rng.random()])
    return ops


# ----------------------------------------------------------------------------------------
# interpreter-level harness with the default 0.1 s tick interval, faithful to the floats the code sees:
#  * tick times: the real side gets the float `EPOCH + k/10.0`; the model gets the exact rational of that float;
#  * `Wait: d`: the code computes `end = (start + float(d)) - 0.1` in doubles and compares `tick_time < end`.  For
#    tick times in one binade `end - start` is the same double for every start (verified below, else the tie is
#    declared broken), so the model's `Wait` parameter is that net duration + 1/10: the model's exact comparison
#    `tickTime < waitStart + d - 1/10` is then the code's float comparison, also for durations on the tick grid;
#  * volume / CV base units: accumulator tags registered for L, mL, CV show the same numbers as the two clocks
#    (the model has one clock pair; which pair the interpreter reads is decided by the Base unit).

class BrokenTie(Infra):
    """The harness can no longer observe / reproduce what it needs (renamed private attribute, float behaviour):
    an infrastructure failure (exit 2), never a VIOLATION."""


def float_net_duration(arg: str) -> Fraction | None:
    """`duration_end_time - wait_start_time` as the code computes it (doubles), as an exact rational; checked to be
    independent of the start time over the tick times this harness uses."""
    from openpectus.lang.exec.regex import REGEX_DURATION, get_duration_end
    from harness.interp import EPOCH
    m = re.match(REGEX_DURATION, arg)
    if m is None:
        return None
    time = float(m.group("number"))
    unit = m.group("number_unit")
    nets = set()
    for k in (0, 1, 2, 3, 7, 10, 33, 64, 99, 100, 101, 250, 499, 777, 1000, 2000):
        w = EPOCH + k / 10.0
        end = get_duration_end(w, time, unit)
        end -= 0.1
        nets.add(Fraction(end) - Fraction(w))
    if len(nets) != 1:
        raise BrokenTie(f"float net duration of Wait: {arg} depends on the start time: {sorted(nets)}")
    return nets.pop()


class HarnessTenths(Harness):
    VOL_TAGS = {"L": ("C03 AccVol", "C03 BlkVol", "L"), "mL": ("C03 AccVol", "C03 BlkVol", "L"),
                "CV": ("C03 AccCV", "C03 BlkCV", "CV")}

    def __init__(self, pcode: str):
        super().__init__(pcode)
        from openpectus.lang.exec.tags import Tag
        bup = self.ctx.base_unit_provider
        for unit, (a, b, tag_unit) in self.VOL_TAGS.items():
            for name in (a, b):
                if not self.tags.has(name):
                    self.tags.add(Tag(name, value=0.0, unit=tag_unit))
            bup.set(unit, a, b)

    def _elapsed(self, dt_tenths: int) -> float:
        self._t += dt_tenths
        return self._t / 10.0

    def tick(self, dt_tenths: int, scope: Fraction, block: Fraction, tagvals: list[int]) -> str:
        from harness.interp import EPOCH
        t = EPOCH + (self._t + dt_tenths) / 10.0
        for a, b, _ in self.VOL_TAGS.values():
            self.tags[a].set_value(float(scope), t)
            self.tags[b].set_value(float(block), t)
        return super().tick(dt_tenths, scope, block, tagvals)

    def op_line_tick(self, dt_tenths: int, scope: Fraction, block: Fraction, tagvals: list[int]) -> str:
        from harness.interp import EPOCH
        t = EPOCH + (self._t + dt_tenths) / 10.0       # the float the real side is ticked with
        return "\t".join(["tick", frac(Fraction(t) - Fraction(EPOCH)), frac(scope), frac(block),
                          ",".join(str(v) for v in tagvals)])

    def _kind(self, n, p) -> str:
        from harness.interp import enc
        if isinstance(n, p.InterpreterCommandNode) and n.instruction_name == "Wait":
            net = float_net_duration(n.arguments)
            if net is None:
                return "failing wait"
            d = net + Fraction(1, 10)
            return f"wait {d.numerator}/{d.denominator}"
        if isinstance(n, p.InterpreterCommandNode) and n.instruction_name == "Base" and n.arguments in VOL_FACTOR:
            f = VOL_FACTOR[n.arguments]
            return f"base {f.numerator}/{f.denominator} {enc(n.arguments)}"
        return super()._kind(n, p)


def run_case_tenths(case: dict) -> tuple[list[str], list[str]]:
    """As harness.interp_run.run_case, with HarnessTenths."""
    import openpectus.lang.model.ast as p
    h = HarnessTenths(case["pcode"])
    lines = h.node_lines()
    outs = ["ok"] * len(lines)
    scheduled: list[int] = []
    for op in case["ops"]:
        kind = op[0]
        if kind == "tick":
            _, dt, scope, block, tags = op
            lines.append(h.op_line_tick(dt, Fraction(scope), Fraction(block), tags))
            o = h.tick(dt, Fraction(scope), Fraction(block), tags)
            outs.append(o)
            for ev in o.split("|ev=")[1].split("|fl=")[0].split(" "):
                if ev.startswith("cmd:"):
                    scheduled.append(int(ev.split(":")[1]))
        elif kind == "complete":
            pending = [k for k in scheduled if k >= 0 and not h.nodes[k].completed]
            if not pending:
                continue
            k = pending[int(op[1] * len(pending))]
            lines.append(f"complete\t{k}")
            outs.append(h.complete(k))
        elif kind == "force":
            k = int(op[1] * len(h.nodes))
            n = h.nodes[k]
            if isinstance(n, (p.EngineCommandNode, p.UodCommandNode, p.NotifyNode, p.BatchNode)):
                continue
            if isinstance(n, p.InterpreterCommandNode) and n.instruction_name != "Wait":
                continue
            lines.append(f"force\t{k}")
            outs.append(h.force(k))
        else:
            raise ValueError(kind)
    return lines, outs


def perturb_clocks(lines: list[str], shift: Fraction) -> list[str]:
    """Mutant input for the self-test: every tick shows the clocks `shift` ahead (a model comparing against
    a later clock would start threshold instructions early)."""
    out = []
    for ln in lines:
        f = ln.split("\t")
        if f[0] == "tick":
            f[2] = frac(Fraction(f[2]) + shift)
            f[3] = frac(Fraction(f[3]) + shift)
            ln = "\t".join(f)
        out.append(ln)
    return out


def perturb_time(lines: list[str], factor: int) -> list[str]:
    """Mutant input for the self-test: tick times run `factor` times faster (Waits end early)."""
    out = []
    for ln in lines:
        f = ln.split("\t")
        if f[0] == "tick":
            f[1] = frac(Fraction(f[1]) * factor)
            ln = "\t".join(f)
        out.append(ln)
    return out


# ----------------------------------------------------------------------------------------
# engine-level oracle

def dec(x) -> Fraction:
    """The number the code compares: Decimal(str(x))."""
    return Fraction(Decimal(str(x)))


SCOPE_CLS = ("ProgramNode", "BlockNode", "WatchNode", "AlarmNode", "InjectedNode")
WS_CLS = ("BlankNode", "CommentNode", "WhitespaceNode")
DURATION = re.compile(r"^\s*([0-9]*\.?[0-9]+)\s*(s|min|h)\s*$")


def gen_rerun_method(rng: random.Random) -> tuple[str, dict[str, int]]:
    """A Wait inside a Macro called 2-3 times, or inside the body of an Alarm that fires again and again."""
    d = rng.choice(["0.25s", "0.375s", "0.5s", "0.75s", "1s", "1.25s", "0.02min", "0.0005h"])
    thr = (rng.choice(["0.25", "0.5"]) + " ") if rng.random() < 0.25 else ""
    pre = ["Mark: a"] if rng.random() < 0.6 else []
    post = rng.choice([["Mark: b"], ["Mark: b", "Mark: c"], ["CmdA", "Mark: b"]])
    body = pre + [f"{thr}Wait: {d}"] + post
    if rng.random() < 0.2:
        body += [f"Wait: {rng.choice(['0.25', '0.5'])}s", "Mark: z"]
    lines = ["Base: s"]
    if rng.random() < 0.5:
        calls = rng.choice([2, 3])
        lines += ["Macro: M1"] + ["    " + x for x in body]
        for c in range(calls):
            lines.append("Call macro: M1")
            if rng.random() < 0.4:
                lines.append(rng.choice(["Mark: m", "Wait: 0.25s", "CmdA"]))
        kind = "rerun_macro"
    else:
        lines += [f"Alarm: T0 > 0"] + ["    " + x for x in body]
        if rng.random() < 0.5:
            lines += ["Mark: m", "Wait: 1s", "Mark: n"]
        kind = "rerun_alarm"
    return "\n".join(lines), {kind: 1, "wait": sum(1 for x in lines if "Wait:" in x)}


def gen_volume_method(rng: random.Random) -> tuple[str, dict[str, int]]:
    """Thresholds in the volume / column-volume base units (L, mL, CV), in and out of blocks, with Base changes
    between volume, CV and time units."""
    g = GenC03(rng, p_thr=0.6, p_wait=0.05, bases=["L", "mL", "CV", "L", "CV", "s"],
               features={"mark", "block", "watch", "cmd", "thr", "base", "blank", "wait"},
               max_lines=rng.choice([7, 10, 12]), max_depth=2)
    pcode = g.program()
    g.stats["volume_method"] = 1
    return pcode, g.stats


def gen_oracle_case(rng: random.Random, default_interval: bool) -> dict:
    features = {"mark", "block", "watch", "wait", "cmd", "thr", "base", "blank"}
    if rng.random() < 0.3:
        features.add("alarm")
    if rng.random() < 0.3:
        features.add("macro")
    x = rng.random()
    rerun = default_interval and x < 0.3
    volume = (not rerun) and x < 0.55
    if rerun:
        pcode, stats = gen_rerun_method(rng)
    elif volume:
        pcode, stats = gen_volume_method(rng)
    else:
        pcode, stats = gen_method(rng, features, max_lines=rng.choice([6, 9, 12]), max_depth=2, p_thr=0.45,
                                  waits=WAITS_ANY + ["0.025min", "0.05min", "0.0005h", "0.002h"])
    n_ticks = rng.choice([60, 90, 120]) if not rerun else rng.choice([90, 120])
    plan: list[list] = []
    paused_until = -1
    mode = None
    # run control between / across runs: Stop + Start, Restart (a second run of the same method: every scope and
    # block clock starts again at 0), and overlapping Hold / Pause periods
    control: dict[int, list[str]] = {}
    y = rng.random()
    if y < 0.12:
        t0 = rng.randrange(15, 45)
        control[t0] = ["Stop"]
        control[t0 + rng.randrange(3, 8)] = ["Start"]
        stats = dict(stats, stop_start=1)
    elif y < 0.2:
        control[rng.randrange(15, 45)] = ["Restart"]
        stats = dict(stats, restart=1)
    elif y < 0.3:
        t0 = rng.randrange(8, 40)
        a, b = rng.choice([("Hold", "Pause"), ("Pause", "Hold")])
        t1 = t0 + rng.randrange(1, 4)
        t2 = t1 + rng.randrange(2, 6)
        t3 = t2 + rng.randrange(2, 6)
        first, second = rng.choice([(b, a), (a, b)])          # which one is released first
        control[t0], control[t1] = [a], [b]
        control[t2] = ["Un" + first.lower()]
        control[t3] = ["Un" + second.lower()]
        stats = dict(stats, overlapping_hold_pause=1)
    total = Fraction(0)
    flow = Fraction(rng.choice([1, 1, 2]), 8)         # litres per tick
    for t in range(n_ticks):
        acts: list = []
        if rerun and t == 0:
            acts.append(["tag", "T0", 1])
        elif rng.random() < 0.25 and not (rerun and rng.random() < 0.8):
            acts.append(["tag", f"T{rng.randrange(3)}", rng.randrange(4)])
        if rng.random() < 0.05:
            flow = Fraction(rng.choice([0, 1, 1, 2, 4]), 8)
        total += flow
        acts.append(["tag", "Totalizer", float(total)])
        if t in control:
            acts += [["user", c] for c in control[t]]
        elif mode is None and rng.random() < 0.03 and t > 3 and not any(abs(t - x) < 14 for x in control):
            mode = rng.choice(["Pause", "Hold"])
            paused_until = t + rng.randrange(2, 12)
            acts.append(["user", mode])
        elif mode is not None and t >= paused_until:
            acts.append(["user", "Unpause" if mode == "Pause" else "Unhold"])
            mode = None
        plan.append(acts)
    return {"pcode": pcode, "dt": "0.1" if default_interval else "0.125", "ticks": n_ticks, "plan": plan,
            "stats": stats}


def _node_maps(snap):
    nodes = {n["id"]: n for n in snap["nodes"]}
    kids: dict = {}
    for n in snap["nodes"]:
        kids.setdefault(n["parent"], []).append(n["id"])
    return nodes, kids


def _ancestors(nodes, n):
    out = []
    while n["parent"] is not None:
        n = nodes[n["parent"]]
        out.append(n)
    return out


TIME_UNITS = ("s", "min", "h")


def _clock_tags(unit: str):
    """The property's definition of the clock pair of a base unit: (outside a block, inside a block)."""
    if unit in TIME_UNITS:
        return "Scope Time", "Block Time"
    if unit in ("L", "mL"):
        return "Accumulated Volume", "Block Volume"
    if unit == "CV":
        return "Accumulated CV", "Block CV"
    return None


def _scope_sig(snap):
    return [(n["id"], n["started"], n["completed"], n["lock"], n["ended"], n["activated"], n["run_count"],
             n["interrupt_registered"]) for n in snap["nodes"] if n["cls"] in SCOPE_CLS]


def _base_sig(snap):
    return [(n["id"], n["started"], n["completed"]) for n in snap["nodes"] if n["name"] == "Base"]


def _in_block(snap) -> bool:
    return snap["tags"].get("Block") not in (None, "")


def _shown_clock(snap) -> Fraction | None:
    """The clock the engine itself shows for the current Base unit and Block tag."""
    tags = _clock_tags(str(snap["tags"].get("Base")))
    if tags is None or tags[0] not in snap["tags"] or tags[1] not in snap["tags"]:
        return None
    return dec(snap["tags"][tags[1] if _in_block(snap) else tags[0]])


def _clock(snap) -> Fraction | None:
    """The clock of the current scope: for s / min / h the oracle's own ledger of elapsed running time (block clock
    if the Block tag is set, else scope clock); for volume / CV units the accumulator tags."""
    if str(snap["tags"].get("Base")) in TIME_UNITS and "_ledger" in snap:
        return dec(snap["_ledger"]["block" if _in_block(snap) else "scope"])
    return _shown_clock(snap)


def _clock_disagreement(snap) -> str | None:
    if str(snap["tags"].get("Base")) not in TIME_UNITS or "_ledger" not in snap:
        return None
    shown, own = _shown_clock(snap), _clock(snap)
    if shown is None or own is None or abs(shown - own) <= Fraction(1, 1000000):
        return None
    which = "Block Time" if _in_block(snap) else "Scope Time"
    return f"{which} shows {float(shown)} s, but the run has been Running for {float(own)} s since that " \
           f"{'block' if _in_block(snap) else 'scope'} started in this run"


def _factor(snap) -> Fraction | None:
    return ALL_FACTOR.get(str(snap["tags"].get("Base")))


def _stuck_at_zero(snap) -> bool:
    """Scope Time shows 0 although the current scope has been running: the signature of a Scope Time stack whose top
    entry has lost its timer (`get_value` falls back to 0.0 and stays there)."""
    if str(snap["tags"].get("Base")) not in TIME_UNITS or "_ledger" not in snap or _in_block(snap):
        return False
    return dec(snap["tags"]["Scope Time"]) == 0 and dec(snap["_ledger"]["scope"]) > Fraction(1, 1000000)


def _has_alarm_nest(snap) -> bool:
    nodes, _ = _node_maps(snap)
    return any(_in_alarm_nest(nodes, n) for n in snap["nodes"] if n["cls"] in ("WatchNode", "AlarmNode"))


def _reached(snap, T: Fraction) -> bool:
    c, f = _clock(snap), _factor(snap)
    return c is not None and f is not None and c >= T * f


def _pred_done(snap, n_id) -> bool:
    """Evidence in `snap` that the visitor stands at (or will in the next tick reach) the threshold point
    of node n: its predecessor is completed (or, for a first child, the parent's body runs) and every
    enclosing scope is live."""
    nodes, kids = _node_maps(snap)
    n = nodes[n_id]
    if n["parent"] is None:
        return False
    anc = _ancestors(nodes, n)
    for a in anc:
        if a["cls"] in ("AlarmNode", "MacroNode", "InjectedNode"):
            return False                      # re-invocations reset flags: not judged
        if a["completed"] or a["cancelled"] or a["failed"] or not a["started"]:
            return False
        if a["cls"] == "BlockNode" and (not a["lock"] or a["ended"]):
            return False
        if a["cls"] == "WatchNode" and not a["activated"]:
            return False
    sibs = kids[n["parent"]]
    i = sibs.index(n_id)
    if i == 0:
        return True
    pred = nodes[sibs[i - 1]]
    return bool(pred["completed"]) and not pred["failed"]


# ---- the engine with a totalizer, a column volume and the accumulator tags

def _uod_extra(b):
    from openpectus.lang.exec.tags import Tag
    b = b.with_tag(Tag(name="Totalizer", value=0.0, unit="L")).with_tag(Tag(name="ColVol", value=2.0, unit="L"))
    return b.with_accumulated_volume("Totalizer").with_accumulated_cv("ColVol", "Totalizer")


def engine_run_c03(pcode: str, dt: float):
    """harness.engine_run.EngineRun on the shared test UOD extended by `Totalizer` [L], `ColVol` = 2 L and the
    accumulated / block volume and CV tags (base units L, mL, CV)."""
    from harness.engine_run import EngineRun
    return EngineRun(pcode, dt=dt, uod_extra=_uod_extra)


def _need(obj, attr: str):
    if not hasattr(obj, attr):
        raise BrokenTie(f"C03 oracle: {type(obj).__name__}.{attr} no longer exists — the oracle cannot see which "
                        f"timer a clock tag displays (rename?); repair harness/c03.py")
    return getattr(obj, attr)


class _Probe:
    """The oracle's OWN ledger of the scope and block clocks, plus a record of which of them was current at tick
    boundaries and at every scope / block event inside a tick.

    A listener on the engine's emitter (called after the tags) keeps, per scope activation and per started block,
    the sum of the tick increments of the ticks in which the run was Running since that activation in THIS run:
    the System State tag shows Running AND no Pause / Hold that the oracle itself issued (and the engine accepted)
    is in force.  The ledger is emptied when a run starts (Start, Restart).  Thresholds in s / min / h are judged
    against the ledger, not against the engine's own timers; a difference between the two at judgement time is
    reported under its own key."""

    def __init__(self, engine):
        from openpectus.lang.exec.events import EventListener
        self.e = engine
        for o, a in ((engine, "_emitter"), (engine, "_runstate_started"), (engine, "_runstate_paused"),
                     (engine, "_runstate_holding"), (engine, "_runstate_stopping")):
            _need(o, a)
        self.moments: list[dict] = []
        self.n_events = 0
        self.scope_stack: list[str] = []            # node ids, activation order (as Scope Time keeps them)
        self.scope_vals: dict[str, float] = {}
        self.block_stack: list[list] = []           # [uid, name, value]
        self.uid = 0
        self.own_paused = False
        self.own_holding = False
        self.pending: list[str] = []
        self.runs = 0
        probe = self

        class L(EventListener):
            def _ev(self):
                probe.n_events += 1
                probe.moments.append(probe.light())

            def on_start(self, run_id):
                probe.scope_stack, probe.scope_vals, probe.block_stack = [], {}, []
                probe.own_paused = probe.own_holding = False
                probe.runs += 1
                self._ev()

            def on_scope_start(self, scope_info):
                self._ev()

            def on_scope_activate(self, scope_info):
                probe.scope_vals[scope_info.node_id] = 0.0
                probe.scope_stack.append(scope_info.node_id)
                self._ev()

            def on_scope_end(self, scope_info):
                probe.scope_vals.pop(scope_info.node_id, None)
                if scope_info.node_id in probe.scope_stack:
                    probe.scope_stack.remove(scope_info.node_id)
                self._ev()

            def on_block_start(self, block_info):
                probe.uid += 1
                probe.block_stack.append([probe.uid, block_info.name, 0.0])
                self._ev()

            def on_block_end(self, block_info, new_block_info):
                if probe.block_stack:
                    probe.block_stack.pop()
                self._ev()

            def on_tick(self, tick_time, increment_time):
                if probe.run_is_running():
                    for k in probe.scope_vals:
                        probe.scope_vals[k] += increment_time
                    for it in probe.block_stack:
                        it[2] += increment_time

        _need(engine, "_emitter").add_listener(L())

    # -- the oracle's own notion of "the run is Running"
    def run_is_running(self) -> bool:
        return str(self.e.tags["System State"].get_value()) == "Running" and not self.own_paused \
            and not self.own_holding

    def user(self, run, name: str) -> str:
        r = run.user(name)
        if r == "ok":
            self.pending.append(name)
        return r

    def after_tick(self):
        """Commands issued before a tick are executed in that tick's command phase, after the clocks were updated."""
        for name in self.pending:
            if name == "Pause":
                self.own_paused = True
            elif name == "Unpause":
                self.own_paused = False
            elif name == "Hold":
                self.own_holding = True
            elif name == "Unhold":
                self.own_holding = False
            elif name in ("Stop", "Restart", "Start"):
                self.own_paused = self.own_holding = False
        self.pending = []

    def running(self) -> bool:
        e = self.e
        return bool(e._runstate_started and not e._runstate_paused and not e._runstate_holding
                    and not e._runstate_stopping)

    def light(self) -> dict:
        return {"scope": list(self.scope_stack), "block": [it[0] for it in self.block_stack],
                "block_tag": self.e.tags["Block"].get_value(), "base": str(self.e.tags["Base"].get_value())}

    def full(self) -> dict:
        m = self.light()
        m["scope_timers"] = {k: dec(v) for k, v in self.scope_vals.items()}
        m["block_values"] = {it[0]: dec(it[2]) for it in self.block_stack}
        return m

    def clocks(self) -> dict:
        """What Scope Time / Block Time should display now according to the ledger."""
        sc = self.scope_vals.get(self.scope_stack[-1], 0.0) if self.scope_stack else 0.0
        bl = self.block_stack[-1][2] if self.block_stack else 0.0
        return {"scope": sc, "block": bl}


def _in_alarm_nest(nodes, n) -> bool:
    """`n` is, or lies inside, a Watch / Alarm that is itself nested in an Alarm."""
    chain = [n] + _ancestors(nodes, n)
    return any(a["cls"] in ("WatchNode", "AlarmNode") and any(b["cls"] == "AlarmNode" for b in chain[x + 1:])
               for x, a in enumerate(chain))


def _allowed_clocks(n, nodes, prev, cur, pre: dict, moments: list[dict], lexical: bool = True):
    """The clock values the property allows for a start of `n` in a tick in which the scope / block stacks, the
    Block tag or the Base unit changed: at every moment of the tick (tick start, after each scope / block event,
    tick end) the clock of that moment's Base unit — the block clock if the Block tag is set at that moment, else
    the scope clock — restricted by where the line stands: a line inside a Block is only ever evaluated while a
    block is active, and a line in a Watch / Alarm body only on that scope's timer or a younger one.
    Returns [(clock value, factor of the unit)], a description."""
    anc = _ancestors(nodes, n) if lexical else []
    blk = next((a for a in anc if a["cls"] == "BlockNode"), None)
    scope_anc = next((a for a in anc if a["cls"] in ("WatchNode", "AlarmNode")), None)
    pn = {x["id"]: x for x in prev["nodes"]}
    blk_fresh = blk is not None and blk["lock"] and not pn[blk["id"]]["lock"]     # its block started in this tick
    units = {m["base"] for m in moments}
    for x in cur["nodes"]:
        if x["name"] == "Base" and (x["started"], x["completed"]) != (pn[x["id"]]["started"], pn[x["id"]]["completed"]):
            units.add(str(x["arg"]).strip())
    out, why = [], []
    for m in moments:
        inb = m["block_tag"] not in (None, "")
        if blk is not None and not inb:
            continue
        for u in units:
            f = ALL_FACTOR.get(u)
            tags = _clock_tags(u)
            if f is None or tags is None:
                continue
            if u in TIME_UNITS:
                if inb:
                    if not m["block"]:
                        v = Fraction(0)
                    else:
                        v = pre["block_values"].get(m["block"][-1], Fraction(0))     # a block started in this tick: 0
                else:
                    st = m["scope"]
                    if scope_anc is not None and scope_anc["id"] not in st:
                        continue
                    v = pre["scope_timers"].get(st[-1], Fraction(0)) if st else Fraction(0)
            else:
                if tags[0] not in prev["tags"]:
                    continue
                # accumulator tags are refreshed once per tick: the value of the previous tick is what is read;
                # for the first line of a block that started in this tick the block's own accumulator is 0
                v = Fraction(0) if (inb and blk_fresh) else dec(prev["tags"][tags[1] if inb else tags[0]])
                if inb and not blk_fresh and tags[1] in cur["tags"]:
                    # a block ended in this tick: the enclosing block's accumulator (shown from the next tick on)
                    out.append((dec(cur["tags"][tags[1]]), f))
            out.append((v, f))
            why.append(f"{float(v)} [{u}{', in block' if inb else ''}]")
    return out, sorted(set(why)), blk_fresh


def oracle_case(case: dict, stats: dict | None = None):
    """C03 over the real engine. Returns a vp.core.Failure or None.  `stats` counts what was judged."""
    from vp.core import Failure
    dt = float(case["dt"])
    default_interval = case["dt"] == "0.1"
    run = engine_run_c03(case["pcode"], dt)
    brief = {"pcode": case["pcode"], "dt": case["dt"], "ticks": case["ticks"], "plan": case["plan"]}
    try:
        probe = _Probe(run.engine)
        snaps = [run.snapshot()]
        snaps[0]["_ledger"] = probe.clocks()
        ran = [False]
        wait_track: dict[str, dict] = {}
        wait_execs: dict[str, int] = {}

        def fail(key, k, detail):
            return Failure(key, dict(brief, tick=k), detail)

        def cnt(key):
            if stats is not None:
                stats[key] = stats.get(key, 0) + 1

        def clock_key(snap, key):
            """A failure that is explained by Scope Time being stuck at 0 gets the narrow key of the recorded root
            cause (alarm nest: a scope activated twice; stale scope entries kept over Stop / Restart)."""
            if _stuck_at_zero(snap):
                if _has_alarm_nest(snap):
                    return "scope-time-stuck-at-zero:alarm-nest"
                if probe.runs > 1:
                    return "scope-time-stuck-at-zero:stale-scopes-after-restart"
            return key

        for k in range(1, case["ticks"] + 1):
            for act in case["plan"][k - 1] if k - 1 < len(case["plan"]) else []:
                if act[0] == "tag":
                    run.set_tag(act[1], act[2])
                elif act[0] == "user":
                    probe.user(run, act[1])
            ran_k = probe.running()
            pre = probe.full()
            probe.moments = [probe.light()]
            ev0 = probe.n_events
            cur = run.tick()
            probe.after_tick()
            cur["_ledger"] = probe.clocks()
            probe.moments.append(probe.light())
            moments = probe.moments
            prev = snaps[-1]
            snaps.append(cur)
            ran.append(ran_k)
            if cur["raised"] or cur["tags"].get("Method Status") == "Error" or any(n["failed"] for n in cur["nodes"]):
                break
            pn, _ = _node_maps(prev)
            cn, _ = _node_maps(cur)
            stable = (probe.n_events == ev0 and _scope_sig(prev) == _scope_sig(cur)
                      and prev["tags"].get("Block") == cur["tags"].get("Block")
                      and prev["tags"].get("Base") == cur["tags"].get("Base") and _base_sig(prev) == _base_sig(cur))
            cur["_stable"] = stable
            for n in cur["nodes"]:
                p = pn.get(n["id"])
                if p is None:
                    continue
                flipped = n["started"] and not p["started"]
                # ---------------- thresholds
                if n["threshold"] is not None and n["cls"] not in WS_CLS and not n["forced"] and not p["forced"]:
                    T = dec(n["threshold"])
                    unit = str(prev["tags"].get("Base"))
                    if flipped:
                        # (1) never before the clock has reached T
                        cnt("thr_start_judged_stable" if stable else "thr_start_judged_unstable")
                        if _in_block(prev):
                            cnt("thr_start_in_block")
                        cnt("thr_start_base_" + unit)
                        if probe.runs > 1:
                            cnt("thr_start_in_a_later_run")
                        stale_block_accumulator = False
                        differs = None
                        if stable:
                            ok = _reached(prev, T)
                            c = _clock(prev)
                            seen = f"clock {None if c is None else float(c)} base {unit}"
                            differs = _clock_disagreement(prev)
                        else:
                            cands, why, blk_fresh = _allowed_clocks(n, cn, prev, cur, pre, moments)
                            if not cands:
                                # the line ran while its own scope / block was not active (orphaned generator of a
                                # nested interrupt): judged against every clock of the tick
                                cnt("thr_start_unstable_without_lexical_restriction")
                                cands, why, blk_fresh = _allowed_clocks(n, cn, prev, cur, pre, moments, lexical=False)
                            ok = any(c >= T * f for c, f in cands)
                            seen = f"the clocks of this tick were {why}"
                            tags = _clock_tags(unit)
                            if not ok and blk_fresh and unit in VOL_FACTOR and tags is not None and tags[1] in prev["tags"] \
                                    and dec(prev["tags"][tags[1]]) >= T * VOL_FACTOR[unit]:
                                stale_block_accumulator = True
                        if not ok and p["completed"] and not p["started"]:
                            # signature of the recorded finding: the node had been marked completed (by the command
                            # of a previous Alarm invocation) while it was waiting for its threshold
                            return fail("threshold-skipped-node-marked-completed-by-previous-invocation", k,
                                        f"line {n['line']} ({n['name']}: {n['arg']}) threshold {n['threshold']} was waiting, "
                                        f"got `completed` from the command of the previous invocation and started in tick {k}, "
                                        f"but {seen}")
                        if not ok and stale_block_accumulator:
                            return fail("volume-threshold-at-block-start-judged-on-outer-accumulator", k,
                                        f"line {n['line']} ({n['name']}: {n['arg']}) threshold {n['threshold']} {unit} is the first "
                                        f"to run in a block that started in tick {k} (block accumulator 0) and started in "
                                        f"that tick: the block accumulator tag still showed "
                                        f"{prev['tags'][_clock_tags(unit)[1]]} of the enclosing scope")
                        if not ok and _in_alarm_nest(cn, n):
                            # recorded alarm-nest root cause: a Watch/Alarm nested in an Alarm keeps its (orphaned)
                            # generator when the Alarm re-arms; that generator completes nodes the new invocation
                            # is waiting on (`_is_awaiting_threshold` is False for a completed node)
                            return fail("threshold-instruction-started-before-clock-reached-threshold:alarm-nest", k,
                                        f"line {n['line']} ({n['name']}: {n['arg']}) threshold {n['threshold']}, inside a "
                                        f"Watch/Alarm nested in an Alarm, started in tick {k}, but {seen}")
                        if not ok:
                            return fail("threshold-instruction-started-before-clock-reached-threshold", k,
                                        f"line {n['line']} ({n['name']}: {n['arg']}) threshold {n['threshold']} started in "
                                        f"tick {k}, but {seen}")
                        if stable and differs is not None and not _in_alarm_nest(cn, n):
                            # the start itself was in time on the ledger, but the engine's clock tag is not the
                            # elapsed running time of the scope
                            return fail(clock_key(prev, "scope-clock-differs-from-elapsed-running-time"), k,
                                        f"line {n['line']} ({n['name']}: {n['arg']}) threshold {n['threshold']} {unit} "
                                        f"started in tick {k}: {differs}")
                        # (2) not later than the first eligible tick (retrospective)
                        kp = next((j for j in range(k - 1, 0, -1) if ran[j]), None)
                        if kp is not None and kp >= 1 and snaps[kp].get("_stable", False):
                            before = snaps[kp - 1]
                            bn, _ = _node_maps(before)
                            b = bn.get(n["id"])
                            if b is not None and _pred_done(before, n["id"]):
                                cnt("thr_promptness_judged")
                            if b is not None and not b["started"] and not b["completed"] and not b["cancelled"] \
                                    and _pred_done(before, n["id"]) and _reached(before, T):
                                return fail(clock_key(before, "threshold-instruction-started-later-than-first-eligible-tick"), k,
                                            f"line {n['line']} threshold {n['threshold']}: in tick {kp} the predecessor was "
                                            f"complete and the clock {float(_clock(before))} had reached the threshold, "
                                            f"but it started only in tick {k}" +
                                            (f" ({_clock_disagreement(before)})" if _clock_disagreement(before) else ""))
                    elif ran_k and stable and not n["started"] and not p["started"] and not p["completed"] \
                            and not p["cancelled"] and p["parent"] is not None \
                            and pn[p["parent"]]["cls"] == "ProgramNode":
                        # (2') forward form, main sequence only (the root loop cannot die)
                        if _pred_done(prev, n["id"]) and _reached(prev, T):
                            return fail(clock_key(prev, "threshold-instruction-not-started-at-first-eligible-tick"), k,
                                        f"line {n['line']} threshold {n['threshold']}: predecessor complete and clock "
                                        f"{float(_clock(prev))} >= threshold before tick {k}, not started in tick {k}" +
                                        (f" ({_clock_disagreement(prev)})" if _clock_disagreement(prev) else ""))
                # ---------------- Wait
                # a new execution of a Wait: its `started` flag flips, or (first line of a macro body: reset and
                # restarted in one tick) it was completed before the tick and is started-not-completed after it
                new_exec = flipped or (n["started"] and p["started"] and p["completed"] and not n["completed"])
                if default_interval and n["name"] == "Wait" and new_exec and not n["forced"]:
                    wait_track[n["id"]] = {"i": k, "nth": wait_execs.get(n["id"], 0) + 1}
                    wait_execs[n["id"]] = wait_execs.get(n["id"], 0) + 1
            if any(not r for r in ran[3:]) and ran_k:
                cnt("ticks_after_a_pause_or_hold")
            if default_interval:
                f = _check_waits(cur, k, ran, wait_track, fail, cnt)
                if f is not None:
                    return f
        return None
    finally:
        run.close()


TOL = Fraction(1, 1000000)       # timing error allowed per measurement (float tick times), in seconds


def _check_waits(cur, k, ran, wait_track, fail, cnt):
    """Third clause, ONE origin: the tick `b` in which the Wait began waiting (the first interpreter tick after
    its `started` flag: `wait_start_time`, the run-log state Started).  The next line must get `started` in a tick
    `j` with  d - tol <= (j - b) * 0.1  (all ticks count: the Wait reads the engine's tick time, which goes on
    during Pause / Hold) and  (interpreter ticks in (b, j]) * 0.1 < d + 0.1 + tol  (ticks in which the interpreter
    does not run cannot start anything).  On the 0.1 s grid that is {d, d + 0.1}, off it exactly ceil(d / 0.1)
    ticks.  `Wait: d` with d < 0.1 s is skipped by the code ("shorter than a tick"): there 0 ticks are accepted."""
    nodes, kids = _node_maps(cur)
    tenth = Fraction(1, 10)
    for wid, tr in list(wait_track.items()):
        w = nodes.get(wid)
        if w is None or w["forced"] or not w["started"]:
            wait_track.pop(wid, None)
            continue
        anc = _ancestors(nodes, w)                       # nearest first
        if any(a["cls"] == "InjectedNode" for a in anc):
            wait_track.pop(wid, None)
            continue
        # a Watch/Alarm nested inside an Alarm or Macro body keeps an orphaned generator over reset flags: not judged
        if any(a["cls"] in ("WatchNode", "AlarmNode") and
               any(b["cls"] in ("AlarmNode", "MacroNode") for b in anc[x + 1:]) for x, a in enumerate(anc)):
            wait_track.pop(wid, None)
            continue
        rerun = next((a for a in anc if a["cls"] in ("AlarmNode", "MacroNode")), None)
        rerun_scope = rerun["cls"] if rerun is not None else None
        if rerun is not None:
            # ... and so does a Watch/Alarm anywhere else in the re-run body (its generator survives the reset)
            def has_interrupt(nid):
                return any(nodes[c]["cls"] in ("WatchNode", "AlarmNode") or has_interrupt(c) for c in kids.get(nid, []))
            if has_interrupt(rerun["id"]):
                wait_track.pop(wid, None)
                continue
        m = DURATION.match(w["arg"] or "")
        if m is None:
            wait_track.pop(wid, None)
            continue
        d = Fraction(Decimal(m.group(1))) * FACTOR[m.group(2)]
        sibs = kids[w["parent"]]
        idx = sibs.index(wid)
        if idx + 1 >= len(sibs):
            wait_track.pop(wid, None)
            continue
        succ = nodes[sibs[idx + 1]]
        i = tr["i"]
        if k == i and succ["started"]:
            wait_track.pop(wid, None)     # the successor was not seen un-started in this execution: not judged
            continue
        b = next((t for t in range(i + 1, k + 1) if ran[t]), None)      # the tick in which the Wait began waiting
        if b is None:
            continue
        running_after_b = sum(1 for t in range(b + 1, k + 1) if ran[t])
        plain_succ = succ["cls"] not in WS_CLS and succ["threshold"] is None
        skipped = d < tenth                              # "Skipping Wait with duration shorter than a tick"
        lower = 0 if skipped else math.ceil((d - TOL) / tenth)            # ticks
        upper = math.ceil((d + tenth + TOL) / tenth) - 1                  # interpreter ticks: N * 0.1 < d + 0.1 + tol
        if succ["started"]:
            cnt("wait_lower_bound_judged")
            if plain_succ:
                cnt("wait_upper_bound_judged")
            if d % tenth == 0:
                cnt("wait_on_grid_judged")
            if rerun_scope is not None:
                cnt(f"wait_in_{rerun_scope}_execution_{min(tr.get('nth', 1), 3)}_judged")
            if any(not ran[t] for t in range(i, k + 1)):
                cnt("wait_spanning_pause_or_hold")
            wait_track.pop(wid, None)
            if k - b < lower:
                return fail("wait-successor-started-before-duration-elapsed", k,
                            f"Wait: {w['arg']} (line {w['line']}, execution {tr.get('nth', 1)}) began waiting in tick {b}, "
                            f"line {succ['line']} started in tick {k}: {k - b} ticks of 0.1 s < {float(d)} s")
            if plain_succ and running_after_b > upper:
                return fail("wait-successor-started-later-than-one-tick-after-duration", k,
                            f"Wait: {w['arg']} (line {w['line']}) began waiting in tick {b}, line {succ['line']} started in "
                            f"tick {k}: {running_after_b} interpreter ticks of 0.1 s >= {float(d)} s + one tick")
        else:
            parent = nodes[w["parent"]]
            if plain_succ and parent["cls"] == "ProgramNode" and running_after_b > upper:
                wait_track.pop(wid, None)
                return fail("wait-successor-not-started-one-tick-after-duration", k,
                            f"Wait: {w['arg']} (line {w['line']}) began waiting in tick {b}; after {running_after_b} interpreter "
                            f"ticks (> {upper}) line {succ['line']} has not started")
    return None
