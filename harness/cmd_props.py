"""Shared plumbing of props/C10.py, C11.py, C12.py: correspondence streams of model M2 and engine-level cases."""
from __future__ import annotations

import json
import random
from typing import Any, Callable

from vp.core import Check, Failure, CORPUS

DRIVER = "CmdMgr"
FIX = "fixes/C11-uod-cancel-paths.diff"


def impl(case: list[str]) -> list[str]:
    from harness.cmdmgr import run_case
    return run_case(case)


def model(case: list[str]) -> list[str]:
    from harness.cmdmgr import model_lines
    return model_lines(case)


def mutant(variant: str) -> Callable[[list[str]], list[str]]:
    return lambda c: model([c[0][:-2] + variant] + c[1:])


def count_ops(ctx: Check, case: list[str], out: list[str]) -> None:
    from harness.cmdmgr_streams import parse
    for ln in case[1:]:
        ctx.count("op:" + ln.split("\t")[0] + (":" + ln.split("\t")[1] if ln.startswith("user") else ""))
    for ln, a in zip(case, out):
        if a == "unmodelled":
            ctx.count("answer:unmodelled")
        o = parse(a)
        if o is None:
            continue
        if ln == "tick":
            n_exec = sum(1 for e in o["ev"] if e[0] == "x")
            ctx.count("tick:execs=" + ("0" if n_exec == 0 else "1" if n_exec == 1 else "2+"))
            if any(e[0] == "f" for e in o["ev"]):
                ctx.count("tick:with-finalize")
            if o["reply"] == "err":
                ctx.count("tick:command-raised")
        if o["stop"] is not None:
            ctx.count("run-ended")
            if any("S" in t["marks"] for snap in o["stop"] for t in snap.values()):
                ctx.count("run-ended-with-started-commands")
        if ln.startswith(("cancel", "force")):
            ctx.count(f"{ln.split(chr(9))[0]}:{'accepted' if o['reply'] == 'ok' else 'rejected'}")


def nontrivial(case: list[str], out: list[str]) -> bool:
    """At least one tick in which a command was finalized and another one executed, or a run ended."""
    from harness.cmdmgr_streams import parse
    for a in out:
        o = parse(a)
        if o and ((any(e[0] == "f" for e in o["ev"]) and any(e[0] == "x" for e in o["ev"])) or o["stop"] is not None):
            return True
    return False


def streams(ctx: Check, profiles: list[str], n_random: int, exh_len: int, n_malformed: int,
            oracles: list[Callable[[list[str], list[str]], list[tuple[str, str]]]], prefix: str) -> None:
    """Correspondence real CommandManager/Engine vs Lean model on generated op streams + the property oracle over
    the implementation's answers."""
    from harness.cmdmgr_streams import exhaustive_cases, gen_case, malformed_case
    rng = ctx.rng
    corpus = [c["lines"] for c in load_corpus(ctx.id) if c.get("kind") == "cmdmgr"]
    rnd = [gen_case(rng, rng.choice([8, 16, 30, 45]), rng.choice(profiles)) for _ in range(n_random)]
    exh = exhaustive_cases(exh_len)
    mal = [malformed_case(rng) for _ in range(n_malformed)]
    all_cases: list[tuple[list[str], list[str]]] = []
    # (every stream costs one start of the model driver: corpus and malformed streams ride with the random one)
    for name, cases in ((prefix + "-corpus+malformed+random", corpus + mal + rnd),
                        (prefix + f"-exhaustive-len{exh_len}", exh)):
        if not cases:
            continue
        out, mout = ctx.correspond(name, DRIVER, cases, model, impl, nontrivial=nontrivial)
        if name.endswith("random") and mout:
            ctx.selftest(name, DRIVER, cases, mutant("00"), mout)
        for c, o in zip(cases, out):
            count_ops(ctx, c, o)
            all_cases.append((c, o))
    for c, o in all_cases:
        for orc in oracles:
            for key, detail in orc(c, o):
                ctx.fail(Failure(key, {"kind": "cmdmgr", "lines": c}, detail))
                break
    # the decidable invariants of OPM.Model.CmdMgrSpec (object invariant, lifecycle discipline, record/mark
    # coherence incl. the not-proved "started => conclusive or still held") evaluated by the model on every stream
    from vp.core import drive
    chk_cases = [model([c[0]] + [x for ln in c[1:] for x in (ln, "chk")]) for c, _ in all_cases]
    bad = 0
    for c, out in zip(chk_cases, drive(DRIVER, chk_cases)):
        for ln, a in zip(c, out):
            if ln == "chk" and "=0" in a:
                bad += 1
                if bad == 1:
                    ctx.proof_broken.append("model invariant evaluates to false: " + a + " in " + json.dumps(c[:40]))
                break
    ctx.extra["model_invariants_evaluated_on_cases"] = len(chk_cases)
    ctx.extra["model_invariant_failures"] = bad


def load_corpus(prop_id: str) -> list[dict[str, Any]]:
    d = CORPUS / prop_id
    if not d.is_dir():
        return []
    return [json.loads(p.read_text()) for p in sorted(d.glob("*.json"))]


# ------------------------------------------------------------------------------------------------ engine level

def gen_engine_case(rng: random.Random, kind: str) -> dict[str, Any]:
    from harness.cmd_engine import gen_method, gen_pause_hold, gen_snippet
    if kind == "c12" and rng.random() < 0.2:
        # a timed Hold and a timed Pause in effect together; either is cancelled (or forced) at any tick
        ticks = rng.choice([30, 40])
        sched: dict[str, list] = {}
        for _ in range(rng.randrange(1, 4)):
            op = [rng.choice(["cancel", "cancel", "force"]), ["name", rng.choice(["Hold", "Pause"]), 0]]
            sched.setdefault(str(rng.randrange(3, 22)), []).append(op)
        if rng.random() < 0.25:
            sched.setdefault(str(rng.randrange(3, 16)), []).append(["user", rng.choice(["Pause", "Hold"])])
        return {"kind": "engine", "pcode": gen_pause_hold(rng), "ticks": ticks, "sched": sched, "failing": False}
    if kind == "c12" and rng.random() < 0.1:
        # a UOD line that executes several times in one run (an Alarm re-arms when its body is through); the user
        # cancels / forces the item of a later invocation while it runs
        ticks = rng.choice([40, 50])
        body = rng.choice(["CmdB", "CmdC", "CmdD", "CmdB\n    CmdA"])
        pcode = f"Alarm: T0 = 0\n    {body}\n" + rng.choice(["Mark: m1", "Wait: 0.5s", "CmdA"])
        sched = {}
        for _ in range(rng.randrange(1, 4)):
            op = [rng.choice(["cancel", "cancel", "force"]), ["name", "Cmd", -1]]
            sched.setdefault(str(rng.randrange(8, ticks - 8)), []).append(op)
        return {"kind": "engine", "pcode": pcode, "ticks": ticks, "sched": sched, "failing": False}
    failing = kind == "c11" and rng.random() < 0.35
    bad_args = kind in ("c11", "c10") and rng.random() < 0.3
    pcode = gen_method(rng, failing=failing, engine_cmds=kind != "c11" or rng.random() < 0.3, bad_args=bad_args,
                       thresholds=kind == "c12")
    ticks = rng.choice([30, 40, 50])
    sched: dict[str, list] = {}

    def at(t: int, op: list):
        sched.setdefault(str(t), []).append(op)
    if kind in ("c11", "c10"):
        for _ in range(rng.randrange(0, 4)):
            at(rng.randrange(2, ticks - 10), ["inject", gen_snippet(rng, failing, bad_args)])
    if kind == "c11":
        for _ in range(rng.randrange(0, 4)):
            at(rng.randrange(2, ticks - 8), ["cancel", ["item", rng.randrange(60)]])
        t_stop = rng.randrange(4, ticks - 6) if rng.random() < 0.4 else ticks - 5
        # every run ends: "finalized by then" is judged on every case
        at(t_stop, ["user", rng.choice(["Stop", "Restart"]) if t_stop != ticks - 5 else "Stop"])
        for _ in range(rng.choice([0, 0, 0, 0, 0, 1, 1, 2])):     # commands from the user's command buttons
            at(rng.choice([t_stop + 1, rng.randrange(2, ticks - 2), rng.randrange(2, ticks - 2)]),
               ["user", rng.choice(["CmdA", "CmdB", "CmdC", "CmdD"])])
    elif kind == "c10" and rng.random() < 0.15:
        # a command from the user's command buttons while NO run is active (tracking is off then), carried into the
        # next run and still running when that run is stopped / restarted
        ticks = 40
        t_stop = rng.randrange(3, 10)
        at(t_stop, ["user", "Stop"])
        t_cmd = t_stop + rng.randrange(3, 6)
        at(t_cmd, ["user", rng.choice(["CmdL", "CmdL", "CmdC"])])
        t_start = t_cmd + rng.randrange(0, 3)
        at(t_start, ["user", "Start"])
        at(t_start + rng.randrange(2, 9), ["user", rng.choice(["Stop", "Restart"])])
    elif kind == "c10":
        t_stop = rng.randrange(3, ticks - 8)
        at(t_stop, ["user", rng.choice(["Stop", "Stop", "Restart"])])
        # Stop / Restart also out of a pause or hold of the user (no timed Pause / Hold command is running then)
        if rng.random() < 0.25 and t_stop > 4:
            at(rng.randrange(2, t_stop), ["user", rng.choice(["Pause", "Hold"])])
        # commands from the user's command buttons: accepted in every engine state, also between the two phases of
        # Stop / Restart (t_stop + 1) and when no run is active
        for _ in range(rng.choice([0, 0, 0, 0, 0, 1, 1, 2])):
            at(rng.choice([t_stop + 1, t_stop, rng.randrange(2, ticks - 2), rng.randrange(2, ticks - 2)]),
               ["user", rng.choice(["CmdA", "CmdB", "CmdC", "CmdD"])])
    else:  # c12: requests against every item of the run log, offered or not
        for _ in range(rng.randrange(1, 6)):
            x = rng.random()
            # (the most recent UOD item — for a line that runs several times: its latest invocation, likely running)
            sel = ["name", "Cmd", -1] if x < 0.25 else ["item", rng.randrange(60)] if x < 0.94 else ["id", "nope"]
            at(rng.randrange(2, ticks - 8), [rng.choice(["cancel", "force"]), sel])
        if rng.random() < 0.5:
            at(rng.randrange(3, ticks - 8), ["force", ["threshold", rng.randrange(8)]])
    case = {"kind": "engine", "pcode": pcode, "ticks": ticks, "sched": sched, "failing": failing}
    if kind == "c10" and rng.random() < 0.4:
        case["stop_fault"] = True      # another listener's on_stop raises (registered before the tags / run-log consumer)
    return case


def engine_monitor(ctx: Check, kind: str, n: int, oracle: Callable[[dict, dict], list[tuple[str, str]]]) -> None:
    from harness.cmd_engine import execute
    cases = [c for c in load_corpus(ctx.id) if c.get("kind") == "engine"]
    cases += [gen_engine_case(ctx.rng, kind) for _ in range(n)]

    def run(case):
        if kind == "c10" and any(op == ["user", "Restart"] for ops in case["sched"].values() for op in ops):
            from harness.cmd_engine import reference_inits
            from harness.cmd_engine import reference_delay
            case = dict(case, _reference=reference_inits(case), _reference_delay=reference_delay(case))
        res = execute(case)
        ctx.count("engine-run")
        if any(len([e for e in t["events"] if e[1] == "exec"]) >= 2 for t in res["ticks"]):
            ctx.count("engine-run:two-commands-in-one-tick")
        if res["stops"]:
            ctx.count("engine-run:run-ended")
        for r in res["requests"]:
            if "result" in r and r["op"][0] in ("cancel", "force"):
                ctx.count(f"engine-{r['op'][0]}:{'accepted' if r['result'] == 'ok' else 'rejected'}")
        found = oracle(case, res)
        pub = {k: v for k, v in case.items() if not k.startswith("_reference")}
        return [Failure(k, pub, d) for k, d in found[:3]] or None
    ctx.monitor(cases, run, impl_timeout=60.0)


def replay_case(obj: dict[str, Any], prop: str) -> int:
    """Re-run one replay file: prints what the implementation and the model do and the oracle verdicts."""
    from vp.core import drive, quiet_logging
    quiet_logging()
    case = obj.get("case") or (obj.get("disagreements") or [{}])[0].get("case")
    if case is None:
        print(obj)
        return 0
    if isinstance(case, dict) and case.get("kind") == "engine":
        from harness import cmd_engine
        res = cmd_engine.execute(case)
        for t in res["ticks"]:
            print(t["tick"], t["events"], t["instances"], t["sys"])
        for r in res["requests"]:
            print("request", r.get("op"), r.get("result"), r.get("item"))
        found = {"C10": cmd_engine.oracle_c10, "C11": lambda c, r: cmd_engine.oracle_c11(r),
                 "C12": cmd_engine.oracle_c12}[prop](case, res)
        print("oracle:", found)
        return 1 if found else 0
    lines = case["lines"] if isinstance(case, dict) else case
    from harness import cmdmgr_streams as S
    out = impl(lines)
    mout = drive(DRIVER, [model(lines)])[0]
    for ln, a, m in zip(lines, out, mout):
        print(ln.replace("\t", " "))
        print("   impl :", a)
        if a != m:
            print("   MODEL:", m)
    found = {"C10": S.oracle_c10, "C11": S.oracle_c11, "C12": S.oracle_c12}[prop](lines, out)
    print("oracle:", found)
    return 1 if found or out != mout else 0
