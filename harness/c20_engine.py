"""C20 harness: generated UODs on the real Engine, the definition the engine publishes, the real analyzer on it.

    pub   = publish(spec)               # Engine(uod) -> validate -> build_commands -> EngineMessageBuilder.create_uod_info()
                                        #   -> protocol serialisation round trip -> uod_definition (what the LSP receives)
    items = analyze(pub.definition, pcode)       # lsp_analysis.create_analysis_input + analyze (the editor path)
    out   = run_method(spec, pcode)     # fresh Engine, set_method, Start, ticks at virtual time; first method error classified

A UOD spec is plain data (JSON-able):
    {"tags": [[name, unit|None, value]],
     "cmds": [{"name":…, "kind": "number"|"categorical"|"text"|"rawregex"|"noargs"|"default"|"custom", …params}],
     "base": "none" | "volume" | "cv"}
Exec functions complete at once; the custom parser accepts digit strings only (returns None otherwise).
Nothing in /repo is edited; `time.time` is virtual (harness.engine_run.Clock).
"""
from __future__ import annotations

import json
from typing import Any

from harness.engine_run import Clock

DT = 0.125


def custom_parse(args: str):
    """The custom (non-regex) argument parser of generated 'custom' commands: digits only."""
    return {"value": args} if args.strip().isdigit() else None


def command_regex(c: dict) -> str | None:
    """The regular expression of a generated regex command (built with the real builders of regex.py)."""
    from openpectus.lang.exec import regex as R
    k = c["kind"]
    if k == "number":
        return R.RegexNumber(units=c.get("units"), non_negative=c.get("non_negative", False), int_only=c.get("int_only", False))
    if k == "number_optional":
        return R.RegexNumberOptional(units=c.get("units"), non_negative=c.get("non_negative", False))
    if k == "categorical":
        return R.RegexCategorical(exclusive_options=c.get("exclusive"), additive_options=c.get("additive"))
    if k == "text":
        return R.RegexText(allow_empty=c.get("allow_empty", False))
    if k == "rawregex":
        return c["regex"]          # a uod author's own expression, passed on as it is
    return None


def build_uod(spec: dict):
    from openpectus.lang.exec.tags import Tag
    from openpectus.lang.exec.uod import UodBuilder

    def ex_kv(cmd, **kvargs):
        cmd.set_complete()

    def ex_value(cmd, value):
        cmd.set_complete()

    b = (UodBuilder().with_instrument("C20Uod").with_author("v", "v@example.org").with_filename(__file__)
         .with_hardware_none().with_location("loc"))
    for name, unit, value in spec["tags"]:
        b = b.with_tag(Tag(name=name, value=value, unit=unit))
    if spec.get("base") in ("volume", "cv"):
        b = b.with_tag(Tag(name="Totalizer", value=0.0, unit="L"))
        b = b.with_accumulated_volume("Totalizer")
    if spec.get("base") == "cv":
        b = b.with_tag(Tag(name="Column Volume", value=2.0, unit="L"))
        b = b.with_accumulated_cv("Column Volume", "Totalizer")
    for c in spec["cmds"]:
        rx = command_regex(c)
        if rx is not None:
            b = b.with_command_regex_arguments(c["name"], rx, ex_kv)
        elif c["kind"] == "noargs":
            b = b.with_command(c["name"], ex_kv, arg_parse_fn=None)
        elif c["kind"] == "default":
            b = b.with_command(c["name"], ex_value)
        elif c["kind"] == "custom":
            b = b.with_command(c["name"], ex_kv, arg_parse_fn=custom_parse)
        else:
            raise ValueError(f"unknown command kind {c['kind']}")
    return b.build()


def make_engine(spec: dict):
    from openpectus.engine.engine import Engine, EngineTiming
    from openpectus.lang.exec.clock import WallClock
    from openpectus.lang.exec.timer import NullTimer
    uod = build_uod(spec)
    engine = Engine(uod, EngineTiming(WallClock(), NullTimer(), DT, 1.0))
    # what main.run_validations does before the engine talks to the aggregator
    uod.validate_configuration()
    uod.build_commands()
    return engine, uod


class Published:
    def __init__(self, definition, engine_side: dict, parse_fns: dict | None = None, wire: dict | None = None):
        self.wire = wire                      # the serialised UodInfoMsg as it travels to the aggregator
        self.definition = definition          # protocol.models.UodDefinition as the aggregator/LSP receives it
        self.engine_side = engine_side        # what the engine itself uses (for the model's `publish` stream)
        self.parse_fns = parse_fns or {}      # command name -> the arg_parse_fn UodCommand.parse_args calls (or None)


def publish(spec: dict) -> Published:
    """The definition the engine publishes, through the real message builder and the protocol serialisation."""
    from openpectus.engine.engine_message_builder import EngineMessageBuilder
    from openpectus.protocol import serialization
    from openpectus.lang.exec.uod import RegexNamedArgumentParser, defaultArgumentParser
    from openpectus.lang.exec.argument_specification import ArgSpec
    from openpectus.aggregator.command_examples import examples
    from openpectus.lang.model.parser import PcodeParser
    clock = Clock()
    clock.install()
    try:
        engine, uod = make_engine(spec)
        try:
            msg = EngineMessageBuilder(engine, "", False).create_uod_info()
            wire = json.loads(json.dumps(serialization.serialize(msg), default=list))  # the rpc layer encodes sets as lists
            definition = serialization.deserialize(wire).uod_definition  # type: ignore[attr-defined]
            cmds = []
            for name, builder in uod.command_factories.items():
                p = RegexNamedArgumentParser.get_instance(builder.arg_parse_fn)
                if p is not None:
                    cmds.append([name, "regex", p.regex])
                elif builder.arg_parse_fn is defaultArgumentParser:
                    cmds.append([name, "default", ""])
                else:
                    cmds.append([name, "custom", ""])
            specs = []
            for name, sp in engine.registry._command_spec.items():
                specs.append([str(name), sp.regex if isinstance(sp, ArgSpec) else None])
            engine_side = {
                "tags": [[t.name, t.unit] for t in uod.tags] + [[t.name, t.unit] for t in (uod.system_tags or [])],
                "engine_tags": sorted(engine.tags.names),
                "uod_cmds": cmds,
                "descriptions": list(uod.command_descriptions.keys()),
                "examples": [e.name for e in examples],
                "specs": specs,
                "base_units": list(uod.base_unit_provider.get_units()),
                "keywords": sorted(PcodeParser().instruction_name_map.keys()),
            }
            return Published(definition, engine_side,
                             {name: builder.arg_parse_fn for name, builder in uod.command_factories.items()}, wire)
        finally:
            engine.cleanup()
    finally:
        clock.uninstall()


_AGG = None
_AGG_ENGINES = 0
_REAL_FETCH = None


def _remember_real_fetch() -> None:
    """`analysis_input` replaces lsp_analysis.fetch_uod_info; keep the module's own function for the aggregator route"""
    global _REAL_FETCH
    from openpectus.lsp import lsp_analysis
    if _REAL_FETCH is None:
        if getattr(lsp_analysis.fetch_uod_info, "__name__", "") != "fetch_uod_info":
            raise RuntimeError("lsp_analysis.fetch_uod_info was replaced before the harness saw it")
        _REAL_FETCH = lsp_analysis.fetch_uod_info


def via_aggregator(pubs: list):
    """The definition and the analysis input the editor gets when the engine's UodInfo messages (`pubs`, in order — e.g.
    the one of an earlier uod version and then, after a re-registration, the current one) travel through a real in-process aggregator
    (harness/agg_common.py): registration, `handle_UodInfoMsg` per message, then `lsp_analysis.fetch_uod_info` /
    `create_analysis_input` exactly as `lint` calls them.  Returns (definition, analysis input)."""
    global _AGG, _AGG_ENGINES, _REAL_FETCH
    from harness import agg_install
    from harness.agg_common import AggHarness, run
    from openpectus.lsp import lsp_analysis
    from openpectus.protocol import serialization
    _remember_real_fetch()
    if _AGG is None:
        _AGG = AggHarness()
    _AGG_ENGINES += 1
    engine = _AGG_ENGINES
    eid = _AGG.eid(engine)
    saved_fetch = lsp_analysis.fetch_uod_info
    installed = agg_install.install(_AGG.agg)
    lsp_analysis.fetch_uod_info = _REAL_FETCH
    try:
        reply = _AGG.register(engine)
        if not getattr(reply, "success", False):
            raise RuntimeError(f"registration refused: {reply!r}")
        for k, p in enumerate(pubs):
            if k > 0:
                # the engine comes back (e.g. restarted with a new uod version) while the aggregator still holds its data
                reply = _AGG.register(engine)
                if not getattr(reply, "success", False):
                    raise RuntimeError(f"registration refused: {reply!r}")
            msg = serialization.deserialize(json.loads(json.dumps(p.wire)))
            msg.engine_id = eid      # type: ignore[attr-defined]
            reply = run(_AGG.handlers.handle_UodInfoMsg(msg))
            if type(reply).__name__ != "SuccessMessage":
                raise RuntimeError(f"UodInfo refused: {reply!r}")
        lsp_analysis.create_analysis_input.cache_clear()
        definition = lsp_analysis.fetch_uod_info(eid)
        inp = lsp_analysis.create_analysis_input(eid)
        return definition, inp
    finally:
        try:
            _AGG.disconnect(engine)
        except Exception:  # noqa: BLE001
            pass
        agg_install.restore(installed)
        lsp_analysis.fetch_uod_info = saved_fetch
        lsp_analysis.create_analysis_input.cache_clear()


def analysis_input(definition):
    from openpectus.lsp import lsp_analysis
    _remember_real_fetch()
    lsp_analysis.create_analysis_input.cache_clear()
    lsp_analysis.fetch_uod_info = lambda _eid: definition
    return lsp_analysis.create_analysis_input("c20-engine")


def analyze(definition, pcode: str, inp=None) -> list[dict]:
    """The editor's analysis (lsp_analysis.analyze) with the published definition; every AnalyzerItem."""
    from openpectus.lsp import lsp_analysis
    from pylsp.workspace import Document, Workspace
    inp = inp or analysis_input(definition)
    doc = Document(uri="file://workspace/uri", workspace=Workspace(root_uri="", endpoint=None, config=None), source=pcode)
    res = lsp_analysis.analyze(inp, doc)
    return [{"id": it.id, "line": it.range.start.line, "type": it.type.name if hasattr(it.type, "name") else str(it.type),
             "fix": it.data.get("type") == "fix-typo"} for it in res.items]


# ----------------------------------------------------------------------------------------------------------
# running a method and classifying the first method error

CATEGORIES = ("unknown-command", "unknown-tag", "invalid-argument", "unit", "other")


def _has_tag(engine, name) -> bool:
    try:
        return bool(name) and name.strip() != "" and engine.tags.has(name)
    except Exception:  # noqa: BLE001
        return False


def _is_decimal(text) -> bool:
    from openpectus.lang.exec.units import as_decimal
    d = as_decimal(str(text))
    return d is not None and d.is_finite()


def units_reject(tag_unit, cond_unit) -> bool:
    """Do the two units make `compare_values` fail whatever the (numeric) values are?  Decided by calling it with 1 = 1."""
    from openpectus.lang.exec import units as U
    try:
        U.compare_values("=", "1", tag_unit, "1", cond_unit)
        return False
    except Exception:  # noqa: BLE001
        return True


def _frames(exc: BaseException | None) -> list[tuple[str, str]]:
    """(module, function) of the frames of the exception chain that lie in openpectus or in this harness, outermost first."""
    import traceback
    out: list[tuple[str, str]] = []
    seen = set()
    while exc is not None and id(exc) not in seen:
        seen.add(id(exc))
        for fr, _ in traceback.walk_tb(exc.__traceback__):
            fn = fr.f_code.co_filename
            if "openpectus" in fn or fn.endswith("c20_engine.py"):
                out.append((fn.rsplit("/", 1)[-1][:-3], fr.f_code.co_name))
        exc = exc.__cause__ or exc.__context__
    return out


def classify_failure(engine, exc: BaseException) -> dict[str, Any]:
    """Category of a method error, decided by WHERE it was raised (failing node class, raising function) and by DATA
    (is the tag known to the engine? do the units reject any values?) — never by the wording of the error message.
    Nothing is dropped: what is not recognised is `other` with node class, function and exception type in its site."""
    import openpectus.lang.model.ast as p
    le = getattr(engine.interpreter, "_last_error", None)
    node = getattr(exc, "node", None) or (le[1] if le else None)
    root = le[0] if le and le[0] is not None else exc
    root_frames = _frames(root)
    frames = (_frames(exc) if exc is not root else []) + root_frames      # outermost first, raising function last
    funcs = [f for _, f in frames]
    inner = frames[-1] if frames else ("?", "?")
    line = node.position.line if node is not None else None
    deepest = root
    while (deepest.__cause__ or deepest.__context__) is not None:
        deepest = deepest.__cause__ or deepest.__context__
    tname = type(deepest).__name__

    def out(cat, site):
        return {"category": cat, "site": site, "line": line, "exc": tname, "raised_in": f"{inner[0]}.{inner[1]}",
                "node": type(node).__name__ if node is not None else None,
                "text": (str(getattr(exc, "message", "")) or str(exc))[:300]}
    if "_is_awaiting_threshold" in funcs:
        return out("other", "threshold")
    if node is None:  # raised by the command manager while executing a scheduled command
        if "execute" in funcs and funcs.index("execute") < len(funcs) - 1 or any(m == "c20_engine" for m, _ in frames):
            return out("other", "exec-function")
        if inner[1] == "_execute_uod_command":
            name = None
            import traceback
            for fr, _ in traceback.walk_tb(root.__traceback__):
                if fr.f_code.co_name == "_execute_uod_command":
                    name = getattr(fr.f_locals.get("cmd_request"), "name", None)
            d = out("invalid-argument", "uod-command")
            d["command"] = name
            return d
        if "_execute_internal_command" in funcs:
            return out("invalid-argument", "engine-command")
        if "schedule_execution" in funcs:
            return out("unknown-command", "instruction")
        return out("other", f"command-manager:{inner[1]}:{tname}")
    if isinstance(node, p.ErrorInstructionNode):
        return out("unknown-command", "instruction")
    if isinstance(node, (p.WatchNode, p.AlarmNode)):
        c = node.tag_operator_value
        if inner[1] != "_evaluate_condition" and "_evaluate_condition" not in funcs:
            return out("other", f"{type(node).__name__}:{inner[1]}:{tname}")
        if c is None or not c.tag_name or not c.tag_value:
            return out("other", "condition-malformed")
        if not _has_tag(engine, c.tag_name):
            return out("unknown-tag", "condition")
        tag = engine.tags.get(c.tag_name)
        if units_reject(tag.unit, c.tag_unit):
            return out("unit", "condition")
        if not _is_decimal(tag.get_value()):
            return out("other", "condition-value:tag-value-not-numeric")
        if not _is_decimal(c.tag_value):
            return out("other", "condition-value:compared-value-not-numeric")
        return out("other", f"condition-value:unexplained:{tname}")
    if isinstance(node, p.SimulateNode):
        c = node.tag_operator_value
        if c is not None and c.tag_name and not _has_tag(engine, c.tag_name):
            return out("unknown-tag", "simulate")
        if c is not None and c.tag_unit and c.tag_value_numeric:
            return out("unit", "simulate")
        return out("other", f"simulate:{inner[1]}:{tname}")
    if isinstance(node, p.SimulateOffNode):
        if not _has_tag(engine, node.arguments):
            return out("unknown-tag", "simulate-off")
        return out("other", f"simulate-off:{inner[1]}:{tname}")
    if isinstance(node, p.InterpreterCommandNode):
        if inner[1] in ("visit_InterpreterCommandNode", "validate_w_groups", "get_duration_end"):
            known = node.instruction_name in ("Base", "Increment run counter", "Run counter", "Wait")
            return out("invalid-argument" if known else "unknown-command", node.instruction_name if known else "instruction")
        return out("other", f"InterpreterCommandNode:{inner[1]}:{tname}")
    if isinstance(node, (p.UodCommandNode, p.EngineCommandNode)):
        if "schedule_execution" in funcs:
            return out("unknown-command", "instruction")
        return out("other", f"{type(node).__name__}:{inner[1]}:{tname}")
    return out("other", f"{type(node).__name__}:{inner[1]}:{tname}")


def program_nodes(engine) -> list:
    return list(engine.interpreter._program.get_all_nodes())


def node_ekind(node) -> str:
    import openpectus.lang.model.ast as p
    if isinstance(node, p.WatchNode):
        return "watch"
    if isinstance(node, p.AlarmNode):
        return "alarm"
    if isinstance(node, p.SimulateNode):
        return "simulate"
    if isinstance(node, p.SimulateOffNode):
        return "simulateoff"
    if isinstance(node, p.UodCommandNode):
        return "uod"
    if isinstance(node, p.EngineCommandNode):
        return "engine"
    if isinstance(node, p.InterpreterCommandNode):
        return "interp"
    if isinstance(node, p.ErrorInstructionNode):
        return "error"
    return "other"


def static_verdict(engine, uod, node) -> str:
    """What the engine's own acceptance primitive says about this instruction, without running the method:
    ok | unknown-command | unknown-tag | invalid-argument | unit | other.  Every branch calls the real code the
    interpreter / command manager calls for that node class."""
    from openpectus.lang.exec.argument_specification import ArgSpec
    from openpectus.lang.exec.regex import REGEX_DURATION
    kind = node_ekind(node)
    try:
        if kind == "error":
            return "ok" if node.instruction_name == "Noop" else "unknown-command"
        if kind == "uod":
            if not uod.has_command_name(node.instruction_name):
                return "unknown-command"
            cmd = uod.create_command(node.instruction_name, "static-check")
            try:
                return "ok" if cmd.parse_args(node.arguments) is not None else "invalid-argument"
            finally:
                uod.dispose_command(cmd)
        if kind == "engine":
            try:
                cmd = engine.registry.create_internal_command(node.instruction_name, "static-check")
            except ValueError:
                return "unknown-command"
            try:
                cmd.validate_arguments(node.arguments)
                return "ok"
            except ValueError:
                return "invalid-argument"
            finally:
                engine.registry.dispose_command(node.instruction_name)
        if kind == "interp":
            name = node.instruction_name
            if name == "Base":
                return "ok" if node.arguments in engine.interpreter.context.base_unit_provider.get_units() else "invalid-argument"
            if name == "Increment run counter":
                return "ok"
            if name == "Run counter":
                try:
                    int(node.arguments)
                    return "ok"
                except ValueError:
                    return "invalid-argument"
            if name == "Wait":
                return "ok" if ArgSpec.Regex(regex=REGEX_DURATION).validate_w_groups(argument=node.arguments) is not None \
                    else "invalid-argument"
            return "unknown-command"
        if kind in ("watch", "alarm"):
            c = node.tag_operator_value
            try:
                engine.interpreter._evaluate_condition(node)
                return "ok"
            except Exception:  # noqa: BLE001 - classified by data, not by the message
                if c is None or not c.tag_name or not c.tag_value:
                    return "other"
                if not _has_tag(engine, c.tag_name):
                    return "unknown-tag"
                return "unit" if units_reject(engine.tags.get(c.tag_name).unit, c.tag_unit) else "other"
        if kind == "simulate":
            c = node.tag_operator_value
            if c is None or not c.tag_name:
                return "other"
            try:
                if c.tag_value_numeric and c.tag_unit:
                    tag = engine.interpreter.context.tags.get(c.tag_name)
                    try:
                        tag.simulate_value_and_unit(c.tag_value_numeric, c.tag_unit, 0.0)
                    finally:
                        tag.stop_simulation()
                elif c.tag_value:
                    engine.interpreter.context.tags.get(c.tag_name)
                return "ok"
            except Exception:  # noqa: BLE001
                return "unit" if _has_tag(engine, c.tag_name) else "unknown-tag"
        if kind == "simulateoff":
            try:
                engine.interpreter.context.tags.get(node.arguments)
                return "ok"
            except ValueError:
                return "unknown-tag"
        return "ok"
    except Exception as e:  # noqa: BLE001
        return "other:" + type(e).__name__


def run_method(spec: dict, pcode: str, max_ticks: int = 60, settle: int = 6) -> dict[str, Any]:
    """Run the method on a fresh engine.  Returns the engine-side parse with the static verdict per instruction,
    the first method error of the run (classified) or None, and the lines that were started."""
    import openpectus.protocol.models as Mdl
    clock = Clock()
    clock.install()
    out: dict[str, Any] = {"failure": None, "ticks": 0, "raised": None}
    try:
        engine, uod = make_engine(spec)
        try:
            engine.run(skip_timer_start=True)
            engine.set_method(Mdl.Method.from_pcode(pcode))
            nodes0 = [n for n in program_nodes(engine) if type(n).__name__ != "ProgramNode"]
            out["nodes"] = []
            for n in nodes0:
                c = getattr(n, "tag_operator_value", None)
                tag_now = ""
                if c is not None and c.tag_name and engine.tags.has(c.tag_name):
                    tag_now = str(engine.tags.get(c.tag_name).get_value())
                out["nodes"].append({"line": n.position.line, "cls": type(n).__name__, "ekind": node_ekind(n),
                                     "name": n.instruction_name, "args": n.arguments,
                                     "num_truthy": bool(getattr(c, "tag_value_numeric", None)) if c is not None else False,
                                     "tag_now": tag_now, "static": static_verdict(engine, uod, n)})
            engine.execute_control_command_from_user("Start")
            idle = 0
            for i in range(max_ticks):
                clock.now += DT
                try:
                    engine.tick(clock.now, DT)
                except BaseException as e:  # C13's subject; reported as 'other'
                    out["raised"] = f"{type(e).__name__}: {e}"
                    out["failure"] = {"category": "other", "site": "tick-raised", "text": out["raised"][:300], "line": None}
                    break
                out["ticks"] = i + 1
                if engine.has_error_state():
                    exc = engine.get_error_state_exception()
                    assert exc is not None
                    out["failure"] = classify_failure(engine, exc)
                    break
                nodes = program_nodes(engine)
                done = all(n.completed or n.failed or type(n).__name__ in ("ProgramNode",) for n in nodes)
                idle = idle + 1 if done else 0
                if idle >= settle:
                    break
            nodes = program_nodes(engine)
            out["started"] = sorted({n.position.line for n in nodes if (n.started or n.completed)
                                     and type(n).__name__ != "ProgramNode"})
        finally:
            try:
                engine.cleanup()
            except Exception:  # noqa: BLE001
                pass
    finally:
        clock.uninstall()
    return out
