"""Translator: does `FromFrontend.save_method` hold one lock across its engine round trip?
  -> lean/OPM/Gen/SaveLock.lean   (property C31)

Read from the source of `openpectus.aggregator.aggregator` with `ast` on every run.  Starting at
`FromFrontend.save_method`, the body is walked with the stack of enclosing `async with <expr>` blocks whose context
expression names a lock (its source text contains "lock", any case).  A call `self.<m>(...)` of another method of
the class — awaited or synchronous — is followed transitively (depth <= 4) with the lock stack of the call site, so a
thin locked wrapper around the unchanged body, and a body split into private helpers, are recognised.  Three sites are located and the locks enclosing each one are emitted:
  * check   — the comparison of the posted `version` with the existing one (`if a != b: raise ...`)
  * rpc     — `await self.dispatcher.rpc_call(...)`
  * commit  — the assignment `<engine_data>.method = ...`
`lockAcrossAwait` (computed in Lean) = some lock encloses *a* version check, *every* round trip and *every* commit
(an additional unlocked fast-path check in front of the lock does no harm: the decision that counts is the one taken
under the lock).
What the table cannot see (a lock object that is not the same for two requests, a lock released in between by other
means) is caught by the trace validation of props/C31.py, which runs the real handler under every interleaving.
"""
from __future__ import annotations

import ast
import inspect
from pathlib import Path

ROOT = Path(__file__).resolve().parents[2]
from vp import core as _core  # the Lean project this run works in (private copy for scratch trees)
OUT = _core.LEAN / "OPM" / "Gen" / "SaveLock.lean"


def _lean_str(s: str) -> str:
    return '"' + s.replace("\\", "\\\\").replace('"', '\\"') + '"'


def _is_lock_expr(e: ast.AST) -> bool:
    return "lock" in ast.unparse(e).lower()


def _mentions_version(e: ast.AST) -> bool:
    return any((isinstance(n, ast.Attribute) and n.attr == "version") or
               (isinstance(n, ast.Name) and "version" in n.id) for n in ast.walk(e))


class _Walker:
    def __init__(self, methods: dict[str, ast.AST]):
        self.methods = methods
        self.stack: list[str] = ["save_method"]
        self.sites: dict[str, list[list[str]]] = {"check": [], "rpc": [], "commit": []}

    def walk(self, node: ast.AST, locks: list[str], depth: int) -> None:
        if isinstance(node, ast.AsyncWith):
            inner = locks + [ast.unparse(i.context_expr) for i in node.items if _is_lock_expr(i.context_expr)]
            for i in node.items:
                self.walk(i.context_expr, locks, depth)
            for st in node.body:
                self.walk(st, inner, depth)
            return
        if isinstance(node, ast.If) and isinstance(node.test, ast.Compare) and _mentions_version(node.test) \
                and any(isinstance(n, ast.Raise) for st in node.body for n in ast.walk(st)):
            self.sites["check"].append(list(locks))
        if isinstance(node, ast.Await) and isinstance(node.value, ast.Call):
            f = node.value.func
            if isinstance(f, ast.Attribute) and f.attr == "rpc_call":
                self.sites["rpc"].append(list(locks))
        if isinstance(node, ast.Call):
            # a call of another method of the class, awaited or not: what the helper does happens under the locks of
            # the call site (followed transitively, depth <= 4, no recursion)
            f = node.func
            if isinstance(f, ast.Attribute) and isinstance(f.value, ast.Name) and f.value.id == "self" \
                    and f.attr in self.methods and f.attr not in self.stack and depth < 4:
                self.stack.append(f.attr)
                for st in self.methods[f.attr].body:  # type: ignore[attr-defined]
                    self.walk(st, locks, depth + 1)
                self.stack.pop()
        if isinstance(node, ast.Assign):
            for t in node.targets:
                if isinstance(t, ast.Attribute) and t.attr == "method":
                    self.sites["commit"].append(list(locks))
        for ch in ast.iter_child_nodes(node):
            if isinstance(ch, (ast.FunctionDef, ast.AsyncFunctionDef, ast.Lambda, ast.ClassDef)):
                continue
            self.walk(ch, locks, depth)


def analyse() -> dict:
    """check_sites: the lock stack of every version check found; rpc / commit: locks that enclose *every* occurrence."""
    import openpectus.aggregator.aggregator as A
    tree = ast.parse(inspect.getsource(A))
    cls = next(n for n in tree.body if isinstance(n, ast.ClassDef) and n.name == "FromFrontend")
    methods = {n.name: n for n in cls.body if isinstance(n, (ast.FunctionDef, ast.AsyncFunctionDef))}
    w = _Walker(methods)
    for st in methods["save_method"].body:
        w.walk(st, [], 0)
    out: dict = {"check_sites": w.sites["check"]}
    for site in ("rpc", "commit"):
        occs = w.sites[site]
        out[site] = [lk for lk in occs[0] if all(lk in o for o in occs)] if occs else []
    out["found"] = [s for s in ("check", "rpc", "commit") if w.sites[s]]
    return out


def generate() -> dict:
    a = analyse()

    def lst(xs):
        return "[" + ", ".join(_lean_str(x) for x in xs) + "]"
    sites = "[" + ", ".join(lst(x) for x in a["check_sites"]) + "]"
    src = f"""/-! GENERATED by harness/translators/save_lock.py from the source of
`openpectus.aggregator.aggregator.FromFrontend.save_method`. Do not edit. -/
namespace OPM.Gen.SaveLock

/-- sites of `save_method` that were located in the source -/
def found : List String := {lst(a["found"])}
/-- for every version check found: the `async with <lock>` expressions that enclose it -/
def checkSites : List (List String) := {sites}
/-- locks that enclose every `await self.dispatcher.rpc_call(...)` -/
def rpcLocks : List String := {lst(a["rpc"])}
/-- locks that enclose every assignment `engine_data.method = new_method` -/
def commitLocks : List String := {lst(a["commit"])}

/-- one lock is held from a version check across the engine round trip to the commit -/
def lockAcrossAwait : Bool :=
  found == ["check", "rpc", "commit"] &&
  checkSites.any (fun locks => locks.any (fun l => rpcLocks.contains l && commitLocks.contains l))

end OPM.Gen.SaveLock
"""
    OUT.parent.mkdir(exist_ok=True)
    if not OUT.exists() or OUT.read_text() != src:
        OUT.write_text(src)
    return a


if __name__ == "__main__":
    print(generate())
