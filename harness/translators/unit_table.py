"""Translator: openpectus/lang/exec/units.py (+ the pint registry it builds) -> lean/OPM/Gen/UnitTable.lean

What is read from the code on every run
  * QUANTITY_UNIT_MAP  (quantity name -> unit names, in insertion order)   -> rows
  * QUANTITY_PINT_MAP  keys                                               -> pintKeys
  * for every unit name, what `ureg` (the Decimal registry of units.py) makes of it:
      - the pint UnitsContainer (canonical id: two names with equal containers are the *same* pint unit),
      - its dimensionality id, its root-unit container,
      - for non-multiplicative (offset) units the OffsetConverter parameters (Decimal scale/offset) and the
        reference container,
      - the Decimal conversion factor pint uses between any two containers of equal dimensionality
        (`ureg._get_conversion_factor`; these are the *rounded* 28-digit factors the code really multiplies with)
  * the exact physical definition of every unit (scale, offset as exact rationals), obtained from a second pint
    registry with `non_int_type=Fraction` that receives the same `ureg.define(...)` lines as units.py
    (taken from the module source by `ast`).  These are the reference ("spec") values of the theorems.

The Lean theorems about the table (`decide +kernel`) and the correspondence are re-checked against this file.
"""
from __future__ import annotations

import ast
import inspect
from decimal import Decimal
from fractions import Fraction
from pathlib import Path

ROOT = Path(__file__).resolve().parents[2]
from vp import core as _core  # the Lean project this run works in (private copy for scratch trees)
OUT = _core.LEAN / "OPM" / "Gen" / "UnitTable.lean"


def _lean_str(s: str) -> str:
    return '"' + s.replace("\\", "\\\\").replace('"', '\\"') + '"'


def _rat(x) -> str:
    f = Fraction(x)
    return f"(mkRat ({f.numerator}) {f.denominator})"


def _defines_from_source(mod) -> list[str]:
    tree = ast.parse(inspect.getsource(mod))
    out = []
    for node in tree.body:  # module level only
        if isinstance(node, ast.Expr) and isinstance(node.value, ast.Call):
            c = node.value
            if (isinstance(c.func, ast.Attribute) and c.func.attr == "define"
                    and isinstance(c.func.value, ast.Name) and c.func.value.id == "ureg"
                    and len(c.args) == 1 and isinstance(c.args[0], ast.Constant) and isinstance(c.args[0].value, str)):
                out.append(c.args[0].value)
    return out


def collect() -> dict:
    """Everything the Lean table contains, as plain Python data (also used by props/C21.py for its evidence)."""
    import pint
    from openpectus.lang.exec import units as U
    ureg = U.ureg
    exact = pint.UnitRegistry(non_int_type=Fraction)
    # the string preprocessors units.py installs (e.g. for 'mol%') apply to the exact registry as well; pint's own
    # ones ('%' -> ' percent ' …) are idempotent, so running them twice is harmless
    exact.preprocessors = list(U.ureg.preprocessors) + list(exact.preprocessors)
    for d in _defines_from_source(U):
        exact.define(d)

    containers: list = []
    dims: list = []

    def cid(c) -> int:
        for i, k in enumerate(containers):
            if k == c:
                return i
        containers.append(c)
        return len(containers) - 1

    def did(d) -> int:
        for i, k in enumerate(dims):
            if k == d:
                return i
        dims.append(d)
        return len(dims) - 1

    rows = []
    for quantity, names in U.QUANTITY_UNIT_MAP.items():
        for name in names:
            row = {"name": name, "quantity": quantity, "scale": Fraction(1), "offset": Fraction(0), "pint": None}
            try:
                uc = ureg.Unit(name)._units
            except Exception:
                rows.append(row)  # pint cannot parse the name (e.g. 'CV'); only ever compared with itself
                continue
            off_unit = ureg._validate_and_extract(uc)
            offs = None
            ref = uc
            if off_unit is not None:
                conv = ureg._units[off_unit].converter
                offs = (Fraction(Decimal(conv.scale)), Fraction(Decimal(conv.offset)))
                ref = ureg._add_ref_of_log_or_offset_unit(off_unit, uc.remove([off_unit]))
            _, root = ureg._get_root_units(uc, check_nonmult=False)
            row["pint"] = {"canon": cid(uc), "dim": did(ureg._get_dimensionality(uc)), "offs": offs,
                           "ref": cid(ref), "root": cid(root)}
            q0 = exact.Quantity(Fraction(0), name).to_root_units().magnitude
            q1 = exact.Quantity(Fraction(1), name).to_root_units().magnitude
            row["offset"], row["scale"] = Fraction(q0), Fraction(q1) - Fraction(q0)
            rows.append(row)
    cdims = [did(ureg._get_dimensionality(c)) for c in containers]
    factors = []
    for i, ci in enumerate(containers):
        for j, cj in enumerate(containers):
            if cdims[i] != cdims[j]:
                continue
            if ureg._validate_and_extract(ci) is not None or ureg._validate_and_extract(cj) is not None:
                continue  # factors are only ever taken between multiplicative containers
            f = ureg._get_conversion_factor(ci, cj)
            if isinstance(f, Exception):
                continue
            factors.append((i, j, Fraction(Decimal(str(f)))))
    return {"rows": rows, "pint_keys": list(U.QUANTITY_PINT_MAP.keys()), "factors": factors,
            "containers": [str(dict(c)) for c in containers], "dims": [str(d) for d in dims]}


def render(t: dict) -> str:
    L = ["/- GENERATED by harness/translators/unit_table.py from openpectus/lang/exec/units.py and its pint registry.",
         "   Do not edit; regenerated on every run of the C21 / C19 checks. -/",
         "import OPM.Model.Units",
         "namespace OPM.Gen",
         "open OPM.Units",
         "",
         "def unitRows : List UnitRow := ["]
    rl = []
    for r in t["rows"]:
        if r["pint"] is None:
            pu = "none"
        else:
            p = r["pint"]
            offs = "none" if p["offs"] is None else f"(some ({_rat(p['offs'][0])}, {_rat(p['offs'][1])}))"
            pu = f"(some ⟨{p['canon']}, {p['dim']}, {offs}, {p['ref']}, {p['root']}⟩)"
        rl.append(f"  ⟨{_lean_str(r['name'])}, {_lean_str(r['quantity'])}, {_rat(r['scale'])}, {_rat(r['offset'])}, {pu}⟩")
    L.append(",\n".join(rl) + "]")
    L.append("")
    L.append("def pintKeys : List String := [" + ", ".join(_lean_str(k) for k in t["pint_keys"]) + "]")
    L.append("")
    L.append("def factors : List ((Nat × Nat) × Rat) := [")
    L.append(",\n".join(f"  (({i}, {j}), {_rat(f)})" for i, j, f in t["factors"]) + "]")
    L.append("")
    L.append("def unitSys : UnitSys := ⟨unitRows, pintKeys, factors⟩")
    L.append("")
    L.append("end OPM.Gen")
    return "\n".join(L) + "\n"


def generate() -> dict:
    t = collect()
    text = render(t)
    OUT.parent.mkdir(parents=True, exist_ok=True)
    if not OUT.exists() or OUT.read_text() != text:
        tmp = OUT.with_suffix(".lean.tmp")
        tmp.write_text(text)
        tmp.replace(OUT)
    return t


if __name__ == "__main__":
    d = generate()
    print(f"{OUT}: {len(d['rows'])} units, {len(d['factors'])} factors, {len(d['containers'])} pint containers")
