"""Translator for C13: regenerates lean/OPM/Gen/TickTable.lean from the source (AST) of
Engine.tick, Engine.read_process_image, Engine.write_process_image, Engine.set_error_state,
Engine._apply_safe_state, EventEmitter.emit_on_method_error and PInterpreter.visit.

Tables
* `allCalls`   — EVERY call expression of those Engine functions (whatever the callee looks like:
                 `self.…`, `tag.set_value`, `logger.error`, `register_values.append`, calls in `for`/`if`
                 heads, in comprehensions, in handler bodies), in evaluation order, with the exception
                 classes of the `try` bodies that enclose it and whether it sits inside an `except` body
                 (where the handlers of that same `try` do not protect it).
* `tickPhases` — the calls of one tick in source order, `read_process_image`/`write_process_image`
                 inlined: callee, guard condition of the enclosing `if`s, enclosing catches, what the
                 innermost handler does (`set_error_state` unconditionally as last statement / only
                 `if not self.has_error_state()` / something else) and whether it `return`s.
                 Pure container/builtin/logging calls are not phases (the Lean side checks that no call
                 that may raise is missing from the phases).
* `setErrorCalls` — callees of `set_error_state` in source order (the model's handler mirrors it).
* `emitSwallows`  — every listener call of `emit_on_method_error` is inside `try/except Exception`
                 whose handler only logs.
* `visitWrapperMarksFailed` — the wrapper `PInterpreter.visit` turns any Exception of an instruction
                 into `node.failed = True; _last_error = ex, node`."""
from __future__ import annotations

import ast
from pathlib import Path

from vp import core

OUT = core.LEAN / "OPM" / "Gen" / "TickTable.lean"

# calls that are not phases of the model: containers / builtins / logging (classified again, explicitly, in Lean)
STRUCTURAL_SUFFIX = (".values", ".append", ".keys", ".items")
STRUCTURAL_NAMES = ("enumerate", "isinstance", "len", "str", "list", "range")
STRUCTURAL_PREFIX = ("logger.", "frontend_logger.")
INLINED = {"self.read_process_image": "read", "self.write_process_image": "write"}

# Conditions are compared in a canonical form in which the run-state flags of the engine are written by ROLE
# (`flag:started`, `flag:paused`, `flag:holding`, `flag:stopping`), whatever the attributes are called on this tree
# (role discovery: harness/runstate.py), so a consistent rename of the flags does not change the tables.
COND_TOKENS = {
    "": "always",
    "not self._running": "notRunning",
    "flag:started": "started",
    "flag:started and (not flag:paused) and (not flag:holding) and (not flag:stopping)": "runnable",
    # write_process_image(force=False): `if not started and not force: return` in front of everything else
    "not (not flag:started and (not force))": "started",
    # per-register option (the conversion callback is called for the registers that declare one)
    "'to_tag' in r.options": "always",
}


def canonical_cond(text: str) -> str:
    import re
    from harness import runstate as RS
    for role, attr in RS.roles().items():
        if role in ("started", "paused", "holding", "stopping"):
            text = re.sub(r"\bself\." + re.escape(attr) + r"\b", "flag:" + role, text)
    return text


def dotted(n: ast.AST) -> str:
    if isinstance(n, ast.Attribute):
        return dotted(n.value) + "." + n.attr
    if isinstance(n, ast.Name):
        return n.id
    if isinstance(n, ast.Call):
        return dotted(n.func) + "()"
    if isinstance(n, ast.Subscript):
        return dotted(n.value) + "[]"
    return type(n).__name__


def handler_types(h: ast.ExceptHandler) -> list[str]:
    if h.type is None:
        return ["BaseException"]
    if isinstance(h.type, ast.Tuple):
        return [dotted(e) for e in h.type.elts]
    return [dotted(h.type)]


def calls_in_order(node: ast.AST) -> list[ast.Call]:
    """Call expressions below `node` in evaluation order (arguments before the call itself)."""
    out: list[ast.Call] = []

    def visit(n: ast.AST):
        for c in ast.iter_child_nodes(n):
            visit(c)
        if isinstance(n, ast.Call):
            out.append(n)
    visit(node)
    return out


def is_structural(name: str) -> bool:
    return name.endswith(STRUCTURAL_SUFFIX) or name in STRUCTURAL_NAMES or name.startswith(STRUCTURAL_PREFIX)


def handler_kind(h: ast.ExceptHandler) -> tuple[str, bool]:
    """(kind, returns): what the handler body does.
    setError       — last statement (before an optional `return`) is `self.set_error_state(<exc>)`, every other
                     call in the body is logging;
    setErrorIfNone — `if not self.has_error_state(): …; self.set_error_state(<exc>)` (then an optional `return`);
    other          — anything else."""
    body = list(h.body)
    returns = False
    if body and isinstance(body[-1], ast.Return) and body[-1].value is None:
        returns = True
        body = body[:-1]
    if not body:
        return "other", returns

    def is_set_error(st: ast.stmt) -> bool:
        return (isinstance(st, ast.Expr) and isinstance(st.value, ast.Call)
                and dotted(st.value.func) == "self.set_error_state" and len(st.value.args) == 1
                and isinstance(st.value.args[0], ast.Name) and st.value.args[0].id == h.name)

    def only_logging(stmts: list[ast.stmt]) -> bool:
        return all(is_structural(dotted(c.func)) for st in stmts for c in calls_in_order(st))

    if is_set_error(body[-1]) and only_logging(body[:-1]):
        return "setError", returns
    if len(body) == 1 and isinstance(body[0], ast.If) and not body[0].orelse \
            and ast.unparse(body[0].test) == "not self.has_error_state()" \
            and body[0].body and is_set_error(body[0].body[-1]) and only_logging(body[0].body[:-1]):
        return "setErrorIfNone", returns
    return "other", returns


INLINE_DEPTH = 3


def body_without_docstring(fn: ast.FunctionDef) -> list[ast.stmt]:
    body = list(fn.body)
    if body and isinstance(body[0], ast.Expr) and isinstance(body[0].value, ast.Constant) and isinstance(body[0].value.value, str):
        body = body[1:]
    return body


class FnTables:
    """Calls and phases of one function.  Private helpers of the same class that the function calls directly
    (`self._name(…)`, defined in `helpers`) are inlined, transitively up to INLINE_DEPTH: a helper whose body is a
    single `return <expr>` stands for that expression (in a condition, too); a helper called as a statement stands
    for its body — its try/except structure becomes phases of the caller with their guards and handlers in place
    (only when it contains no `return`; otherwise the call stays a call of its own and the Lean side, which does not
    know the callee, rejects the table).  The phase table therefore does not depend on how the tick is cut into
    private helper methods."""

    def __init__(self, fn_name: str, fn: ast.FunctionDef, helpers: dict[str, ast.FunctionDef] | None = None):
        self.fn_name = fn_name
        self.helpers = helpers or {}
        self._stack: list[str] = [fn.name]        # helpers being inlined (cycle guard)
        self.calls: list[tuple[str, str, list[str], bool]] = []       # fn, callee, catches, inHandler
        self.phases: list[dict] = []
        self._walk(fn.body, [], False, [], ("none", False), 0)

    # -- inlining of private helpers
    def _helper(self, call: ast.AST) -> ast.FunctionDef | None:
        if isinstance(call, ast.Call) and isinstance(call.func, ast.Attribute) and isinstance(call.func.value, ast.Name) \
                and call.func.value.id == "self" and call.func.attr.startswith("_") and not call.func.attr.startswith("__") \
                and call.func.attr not in self._stack:
            return self.helpers.get(call.func.attr)
        return None

    def _expr_helper(self, call: ast.AST) -> ast.expr | None:
        """the expression a call of a single-`return` helper stands for"""
        h = self._helper(call)
        if h is not None:
            body = body_without_docstring(h)
            if len(body) == 1 and isinstance(body[0], ast.Return) and body[0].value is not None:
                return body[0].value
        return None

    def _stmt_helper(self, st: ast.stmt) -> list[ast.stmt] | None:
        """the statements a statement-level call of a helper without `return` stands for"""
        if isinstance(st, ast.Expr):
            h = self._helper(st.value)
            if h is not None and not any(isinstance(n, (ast.Return, ast.Yield, ast.YieldFrom)) for n in ast.walk(h)):
                return body_without_docstring(h)
        return None

    def _subst(self, e: ast.expr, depth: int) -> ast.expr:
        """`e` with calls of single-`return` helpers replaced by their expression"""
        if depth >= INLINE_DEPTH:
            return e
        tables = self

        class T(ast.NodeTransformer):
            def visit_Call(self, node):
                node = self.generic_visit(node)
                r = tables._expr_helper(node)
                if r is None:
                    return node
                tables._stack.append(node.func.attr)
                try:
                    return tables._subst(r, depth + 1)
                finally:
                    tables._stack.pop()
        import copy
        return T().visit(copy.deepcopy(e))

    def _record(self, node: ast.AST, catches: list[str], in_handler: bool, conds: list[str], hk: tuple[str, bool],
                depth: int = 0):
        if isinstance(node, ast.expr):
            node = self._subst(node, depth)
        elif isinstance(node, ast.stmt):
            import copy
            node = copy.deepcopy(node)
            for field, value in ast.iter_fields(node):
                if isinstance(value, ast.expr):
                    setattr(node, field, self._subst(value, depth))
        for c in calls_in_order(node):
            name = dotted(c.func)
            self.calls.append((self.fn_name, name, list(catches), in_handler))
            if in_handler or is_structural(name):
                continue
            self.phases.append({"fn": self.fn_name, "callee": name, "cond": " and ".join(conds), "catches": list(catches),
                                "handler": hk[0] if catches else "none", "returns": hk[1] if catches else False,
                                "nargs": len(c.args) + len(c.keywords)})

    def _walk(self, stmts: list[ast.stmt], catches: list[str], in_handler: bool, conds: list[str], hk: tuple[str, bool],
              depth: int = 0):
        conds = list(conds)
        for st in stmts:
            inl = self._stmt_helper(st) if depth < INLINE_DEPTH else None
            if inl is not None:
                for arg in list(st.value.args) + [k.value for k in st.value.keywords]:      # arguments are evaluated first
                    self._record(arg, catches, in_handler, conds, hk, depth)
                self._stack.append(st.value.func.attr)
                try:
                    self._walk(inl, catches, in_handler, conds, hk, depth + 1)
                finally:
                    self._stack.pop()
            elif isinstance(st, ast.Try):
                types: list[str] = []
                kinds: list[tuple[str, bool]] = []
                for h in st.handlers:
                    types += handler_types(h)
                    kinds.append(handler_kind(h))
                # one kind for the try: all handlers agree, else `other`
                kind = kinds[0] if kinds and all(k == kinds[0] for k in kinds) else ("other", False)
                if catches:      # a try nested in a try: not a shape the model knows
                    kind = ("other", False)
                self._walk(st.body, types + catches, in_handler, conds, kind, depth)
                for h in st.handlers:
                    self._walk(h.body, catches, True, conds, hk, depth)
                self._walk(st.orelse, catches, in_handler, conds, hk, depth)
                self._walk(st.finalbody, catches, in_handler, conds, hk, depth)
            elif isinstance(st, ast.If):
                test = self._subst(st.test, depth)
                self._record(test, catches, in_handler, conds, hk, INLINE_DEPTH)
                t = ast.unparse(test)
                if not st.orelse and len(st.body) == 1 and isinstance(st.body[0], ast.Return):
                    conds.append(f"not ({t})")          # early return: everything after runs under the negation
                    continue
                self._walk(st.body, catches, in_handler, conds + [t], hk, depth)
                self._walk(st.orelse, catches, in_handler, conds + [f"not ({t})"], hk, depth)
            elif isinstance(st, (ast.For, ast.While)):
                self._record(st.iter if isinstance(st, ast.For) else st.test, catches, in_handler, conds, hk, depth)
                self._walk(st.body, catches, in_handler, conds, hk, depth)
                self._walk(st.orelse, catches, in_handler, conds, hk, depth)
            elif isinstance(st, ast.With):
                for it in st.items:
                    self._record(it.context_expr, catches, in_handler, conds, hk, depth)
                self._walk(st.body, catches, in_handler, conds, hk, depth)
            else:
                self._record(st, catches, in_handler, conds, hk, depth)


def class_methods(tree: ast.Module, cls: str) -> dict[str, ast.FunctionDef]:
    for n in tree.body:
        if isinstance(n, ast.ClassDef) and n.name == cls:
            return {m.name: m for m in n.body if isinstance(m, ast.FunctionDef)}
    raise KeyError(cls)


def find_method(tree: ast.Module, cls: str, name: str) -> ast.FunctionDef:
    for n in tree.body:
        if isinstance(n, ast.ClassDef) and n.name == cls:
            for m in n.body:
                if isinstance(m, ast.FunctionDef) and m.name == name:
                    return m
    raise KeyError(f"{cls}.{name}")


def lean_str(s: str) -> str:
    return '"' + s.replace("\\", "\\\\").replace('"', '\\"') + '"'


_CACHE: dict = {}


def tables() -> dict:
    import openpectus
    root = Path(openpectus.__file__).resolve().parent
    if root not in _CACHE:
        _CACHE[root] = _tables(root)
    return _CACHE[root]


def _tables(root: Path) -> dict:
    eng = ast.parse((root / "engine/engine.py").read_text())
    interp = ast.parse((root / "lang/exec/pinterpreter.py").read_text())
    events = ast.parse((root / "lang/exec/events.py").read_text())
    methods = class_methods(eng, "Engine")
    # (private helpers are inlined into the tick, the process-image functions and set_error_state, and attributed to
    #  them; `_apply_safe_state` is a table of its own)
    helpers = {k: v for k, v in methods.items() if k != "_apply_safe_state"}
    fns = {name: FnTables(name, methods[py], helpers if name != "apply_safe_state" else None) for name, py in [
        ("tick", "tick"), ("read", "read_process_image"), ("write", "write_process_image"),
        ("set_error_state", "set_error_state"), ("apply_safe_state", "_apply_safe_state")]}
    # flatten: the calls `self.read_process_image()` / `self.write_process_image()` of the tick are replaced by the
    # phases of those functions (only when called without arguments, unguarded and unconditionally — otherwise
    # the call stays a phase of its own and the Lean well-formedness check rejects the table)
    phases: list[dict] = []
    for ph in fns["tick"].phases:
        sub = INLINED.get(ph["callee"])
        if sub and ph["nargs"] == 0 and not ph["catches"] and ph["cond"] == "":
            phases += fns[sub].phases
        else:
            phases.append(ph)
    all_calls = [c for f in fns.values() for c in f.calls]
    set_error_calls = [c[1] for c in fns["set_error_state"].calls if not is_structural(c[1])]

    # Is the error recorded (the attribute `has_error_state()` tests) before the first call of set_error_state that may
    # raise?  (Decides what a fault at that first call leaves behind; the order of the two is otherwise immaterial.)
    err_attr = None
    hes = methods.get("has_error_state")
    if hes is not None:
        for n in ast.walk(hes):
            if isinstance(n, ast.Compare) and isinstance(n.left, ast.Attribute) and dotted(n.left).startswith("self."):
                err_attr = n.left.attr
    records_first = False

    def flat(stmts: list[ast.stmt], depth: int):
        for st in stmts:
            inl = None
            if depth < INLINE_DEPTH and isinstance(st, ast.Expr) and isinstance(st.value, ast.Call) \
                    and dotted(st.value.func).startswith("self._") and dotted(st.value.func)[5:] in helpers:
                h = helpers[dotted(st.value.func)[5:]]
                if not any(isinstance(n, (ast.Return, ast.Yield, ast.YieldFrom)) for n in ast.walk(h)):
                    inl = body_without_docstring(h)
            if inl is not None:
                yield from flat(inl, depth + 1)
            elif isinstance(st, ast.If):
                yield st.test
                yield from flat(st.body, depth)
                yield from flat(st.orelse, depth)
            else:
                yield st
    for st in flat(methods["set_error_state"].body, 0):
        if isinstance(st, ast.Assign) and any(isinstance(t, ast.Attribute) and dotted(t) == f"self.{err_attr}" for t in st.targets):
            records_first = True
            break
        if any(not is_structural(dotted(c.func)) for c in calls_in_order(st)):
            break

    emit = find_method(events, "EventEmitter", "emit_on_method_error")
    swallows = False
    if len(emit.body) == 1 and isinstance(emit.body[0], ast.For):
        loop = emit.body[0]
        if len(loop.body) == 1 and isinstance(loop.body[0], ast.Try) and not calls_in_order(loop.iter):
            tr = loop.body[0]
            swallows = (len(tr.handlers) == 1 and handler_types(tr.handlers[0]) == ["Exception"]
                        and all(is_structural(dotted(c.func)) for s in tr.handlers[0].body for c in calls_in_order(s))
                        and not any(isinstance(n, ast.Raise) for n in ast.walk(tr.handlers[0]))
                        and not tr.orelse and not tr.finalbody)

    # the wrapper `PInterpreter.visit`: the handler for Exception around the concrete visit sets `node.failed = True`
    # and stores (exception, node) in an attribute of the interpreter that `PInterpreter.tick` reads and turns into a
    # raise — whatever that attribute is called
    visit = find_method(interp, "PInterpreter", "visit")
    itick = find_method(interp, "PInterpreter", "tick")
    read_and_raised = {n.attr for n in ast.walk(itick) if isinstance(n, ast.Attribute) and isinstance(n.ctx, ast.Load)
                       and isinstance(n.value, ast.Name) and n.value.id == "self"} \
        if any(isinstance(n, ast.Raise) for n in ast.walk(itick)) else set()
    wrapper_ok, error_attr = False, None
    for n in ast.walk(visit):
        if isinstance(n, ast.Try):
            for h in n.handlers:
                if "Exception" in handler_types(h) and h.name:
                    marks = any(isinstance(st, ast.Assign) and len(st.targets) == 1 and dotted(st.targets[0]) == "node.failed"
                                and isinstance(st.value, ast.Constant) and st.value.value is True for st in h.body)
                    stores = [st.targets[0].attr for st in h.body
                              if isinstance(st, ast.Assign) and len(st.targets) == 1 and isinstance(st.targets[0], ast.Attribute)
                              and isinstance(st.targets[0].value, ast.Name) and st.targets[0].value.id == "self"
                              and isinstance(st.value, ast.Tuple)
                              and [dotted(e) for e in st.value.elts] == [h.name, "node"]]
                    stores = [a for a in stores if a in read_and_raised]
                    if marks and stores:
                        wrapper_ok, error_attr = True, stores[0]
    return {"calls": all_calls, "phases": phases, "set_error_calls": set_error_calls, "swallows": swallows,
            "wrapper_ok": wrapper_ok, "interp_error_attr": error_attr, "records_first": records_first}


def generate() -> Path:
    t = tables()
    lines = ["/- GENERATED by harness/translators/tick_table.py from openpectus/engine/engine.py,",
             "   openpectus/lang/exec/events.py and openpectus/lang/exec/pinterpreter.py — do not edit. -/",
             "namespace OPM.Gen.TickTable", "",
             "/-- guard under which a statement of the tick runs -/",
             "inductive Cond where", "  | always | notRunning | started | runnable | unknown",
             "deriving Repr, DecidableEq", "",
             "/-- what the `except` bodies of the innermost enclosing `try` do -/",
             "inductive Handler where", "  | none | setError | setErrorIfNone | other",
             "deriving Repr, DecidableEq", "",
             "structure Call where", "  fn : String", "  callee : String", "  catches : List String",
             "  inHandler : Bool", "deriving Repr, DecidableEq", "",
             "structure Phase where", "  fn : String", "  callee : String", "  cond : Cond",
             "  catches : List String", "  handler : Handler", "  handlerReturns : Bool",
             "deriving Repr, DecidableEq", ""]
    lines.append("def allCalls : List Call := [")
    lines.append(",\n".join(
        f"  ⟨{lean_str(fn)}, {lean_str(c)}, [{', '.join(lean_str(x) for x in ts)}], {'true' if ih else 'false'}⟩"
        for fn, c, ts, ih in t["calls"]))
    lines.append("]\n")
    lines.append("def tickPhases : List Phase := [")
    lines.append(",\n".join(
        f"  ⟨{lean_str(p['fn'])}, {lean_str(p['callee'])}, .{COND_TOKENS.get(canonical_cond(p['cond']), 'unknown')}, "
        f"[{', '.join(lean_str(x) for x in p['catches'])}], .{p['handler']}, {'true' if p['returns'] else 'false'}⟩"
        for p in t["phases"]))
    lines.append("]\n")
    lines.append("def setErrorCalls : List String := [" + ", ".join(lean_str(c) for c in t["set_error_calls"]) + "]\n")
    lines.append("/-- `_last_error` is assigned before the first call of set_error_state that may raise -/")
    lines.append(f"def errorRecordedFirst : Bool := {'true' if t['records_first'] else 'false'}\n")
    lines.append(f"def emitSwallows : Bool := {'true' if t['swallows'] else 'false'}\n")
    lines.append(f"def visitWrapperMarksFailed : Bool := {'true' if t['wrapper_ok'] else 'false'}\n")
    lines.append("end OPM.Gen.TickTable\n")
    OUT.parent.mkdir(exist_ok=True)
    new = "\n".join(lines)
    if not OUT.exists() or OUT.read_text() != new:
        OUT.write_text(new)
    return OUT


if __name__ == "__main__":
    print(generate().read_text())
