"""Translator: protocol message classes -> lean/OPM/Gen/Schemas.lean  (property C26)

Read from the code on every run
  * the protocol namespaces, from the public surface: the modules in which the `MessageBase` subclasses that exist
    after importing `openpectus.protocol.serialization` are defined (= what `serialize()` writes as `_ns`); no
    private variable of serialization.py is read
  * every attribute of those namespaces that `deserialize` would accept as `_type`: classes that are
    subclasses of `MessageBase` (including aliases such as `AM.SuccessMessage = Msg.SuccessMessage`)
  * for each such class and every pydantic model reachable from its fields: `model_fields` (annotation,
    default / default_factory, constraints) and the parts of `model_config` and of the decorators that would
    change validation or serialization.
Unmodelled *constructs* (validators, serializers, aliases, `exclude`, non-default `model_config`) are emitted as
`Ty.unsupported "..."`, which makes the table theorem `rt` fail (the proof half breaks -> failing-input search).
A field *type* the model does not cover (datetime, bytes, Decimal, frozenset, a union with a tuple/model/enum member,
an unknown constraint ...) is emitted as `Ty.opaqueTy "..."`: no value of it is `wellTyped` in the model, so the
theorems simply do not speak about messages that contain such a field; `opaque_fields()` reports them and
props/C26.py checks those classes with the real code only (the field at its default), with a note in the evidence.
"""
from __future__ import annotations

import enum
import inspect
import types
import typing
from pathlib import Path

ROOT = Path(__file__).resolve().parents[2]
from vp import core as _core  # the Lean project this run works in (private copy for scratch trees)
OUT = _core.LEAN / "OPM" / "Gen" / "Schemas.lean"


def lean_str(s: str) -> str:
    out = ['"']
    for ch in s:
        o = ord(ch)
        if ch == '"':
            out.append('\\"')
        elif ch == "\\":
            out.append("\\\\")
        elif 32 <= o < 127:
            out.append(ch)
        else:
            out.append("\\u{%x}" % o)
    out.append('"')
    return "".join(out)


def lean_int(i: int) -> str:
    return f"({i})"


def flt_term(x: float) -> str:
    if x != x:
        return ".nan"
    if x == float("inf"):
        return ".pinf"
    if x == float("-inf"):
        return ".ninf"
    n, d = x.as_integer_ratio()
    return f"(.fin ({n}) {d.bit_length() - 1})"


class Unsupported(Exception):
    pass


def val_term(v) -> str:
    """Lean `Val` term of a Python value (runtime-type driven, like the encoder)."""
    from pydantic import BaseModel
    if v is None:
        return ".none"
    if isinstance(v, bool):
        return f"(.bool {'true' if v else 'false'})"
    if isinstance(v, enum.Enum):
        if not isinstance(v.value, str):
            raise Unsupported(f"enum value {v!r}")
        return f"(.enm {lean_str(v.value)})"
    if isinstance(v, int):
        return f"(.int {lean_int(v)})"
    if isinstance(v, float):
        return f"(.flt {flt_term(v)})"
    if isinstance(v, str):
        return f"(.str {lean_str(v)})"
    if isinstance(v, (list, tuple)):
        t = ".lnil"
        for x in reversed(v):
            t = f"(.lcons {val_term(x)} {t})"
        return f"(.tup {t})" if isinstance(v, tuple) else t
    if isinstance(v, (set, frozenset)):
        if not all(isinstance(x, str) for x in v):
            raise Unsupported("set of non-str")
        return "(.set [" + ", ".join(lean_str(x) for x in sorted(v)) + "])"
    if isinstance(v, dict):
        t = ".dnil"
        for k, x in reversed(list(v.items())):
            t = f"(.dcons {key_term(k)} {val_term(x)} {t})"
        return t
    if isinstance(v, BaseModel):
        t = ".fnil"
        for name in reversed(list(type(v).model_fields)):
            t = f"(.fcons {lean_str(name)} {val_term(getattr(v, name))} {t})"
        return f"(.obj {lean_str(type(v).__module__)} {lean_str(type(v).__qualname__)} {t})"
    raise Unsupported(f"value of type {type(v).__name__}")


def key_term(k) -> str:
    if isinstance(k, bool):
        raise Unsupported("bool key")
    if isinstance(k, str):
        return f"(.str {lean_str(k)})"
    if isinstance(k, int):
        return f"(.int {lean_int(k)})"
    if isinstance(k, float):
        return f"(.flt {flt_term(k)})"
    raise Unsupported(f"key of type {type(k).__name__}")


class Collector:
    def __init__(self):
        self.models: dict[type, str] = {}      # class -> lean identifier stem
        self.defs: list[str] = []              # lean definitions in dependency order
        self.in_progress: set[type] = set()
        self.opaque: dict[type, dict[str, str]] = {}     # model class -> {field name: why}
        self._why: list[str] = []                        # opaque reasons met while translating the current field

    def _opaque(self, why: str) -> str:
        self._why.append(why)
        return f"(.opaqueTy {lean_str(why[:160])})"

    def exact_ok(self, ann, metadata=()) -> bool:
        """Python mirror of OPM.Proto.exactOk: what may stand inside a (smart) union in the model."""
        import annotated_types as at
        origin, args = typing.get_origin(ann), typing.get_args(ann)
        if origin is typing.Annotated:
            return self.exact_ok(args[0], tuple(args[1:]) + tuple(metadata))
        if metadata:
            return ann is int and len(metadata) == 1 and isinstance(metadata[0], at.Ge) and metadata[0].ge == 0
        if ann in (int, str, bool, float, type(None), None):
            return True
        if origin is typing.Literal:
            return all(isinstance(a, str) for a in args)
        if origin in (typing.Union, types.UnionType):
            return all(self.exact_ok(a) for a in args)
        if origin is list and len(args) == 1:
            return self.exact_ok(args[0])
        if origin is dict and len(args) == 2:
            kinds = self.key_kinds(args[0])
            return kinds is not None and ".str" in kinds and self.exact_ok(args[1])
        return False

    # -- types ---------------------------------------------------------------------------
    def ty(self, ann, metadata=()) -> str:
        from pydantic import BaseModel
        import annotated_types as at
        origin = typing.get_origin(ann)
        args = typing.get_args(ann)
        if origin is typing.Annotated:
            return self.ty(args[0], tuple(args[1:]) + tuple(metadata))
        if metadata:
            if ann is int and len(metadata) == 1 and isinstance(metadata[0], at.Ge) and metadata[0].ge == 0:
                return ".nnint"
            return self._opaque('constraint ' + repr(metadata) + ' on ' + repr(ann))
        if ann is int:
            return ".int"
        if ann is str:
            return ".str"
        if ann is bool:
            return ".bool"
        if ann is float:
            return ".float"
        if ann is type(None) or ann is None:
            return ".none"
        if origin is typing.Literal:
            if all(isinstance(a, str) for a in args):
                return "(.lit [" + ", ".join(lean_str(a) for a in args) + "])"
            return self._opaque('literal ' + repr(ann))
        if origin in (typing.Union, types.UnionType):
            if not all(self.exact_ok(a) for a in args):
                return self._opaque('union with a member that pydantic cannot match exactly from JSON: ' + repr(ann))
            terms = [self.ty(a) for a in args]
            t = terms[-1]
            for x in reversed(terms[:-1]):
                t = f"(.union {x} {t})"
            return t
        if origin is list and len(args) == 1:
            return f"(.list {self.ty(args[0])})"
        if origin in (set, frozenset) and args == (str,) and origin is set:
            return ".setStr"
        if origin is tuple and args:
            if len(args) == 2 and args[1] is Ellipsis:
                return f"(.tupleVar {self.ty(args[0])})"
            if Ellipsis not in args and args != ((),):
                t = ".tnil"
                for a in reversed(args):
                    t = f"(.tcons {self.ty(a)} {t})"
                return f"(.tuple {t})"
        if origin is dict and len(args) == 2:
            kinds = self.key_kinds(args[0])
            if kinds is None:
                return self._opaque('dict key type ' + repr(args[0]))
            return f"(.dict [{', '.join(kinds)}] {self.ty(args[1])})"
        if inspect.isclass(ann) and issubclass(ann, enum.Enum):
            if issubclass(ann, str) and all(isinstance(m.value, str) for m in ann):
                return "(.enm [" + ", ".join(lean_str(m.value) for m in ann) + "])"
            return self._opaque('enum ' + ann.__qualname__)
        if inspect.isclass(ann) and issubclass(ann, BaseModel):
            stem = self.model(ann)
            if ann in self.opaque:
                self._why.append(f"nested model {ann.__qualname__} has fields of unmodelled type")
            return "M_" + stem
        return self._opaque(repr(ann))

    def key_kinds(self, ann) -> list[str] | None:
        origin = typing.get_origin(ann)
        members = typing.get_args(ann) if origin in (typing.Union, types.UnionType) else (ann,)
        names = {str: ".str", int: ".int", float: ".flt"}
        out = []
        for m in members:
            if m not in names:
                return None
            out.append(names[m])
        return out

    # -- models --------------------------------------------------------------------------
    def model_problems(self, cls) -> list[str]:
        probs = []
        cfg = dict(cls.model_config)
        for k, v in cfg.items():
            if k == "from_attributes":
                continue
            if k == "extra" and v in (None, "ignore"):
                continue
            probs.append(f"model_config {k}={v!r}")
        dec = cls.__pydantic_decorators__
        for kind in ("validators", "field_validators", "root_validators", "field_serializers",
                     "model_serializers", "model_validators", "computed_fields"):
            if getattr(dec, kind, None):
                probs.append(f"{kind}: {sorted(getattr(dec, kind))}")
        if getattr(cls, "__pydantic_root_model__", False):
            probs.append("root model")
        return probs

    def model(self, cls) -> str:
        if cls in self.models:
            return self.models[cls]
        stem = (cls.__module__.split(".")[-1] + "_" + cls.__qualname__).replace(".", "_")
        if cls in self.in_progress:
            raise Unsupported(f"recursive model {cls.__qualname__}")
        self.in_progress.add(cls)
        fields = ".fnil"
        probs = self.model_problems(cls)
        for name, f in reversed(list(cls.model_fields.items())):
            saved, self._why = self._why, []
            t = self.ty(f.annotation, tuple(f.metadata))
            if self._why:
                self.opaque.setdefault(cls, {})[name] = "; ".join(self._why)
            self._why = saved
            if f.alias is not None or f.validation_alias is not None or f.serialization_alias is not None:
                t = f"(.unsupported {lean_str('alias on ' + name)})"
            if f.exclude:
                t = f"(.unsupported {lean_str('excluded field ' + name)})"
            fields = f"(.fcons {lean_str(name)} {t} {self.default(f)} {fields})"
        if probs:
            fields = f"(.fcons \"?\" (.unsupported {lean_str('; '.join(probs))}) .required {fields})"
        self.in_progress.discard(cls)
        self.models[cls] = stem
        self.defs.append(f"def F_{stem} : Ty :=\n  {fields}\n"
                         f"def M_{stem} : Ty := .model {lean_str(cls.__module__)} {lean_str(cls.__qualname__)} F_{stem}\n")
        return stem

    def default(self, f) -> str:
        from pydantic import BaseModel
        from pydantic_core import PydanticUndefined
        if f.is_required():
            return ".required"
        try:
            if f.default_factory is not None:
                fac = f.default_factory
                if fac in (list, dict) or (inspect.isclass(fac) and issubclass(fac, BaseModel)):
                    a, b = fac(), fac()
                    if a == b:
                        return f"(.value {val_term(a)})"
                return ".dynamic"
            if f.default is PydanticUndefined:
                return ".required"
            return f"(.value {val_term(f.default)})"
        except Unsupported:
            return ".dynamic"


_ns_cache: list = []


def namespaces() -> list:
    """The protocol namespace modules, sorted by name: every module under openpectus.protocol that defines a
    MessageBase subclass (`cls.__module__`, which is what serialize() emits as `_ns`)."""
    import sys
    if _ns_cache:
        return list(_ns_cache)
    import openpectus.protocol.serialization  # noqa: F401  (imports the message modules)
    import openpectus.protocol.messages as M
    seen, todo, mods = set(), [M.MessageBase], set()
    while todo:
        c = todo.pop()
        if c in seen:
            continue
        seen.add(c)
        todo.extend(c.__subclasses__())
        if c.__module__.startswith("openpectus.protocol."):
            mods.add(c.__module__)
    _ns_cache.extend(sys.modules[m] for m in sorted(mods))
    return list(_ns_cache)


def collect():
    """(namespace names, entries, collector). entries: (ns, attr, cls or None, note)."""
    import openpectus.protocol.messages as M
    col = Collector()
    entries = []
    nss = namespaces()
    for ns in nss:
        for attr in sorted(dir(ns)):
            obj = getattr(ns, attr, None)
            if inspect.isclass(obj) and issubclass(obj, M.MessageBase):
                entries.append((ns.__name__, attr, obj, ""))
            elif inspect.isfunction(obj) or inspect.ismethod(obj):
                try:
                    sig = inspect.signature(obj)
                except (TypeError, ValueError):
                    continue
                if any(p.kind is p.VAR_KEYWORD for p in sig.parameters.values()):
                    entries.append((ns.__name__, attr, None, "callable taking **kwargs"))
    return [m.__name__ for m in nss], entries, col


def opaque_fields() -> dict[type, dict[str, str]]:
    """model class (message or nested) -> {field: why the model does not cover its type}"""
    _, entries, col = collect()
    for _, _, cls, _ in entries:
        if cls is not None:
            col.model(cls)
    return col.opaque


def message_classes() -> list[type]:
    """Distinct message classes reachable through the namespaces (used by props/C26.py)."""
    _, entries, _ = collect()
    seen, out = set(), []
    for _, _, cls, _ in entries:
        if cls is not None and cls not in seen:
            seen.add(cls)
            out.append(cls)
    return out


def generate() -> Path:
    nss, entries, col = collect()
    rows = []
    for ns, attr, cls, note in entries:
        if cls is None:
            rows.append(f"  ⟨{lean_str(ns)}, {lean_str(attr)}, {lean_str(ns)}, {lean_str(attr)}, "
                        f".fcons \"?\" (.unsupported {lean_str(note)}) .required .fnil⟩")
            continue
        stem = col.model(cls)
        rows.append(f"  ⟨{lean_str(ns)}, {lean_str(attr)}, {lean_str(cls.__module__)}, "
                    f"{lean_str(cls.__qualname__)}, F_{stem}⟩")
    src = ["import OPM.Model.Proto",
           "/-! GENERATED by harness/translators/schemas.py from the pydantic `model_fields` of every",
           "`MessageBase` subclass reachable through the protocol namespaces. Do not edit. -/",
           "namespace OPM.Gen.Schemas", "open OPM.Proto", "",
           "def nss : List String := [" + ", ".join(lean_str(n) for n in nss) + "]", ""]
    src += col.defs
    src += ["def registry : List Entry := [", ",\n".join(rows), "]", "", "end OPM.Gen.Schemas", ""]
    text = "\n".join(src)
    if not OUT.exists() or OUT.read_text() != text:
        OUT.parent.mkdir(parents=True, exist_ok=True)
        OUT.write_text(text)
    return OUT


if __name__ == "__main__":
    print(generate())
