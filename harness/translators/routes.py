"""Translator: the aggregator's route table -> lean/OPM/Gen/Routes.lean  (property C32)

Read from the code on every run
  * `AggregatorServer().fastapi.routes` (FastAPI introspection): path, methods, endpoint function, websocket routes
  * the source of every endpoint (`ast`): which of its parameters name a unit (`unit_id`, `engine_id`) or a run
    (`run_id`), whether and where it calls a *role guard* (a module-level function that takes `user_roles`, calls
    `has_access(x, user_roles)` and raises 403), whether that call comes before every other access to unit / run data
    (`agg.…(…)`, repository method calls, unguarded look-up helpers), and for listings whether every element is
    filtered by `has_access(x, user_roles)`.
  * the LSP websocket endpoint is recognised by its use of `OPPythonLSPServer`; its unit is the `engineId`
    initialisation option and it reads unit data through `openpectus.lsp.lsp_analysis.fetch_*` (checked by `ast`:
    those functions call `get_registered_engine_data` and never `has_access`).
"""
from __future__ import annotations

import ast
import inspect
import re
import textwrap
from pathlib import Path

ROOT = Path(__file__).resolve().parents[2]
OUT = ROOT / "lean" / "OPM" / "Gen" / "Routes.lean"

UNIT_PARAMS = ("unit_id", "engine_id")
RUN_PARAMS = ("run_id",)


def _lean_str(s: str) -> str:
    return '"' + s.replace("\\", "\\\\").replace('"', '\\"') + '"'


def _fn_ast(fn) -> ast.AST | None:
    try:
        src = textwrap.dedent(inspect.getsource(fn))
    except (OSError, TypeError):
        return None
    tree = ast.parse(src)
    return tree.body[0] if tree.body else None


def _calls(node: ast.AST):
    """All Call nodes below `node` in source order."""
    cs = [n for n in ast.walk(node) if isinstance(n, ast.Call)]
    return sorted(cs, key=lambda n: (n.lineno, n.col_offset))


def _root_name(expr: ast.AST) -> str | None:
    while isinstance(expr, (ast.Attribute, ast.Call, ast.Subscript)):
        expr = expr.func if isinstance(expr, ast.Call) else expr.value
    return expr.id if isinstance(expr, ast.Name) else None


def _is_has_access_call(c: ast.Call) -> bool:
    return isinstance(c.func, ast.Name) and c.func.id == "has_access" and len(c.args) == 2 and \
        isinstance(c.args[1], ast.Name) and c.args[1].id == "user_roles"


def guard_kind(fn) -> str | None:
    """'unit' / 'run' if `fn` is a role guard: looks the object up, 404 if missing, 403 unless has_access."""
    tree = _fn_ast(fn)
    if not isinstance(tree, (ast.FunctionDef, ast.AsyncFunctionDef)):
        return None
    if "user_roles" not in [a.arg for a in tree.args.args]:
        return None
    raises_403 = False
    for n in ast.walk(tree):
        if isinstance(n, ast.If) and isinstance(n.test, ast.UnaryOp) and isinstance(n.test.op, ast.Not) and \
                isinstance(n.test.operand, ast.Call) and _is_has_access_call(n.test.operand):
            for st in n.body:
                if isinstance(st, ast.Raise) and isinstance(st.exc, ast.Call):
                    txt = ast.unparse(st.exc)
                    if "HTTPException" in txt and ("HTTP_403_FORBIDDEN" in txt or "403" in txt):
                        raises_403 = True
    if not raises_403:
        return None
    src = ast.unparse(tree)
    if "get_registered_engine_data" in src:
        return "unit"
    if "get_by_run_id" in src:
        return "run"
    return None


def unguarded_lookup(fn) -> bool:
    """module-level helper that reads unit data without looking at roles (lsp.get_registered_engine_data_or_fail)."""
    tree = _fn_ast(fn)
    if not isinstance(tree, (ast.FunctionDef, ast.AsyncFunctionDef)):
        return False
    src = ast.unparse(tree)
    return ("get_registered_engine_data" in src or "get_by_run_id" in src) and "has_access" not in src


def classify(route) -> dict:
    from fastapi.routing import APIRoute, APIWebSocketRoute
    fn = getattr(route, "endpoint", None)
    mod = inspect.getmodule(fn) if fn is not None else None
    modname = getattr(mod, "__name__", "") or ""
    row = dict(path=getattr(route, "path", ""), method="WS" if isinstance(route, APIWebSocketRoute) else
               ",".join(sorted(getattr(route, "methods", None) or [])) or "-",
               handler=getattr(fn, "__qualname__", "") or "", router=modname.split(".")[-1],
               target="none", guard="none", touches=False, command=False, note="")
    if not isinstance(route, (APIRoute, APIWebSocketRoute)) or not modname.startswith("openpectus.aggregator.routers"):
        return row
    tree = _fn_ast(fn)
    if tree is None:
        row["note"] = "no source"
        return row
    path_params = re.findall(r"{(\w+)}", row["path"])
    if any(p in UNIT_PARAMS for p in path_params):
        row["target"] = "unit"
    elif any(p in RUN_PARAMS for p in path_params):
        row["target"] = "run"
    row["command"] = "POST" in row["method"]
    src = ast.unparse(tree)

    # LSP websocket: the unit comes from the `engineId` initialisation option
    if isinstance(route, APIWebSocketRoute) and "OPPythonLSPServer" in src:
        import openpectus.lsp.lsp_analysis as LA
        import openpectus.lsp.pylsp_plugin as PL
        reads = [f for f in ("fetch_uod_info", "fetch_process_value", "fetch_simulated_tags")
                 if hasattr(LA, f) and unguarded_lookup(getattr(LA, f))]
        takes = "engineId" in inspect.getsource(PL.get_engine_id)
        if takes:
            row["target"] = "unit"
        row["touches"] = bool(reads)
        row["guard"] = "none" if ("has_access" not in inspect.getsource(LA) and "user_roles" not in src) else "unknown"
        row["note"] = "unit = initializationOptions.engineId; reads via lsp_analysis." + "/".join(reads)
        return row

    repo_vars = set()
    for n in ast.walk(tree):
        if isinstance(n, ast.Assign) and isinstance(n.value, ast.Call) and "Repository" in ast.unparse(n.value.func):
            for t in n.targets:
                if isinstance(t, ast.Name):
                    repo_vars.add(t.id)
    events = []   # (position, kind)
    for c in _calls(tree):
        pos = (c.lineno, c.col_offset)
        f = c.func
        if isinstance(f, ast.Name):
            target_fn = getattr(mod, f.id, None)
            if inspect.isfunction(target_fn) and inspect.getmodule(target_fn) is mod:
                k = guard_kind(target_fn)
                if k and any(isinstance(a, ast.Name) and a.id == "user_roles" for a in c.args):
                    events.append((pos, "guard-" + k))
                    continue
                if unguarded_lookup(target_fn):
                    events.append((pos, "touch"))
                    continue
            if _is_has_access_call(c):
                events.append((pos, "has_access"))
            continue
        root = _root_name(f)
        if isinstance(f, ast.Attribute) and root == "agg":
            events.append((pos, "touch"))
        elif isinstance(f, ast.Attribute) and root in repo_vars:
            events.append((pos, "touch"))
    touches = [p for p, k in events if k == "touch"]
    guards = [(p, k) for p, k in events if k.startswith("guard-")]
    row["touches"] = bool(touches or guards)
    if row["target"] in ("unit", "run"):
        if guards:
            first_guard = min(guards)
            if all(first_guard[0] < t for t in touches):
                row["guard"] = "unitOrFail" if first_guard[1] == "guard-unit" else "runOrFail"
            else:
                row["guard"] = "none"
                row["note"] = "guard called after unit/run data was touched"
        return row
    # no path parameter: a listing?
    lists_units = "get_all_registered_engine_data" in src
    lists_recent = "get_recent_engines" in src
    lists_runs = "RecentRunRepository" in src and ".get_all()" in src
    if lists_units or lists_recent:
        row["target"] = "unitsWithRecent" if lists_recent else "unitsOnline"
    elif lists_runs:
        row["target"] = "runs"
    else:
        return row
    # every loop over a listed collection starts with `if not has_access(x, user_roles): continue`, or the
    # collection is passed through filter(lambda x: has_access(x, user_roles), ...)
    ok = True
    seen = 0
    for n in ast.walk(tree):
        if isinstance(n, ast.For):
            it = ast.unparse(n.iter)
            if it in ("all_engine_data", "recent_engines") or "get_all" in it or "get_recent_engines" in it:
                seen += 1
                first = n.body[0] if n.body else None
                good = (isinstance(first, ast.If) and isinstance(first.test, ast.UnaryOp) and
                        isinstance(first.test.op, ast.Not) and isinstance(first.test.operand, ast.Call) and
                        _is_has_access_call(first.test.operand) and
                        isinstance(first.test.operand.args[0], ast.Name) and
                        isinstance(n.target, ast.Name) and first.test.operand.args[0].id == n.target.id and
                        len(first.body) == 1 and isinstance(first.body[0], ast.Continue))
                ok = ok and good
        if isinstance(n, ast.Call) and isinstance(n.func, ast.Name) and n.func.id == "filter" and len(n.args) == 2:
            lam = n.args[0]
            if isinstance(lam, ast.Lambda) and isinstance(lam.body, ast.Call) and _is_has_access_call(lam.body) and \
                    isinstance(lam.body.args[0], ast.Name) and lam.body.args[0].id == lam.args.args[0].arg and \
                    ".get_all()" in ast.unparse(n.args[1]):
                seen += 1
    expected = (1 if lists_units else 0) + (1 if lists_recent else 0) + (1 if lists_runs else 0)
    row["guard"] = "filter" if (ok and seen >= expected) else "none"
    return row


def collect() -> list[dict]:
    from harness import agg_app
    app = agg_app.get()["app"]
    return [classify(r) for r in app.routes]


def generate() -> Path:
    rows = collect()
    lines = ["import OPM.Model.Access",
             "/-! GENERATED by harness/translators/routes.py from the FastAPI route table of the aggregator and the",
             "source of every endpoint. Do not edit. -/",
             "namespace OPM.Gen.Routes", "open OPM.Access", "", "def routes : List Route := ["]
    body = []
    for r in rows:
        if r["guard"] == "unknown":
            r["guard"] = "none"
        body.append(f"  ⟨{_lean_str(r['path'])}, {_lean_str(r['method'])}, {_lean_str(r['handler'])}, "
                    f"{_lean_str(r['router'])}, .{r['target']}, .{r['guard']}, "
                    f"{'true' if r['touches'] else 'false'}, {'true' if r['command'] else 'false'}⟩")
    lines.append(",\n".join(body))
    lines += ["]", "", "end OPM.Gen.Routes", ""]
    text = "\n".join(lines)
    if not OUT.exists() or OUT.read_text() != text:
        OUT.parent.mkdir(parents=True, exist_ok=True)
        OUT.write_text(text)
    return OUT


if __name__ == "__main__":
    import atexit
    from harness import agg_app as _a
    atexit.register(_a.cleanup)
    for r in collect():
        if r["target"] != "none":
            print(r)
    print(generate())
