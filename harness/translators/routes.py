"""Translator: the aggregator's route table -> lean/OPM/Gen/Routes.lean  (property C32)

Read from the code on every run
  * `AggregatorServer().fastapi.routes` (FastAPI introspection): path, methods, endpoint function, websocket routes
  * the source of every endpoint (`ast`): which of its parameters name a unit (`unit_id`, `engine_id`) or a run
    (`run_id`), whether and where it calls a *role guard* (a module-level function that takes `user_roles`, calls
    `has_access(x, user_roles)` and raises 403), whether that call comes before every other access to unit / run data
    (`agg.…(…)`, repository method calls, unguarded look-up helpers), and for listings whether every element is
    filtered by `has_access(x, user_roles)`.
  * which endpoints *take a unit or a run* is decided semantically, not by parameter names in the path: a value that
    flows (assignments, same-module helper calls) from ANY request parameter (path, query, header, cookie, body — taken
    from `route.dependant`) into a parameter named `engine_id` / `unit_id` / `run_id` of a method of the aggregator
    façade (`Aggregator`, `FromFrontend`, `FromEngine`) or of a repository class, or into `_engine_data_map[...]`,
    makes the endpoint take that object; such an endpoint must call the role guard first (table theorem) and is probed
    in the differential run (`id_param`, `id_in` say how to pass the id).
  * the body of `auth.has_access` is translated into an expression term (`hasAccessExpr`); the Lean side proves that it
    evaluates to the model's `hasAccess` for all role lists, so a changed rule (extra disjunct, super-role …) breaks the
    proof half.
  * the LSP websocket endpoint is recognised by its use of `OPPythonLSPServer`; its unit is the `engineId`
    initialisation option and it reads unit data through `openpectus.lsp.lsp_analysis.fetch_*` (checked by `ast`:
    those functions call `get_registered_engine_data` and never `has_access`).
"""
from __future__ import annotations

import ast
import inspect
import re
import textwrap
from pathlib import Path

ROOT = Path(__file__).resolve().parents[2]
from vp import core as _core  # the Lean project this run works in (private copy for scratch trees)
OUT = _core.LEAN / "OPM" / "Gen" / "Routes.lean"

UNIT_PARAMS = ("unit_id", "engine_id")
RUN_PARAMS = ("run_id",)


def _lean_str(s: str) -> str:
    return '"' + s.replace("\\", "\\\\").replace('"', '\\"') + '"'


def _fn_ast(fn) -> ast.AST | None:
    try:
        src = textwrap.dedent(inspect.getsource(fn))
    except (OSError, TypeError):
        return None
    tree = ast.parse(src)
    return tree.body[0] if tree.body else None


def _calls(node: ast.AST):
    """All Call nodes below `node` in source order."""
    cs = [n for n in ast.walk(node) if isinstance(n, ast.Call)]
    return sorted(cs, key=lambda n: (n.lineno, n.col_offset))


def _root_name(expr: ast.AST) -> str | None:
    while isinstance(expr, (ast.Attribute, ast.Call, ast.Subscript)):
        expr = expr.func if isinstance(expr, ast.Call) else expr.value
    return expr.id if isinstance(expr, ast.Name) else None


def _is_has_access_call(c: ast.Call) -> bool:
    return isinstance(c.func, ast.Name) and c.func.id == "has_access" and len(c.args) == 2 and \
        isinstance(c.args[1], ast.Name) and c.args[1].id == "user_roles"


def guard_kind(fn) -> str | None:
    """'unit' / 'run' if `fn` is a role guard: looks the object up, 404 if missing, 403 unless has_access."""
    tree = _fn_ast(fn)
    if not isinstance(tree, (ast.FunctionDef, ast.AsyncFunctionDef)):
        return None
    if "user_roles" not in [a.arg for a in tree.args.args]:
        return None
    raises_403 = False
    for n in ast.walk(tree):
        if isinstance(n, ast.If) and isinstance(n.test, ast.UnaryOp) and isinstance(n.test.op, ast.Not) and \
                isinstance(n.test.operand, ast.Call) and _is_has_access_call(n.test.operand):
            for st in n.body:
                if isinstance(st, ast.Raise) and isinstance(st.exc, ast.Call):
                    txt = ast.unparse(st.exc)
                    if "HTTPException" in txt and ("HTTP_403_FORBIDDEN" in txt or "403" in txt):
                        raises_403 = True
    if not raises_403:
        return None
    src = ast.unparse(tree)
    if "get_registered_engine_data" in src:
        return "unit"
    if "get_by_run_id" in src:
        return "run"
    return None


def unguarded_lookup(fn) -> bool:
    """module-level helper that reads unit data without looking at roles (lsp.get_registered_engine_data_or_fail)."""
    tree = _fn_ast(fn)
    if not isinstance(tree, (ast.FunctionDef, ast.AsyncFunctionDef)):
        return False
    src = ast.unparse(tree)
    return ("get_registered_engine_data" in src or "get_by_run_id" in src) and "has_access" not in src



ID_PARAM_KIND = {"engine_id": "unit", "unit_id": "unit", "run_id": "run"}
_facade_cache: dict = {}


def _facade_methods() -> dict[str, list[list[str]]]:
    """method name -> parameter-name lists (without self) of every method of that name on the aggregator façade and
    the repository classes."""
    if _facade_cache:
        return _facade_cache
    from openpectus.aggregator.aggregator import Aggregator, FromFrontend, FromEngine
    import openpectus.aggregator.data.repository as R
    classes = [Aggregator, FromFrontend, FromEngine] + \
        [c for c in vars(R).values() if inspect.isclass(c) and c.__name__.endswith("Repository")]
    for c in classes:
        for name, f in inspect.getmembers(c, inspect.isfunction):
            if name.startswith("__"):
                continue
            _facade_cache.setdefault(name, []).append(list(inspect.signature(f).parameters)[1:])
    return _facade_cache


def _names_in(expr: ast.AST) -> set[str]:
    return {n.id for n in ast.walk(expr) if isinstance(n, ast.Name)}


def _taint(tree: ast.AST, seeds: dict[str, set[str]]) -> dict[str, set[str]]:
    """Flow-insensitive taint: variable -> request parameters it may derive from."""
    t = {k: set(v) for k, v in seeds.items()}

    def origins(expr) -> set[str]:
        out: set[str] = set()
        for n in _names_in(expr):
            out |= t.get(n, set())
        return out
    changed = True
    while changed:
        changed = False
        for n in ast.walk(tree):
            pairs = []
            if isinstance(n, ast.Assign):
                pairs = [(tg, n.value) for tg in n.targets]
            elif isinstance(n, (ast.AnnAssign, ast.AugAssign)) and n.value is not None:
                pairs = [(n.target, n.value)]
            elif isinstance(n, (ast.For, ast.AsyncFor)):
                pairs = [(n.target, n.iter)]
            elif isinstance(n, ast.NamedExpr):
                pairs = [(n.target, n.value)]
            elif isinstance(n, (ast.With, ast.AsyncWith)):
                pairs = [(i.optional_vars, i.context_expr) for i in n.items if i.optional_vars is not None]
            elif isinstance(n, ast.comprehension):
                pairs = [(n.target, n.iter)]
            for tg, val in pairs:
                o = origins(val)
                if not o:
                    continue
                for name in _names_in(tg):
                    if not o <= t.get(name, set()):
                        t.setdefault(name, set()).update(o)
                        changed = True
    return t


def object_sinks(fn, seeds: dict[str, set[str]] | None = None, depth: int = 0) -> list[tuple]:
    """[(position, 'unit'|'run', origin request parameters)] : places where a request-derived value is used as the
    id of a unit or run. `seeds` = tainted parameters of `fn` (default: none; the caller passes the request params)."""
    tree = _fn_ast(fn)
    if not isinstance(tree, (ast.FunctionDef, ast.AsyncFunctionDef)) or depth > 3:
        return []
    mod = inspect.getmodule(fn)
    t = _taint(tree, seeds or {})

    def origins(expr) -> set[str]:
        out: set[str] = set()
        for n in _names_in(expr):
            out |= t.get(n, set())
        return out
    out = []
    methods = _facade_methods()
    for n in ast.walk(tree):
        pos = (getattr(n, "lineno", 0), getattr(n, "col_offset", 0))
        if isinstance(n, ast.Subscript) and "_engine_data_map" in ast.unparse(n.value):
            o = origins(n.slice)
            if o:
                out.append((pos, "unit", o))
        if not isinstance(n, ast.Call):
            continue
        f = n.func
        if isinstance(f, ast.Attribute) and f.attr in methods:
            for params in methods[f.attr]:
                bound = list(zip(params, n.args)) + [(k.arg, k.value) for k in n.keywords if k.arg]
                for pname, arg in bound:
                    if pname in ID_PARAM_KIND:
                        o = origins(arg)
                        if o:
                            out.append((pos, ID_PARAM_KIND[pname], o))
        elif isinstance(f, ast.Name):
            callee = getattr(mod, f.id, None)
            if inspect.isfunction(callee) and inspect.getmodule(callee) is mod and callee is not fn:
                cparams = list(inspect.signature(callee).parameters)
                bound = list(zip(cparams, n.args)) + [(k.arg, k.value) for k in n.keywords if k.arg]
                cseeds = {p: origins(a) for p, a in bound if origins(a)}
                if cseeds:
                    for _, kind, o in object_sinks(callee, cseeds, depth + 1):
                        out.append((pos, kind, o))
    return sorted(out, key=lambda x: x[0])


def request_params(route) -> dict[str, str]:
    """request parameter name -> where it comes from (path / query / header / cookie / body)."""
    d = getattr(route, "dependant", None)
    out: dict[str, str] = {}
    if d is None:
        return out
    for where in ("path", "query", "header", "cookie", "body"):
        for f in getattr(d, where + "_params", []) or []:
            out[f.name] = where
    return out


def translate_has_access() -> str:
    """`auth.has_access` as a Lean `AccExpr` term (see OPM.Access.AccExpr).  Covered: a straight-line body of
    assignments, `if c: return a` (with or without else) and a final `return e`, over the sets required / user /
    their intersection (`a & b`, `a.intersection(b)`, `set.intersection(a, b)`, either order) with `len(s) == 0`,
    `len(s) > 0|!= 0|>= 1`, `bool(s)`, truthiness of a set, `not`, `and`, `or`, `a if c else b`, `True`/`False`,
    `any(r in A for r in B)`, `A.isdisjoint(B)`.  Anything else becomes `.unknown`, about which nothing is provable."""
    from openpectus.aggregator.routers import auth
    tree = _fn_ast(auth.has_access)
    if not isinstance(tree, ast.FunctionDef) or len(tree.args.args) != 2:
        return '(.unknown "signature")'
    obj, user = tree.args.args[0].arg, tree.args.args[1].arg
    sets: dict[str, str] = {user: "user"}        # variable -> req | user | both
    bools: dict[str, str] = {}                   # variable -> AccExpr term

    def unknown(node) -> str:
        return f"(.unknown {_lean_str(ast.unparse(node)[:120])})"

    def setx(e) -> str | None:
        if isinstance(e, ast.Name):
            return sets.get(e.id)
        if isinstance(e, ast.Attribute) and isinstance(e.value, ast.Name) and e.value.id == obj and e.attr == "required_roles":
            return "req"
        if isinstance(e, ast.Call) and isinstance(e.func, ast.Name) and e.func.id in ("set", "list", "frozenset", "tuple", "sorted") \
                and len(e.args) == 1 and not e.keywords:
            return setx(e.args[0])
        pair = None
        if isinstance(e, ast.BinOp) and isinstance(e.op, ast.BitAnd):
            pair = (e.left, e.right)
        elif isinstance(e, ast.Call) and isinstance(e.func, ast.Attribute) and e.func.attr == "intersection" and not e.keywords:
            if isinstance(e.func.value, ast.Name) and e.func.value.id in ("set", "frozenset") and len(e.args) == 2:
                pair = (e.args[0], e.args[1])
            elif len(e.args) == 1:
                pair = (e.func.value, e.args[0])
        if pair:
            a, b = setx(pair[0]), setx(pair[1])
            if {a, b} == {"req", "user"} or (a == "both" and b in ("req", "user", "both")) or (b == "both" and a in ("req", "user")):
                return "both"
            if a is not None and a == b:
                return a
        return None

    def boolx(e) -> str:
        if isinstance(e, ast.Constant) and isinstance(e.value, bool):
            return f"(.const {'true' if e.value else 'false'})"
        if isinstance(e, ast.Name) and e.id in bools:
            return bools[e.id]
        if isinstance(e, ast.BoolOp):
            parts = [boolx(v) for v in e.values]
            op = "or" if isinstance(e.op, ast.Or) else "and"
            out = parts[-1]
            for x in reversed(parts[:-1]):
                out = f"(.{op} {x} {out})"
            return out
        if isinstance(e, ast.UnaryOp) and isinstance(e.op, ast.Not):
            return f"(.not {boolx(e.operand)})"
        if isinstance(e, ast.IfExp):
            c, a, b = boolx(e.test), boolx(e.body), boolx(e.orelse)
            return f"(.or (.and {c} {a}) (.and (.not {c}) {b}))"
        if isinstance(e, ast.Call) and isinstance(e.func, ast.Name) and e.func.id == "bool" and len(e.args) == 1:
            return boolx(e.args[0])
        if isinstance(e, ast.Compare) and len(e.ops) == 1 and isinstance(e.left, ast.Call) and \
                isinstance(e.left.func, ast.Name) and e.left.func.id == "len" and len(e.left.args) == 1 and \
                isinstance(e.comparators[0], ast.Constant) and type(e.comparators[0].value) is int:
            sx, k, op = setx(e.left.args[0]), e.comparators[0].value, e.ops[0]
            if sx:
                if (k == 0 and isinstance(op, (ast.Eq, ast.LtE))) or (k == 1 and isinstance(op, ast.Lt)):
                    return f"(.isEmpty .{sx})"
                if (k == 0 and isinstance(op, (ast.Gt, ast.NotEq))) or (k == 1 and isinstance(op, ast.GtE)):
                    return f"(.nonEmpty .{sx})"
        if isinstance(e, ast.Call) and isinstance(e.func, ast.Attribute) and e.func.attr == "isdisjoint" and len(e.args) == 1:
            if {setx(e.func.value), setx(e.args[0])} == {"req", "user"}:
                return "(.isEmpty .both)"
        if isinstance(e, ast.Call) and isinstance(e.func, ast.Name) and e.func.id == "any" and len(e.args) == 1 and \
                isinstance(e.args[0], (ast.GeneratorExp, ast.ListComp)) and len(e.args[0].generators) == 1:
            g = e.args[0].generators[0]
            el = e.args[0].elt
            if not g.ifs and isinstance(g.target, ast.Name) and isinstance(el, ast.Compare) and len(el.ops) == 1 and \
                    isinstance(el.ops[0], ast.In) and isinstance(el.left, ast.Name) and el.left.id == g.target.id:
                if {setx(g.iter), setx(el.comparators[0])} == {"req", "user"}:
                    return "(.nonEmpty .both)"
        sx = setx(e)                     # truthiness of a set
        if sx:
            return f"(.nonEmpty .{sx})"
        return unknown(e)

    def block(stmts) -> str:
        """value returned by a statement list that ends in a return on every path"""
        if not stmts:
            return '(.unknown "falls off the end")'
        st, rest = stmts[0], stmts[1:]
        if isinstance(st, ast.Expr) and isinstance(st.value, ast.Constant):       # docstring
            return block(rest)
        if isinstance(st, ast.Return):
            return boolx(st.value) if st.value is not None else '(.unknown "bare return")'
        if isinstance(st, (ast.Assign, ast.AnnAssign)):
            targets = st.targets if isinstance(st, ast.Assign) else [st.target]
            if len(targets) == 1 and isinstance(targets[0], ast.Name) and st.value is not None:
                name = targets[0].id
                sx = setx(st.value)
                if sx:
                    sets[name] = sx
                    bools.pop(name, None)
                else:
                    bools[name] = boolx(st.value)
                    sets.pop(name, None)
                return block(rest)
            return unknown(st)
        if isinstance(st, ast.If):
            c = boolx(st.test)
            saved = (dict(sets), dict(bools))
            a = block(st.body + ([] if _returns(st.body) else rest))
            sets.clear(); sets.update(saved[0]); bools.clear(); bools.update(saved[1])
            b = block((st.orelse + ([] if _returns(st.orelse) else rest)) if st.orelse else rest)
            return f"(.or (.and {c} {a}) (.and (.not {c}) {b}))"
        return unknown(st)

    def _returns(stmts) -> bool:
        return bool(stmts) and isinstance(stmts[-1], ast.Return)
    return block(tree.body)


LISTING_SOURCES = ("get_all_registered_engine_data", "get_recent_engines", "get_all")
ID_ATTRS = ("engine_id", "run_id", "id")


def listing_analysis(fn, listed_params=(), depth: int = 0) -> dict:
    """How a function treats the collections it lists (all registered units / recent engines / recent runs):
    filtered = iterations whose elements pass `has_access(x, user_roles)` (loop with `if not has_access: continue`,
    loop body under `if has_access`, comprehension / generator with has_access in an `if` clause, `filter(lambda x:
    has_access(x, user_roles), …)`, a same-module helper that receives the collection and does one of these);
    neutral = iterations that only project ids; unfiltered = everything else."""
    out = {"filtered": 0, "unfiltered": 0, "has_access": False}
    tree = _fn_ast(fn)
    if not isinstance(tree, (ast.FunctionDef, ast.AsyncFunctionDef)) or depth > 2:
        return out
    mod = inspect.getmodule(fn)
    out["has_access"] = any(isinstance(n, ast.Call) and isinstance(n.func, ast.Name) and n.func.id == "has_access"
                            for n in ast.walk(tree))
    listed = set(listed_params)

    def is_source(e) -> bool:
        return isinstance(e, ast.Call) and isinstance(e.func, ast.Attribute) and e.func.attr in LISTING_SOURCES

    def is_listed(e) -> bool:
        if isinstance(e, ast.Name):
            return e.id in listed
        if is_source(e):
            return True
        if isinstance(e, ast.Call) and isinstance(e.func, ast.Name) and e.func.id in ("list", "tuple", "sorted", "iter", "reversed") \
                and e.args:
            return is_listed(e.args[0])
        return False
    changed = True
    while changed:
        changed = False
        for n in ast.walk(tree):
            if isinstance(n, ast.Assign) and is_listed(n.value):
                for t in n.targets:
                    if isinstance(t, ast.Name) and t.id not in listed:
                        listed.add(t.id)
                        changed = True

    def conj(e):
        if isinstance(e, ast.BoolOp) and isinstance(e.op, ast.And):
            for v in e.values:
                yield from conj(v)
        else:
            yield e

    def checks(e, var: str) -> bool:
        return any(isinstance(c, ast.Call) and _is_has_access_call(c) and isinstance(c.args[0], ast.Name) and
                   c.args[0].id == var for c in conj(e))

    def only_ids(e, var: str) -> bool:
        """the expression uses `var` only as var.engine_id / var.run_id / var.id"""
        uses = [n for n in ast.walk(e) if isinstance(n, ast.Name) and n.id == var]
        attrs = [n for n in ast.walk(e) if isinstance(n, ast.Attribute) and isinstance(n.value, ast.Name) and
                 n.value.id == var and n.attr in ID_ATTRS]
        return len(uses) == len(attrs)
    for n in ast.walk(tree):
        if isinstance(n, (ast.For, ast.AsyncFor)) and is_listed(n.iter) and isinstance(n.target, ast.Name):
            v = n.target.id
            first = n.body[0] if n.body else None
            if isinstance(first, ast.If) and isinstance(first.test, ast.UnaryOp) and isinstance(first.test.op, ast.Not) \
                    and checks(first.test.operand, v) and len(first.body) == 1 and isinstance(first.body[0], ast.Continue):
                out["filtered"] += 1
            elif len(n.body) == 1 and isinstance(first, ast.If) and checks(first.test, v) and not first.orelse:
                out["filtered"] += 1
            elif all(only_ids(st, v) for st in n.body):
                pass
            else:
                out["unfiltered"] += 1
        elif isinstance(n, (ast.ListComp, ast.SetComp, ast.GeneratorExp, ast.DictComp)):
            for g in n.generators:
                if is_listed(g.iter) and isinstance(g.target, ast.Name):
                    v = g.target.id
                    elts = [n.key, n.value] if isinstance(n, ast.DictComp) else [n.elt]
                    if any(checks(c, v) for c in g.ifs):
                        out["filtered"] += 1
                    elif all(only_ids(e, v) for e in elts + list(g.ifs)):
                        pass
                    else:
                        out["unfiltered"] += 1
        elif isinstance(n, ast.Call) and isinstance(n.func, ast.Name) and n.func.id in ("filter", "map") and len(n.args) >= 2 \
                and is_listed(n.args[1]):
            lam = n.args[0]
            if n.func.id == "filter" and isinstance(lam, ast.Lambda) and len(lam.args.args) == 1 and \
                    checks(lam.body, lam.args.args[0].arg):
                out["filtered"] += 1
            else:
                out["unfiltered"] += 1
        elif isinstance(n, ast.Call) and isinstance(n.func, ast.Name):
            callee = getattr(mod, n.func.id, None)
            if inspect.isfunction(callee) and inspect.getmodule(callee) is mod and callee is not fn:
                cparams = list(inspect.signature(callee).parameters)
                bound = list(zip(cparams, n.args)) + [(k.arg, k.value) for k in n.keywords if k.arg]
                lp = [p for p, a in bound if is_listed(a)]
                if lp:
                    sub = listing_analysis(callee, lp, depth + 1)
                    out["filtered"] += sub["filtered"]
                    out["unfiltered"] += sub["unfiltered"]
                    out["has_access"] = out["has_access"] or sub["has_access"]
                    if not sub["filtered"] and not sub["unfiltered"]:
                        out["unfiltered"] += 1          # the collection disappears into a helper we cannot read
        elif isinstance(n, ast.Return) and n.value is not None and is_listed(n.value):
            out["unfiltered"] += 1
    return out


def classify(route) -> dict:
    from fastapi.routing import APIRoute, APIWebSocketRoute
    fn = getattr(route, "endpoint", None)
    mod = inspect.getmodule(fn) if fn is not None else None
    modname = getattr(mod, "__name__", "") or ""
    row = dict(path=getattr(route, "path", ""), method="WS" if isinstance(route, APIWebSocketRoute) else
               ",".join(sorted(getattr(route, "methods", None) or [])) or "-",
               handler=getattr(fn, "__qualname__", "") or "", router=modname.split(".")[-1],
               target="none", guard="none", touches=False, command=False, note="", id_param="", id_in="")
    if not isinstance(route, (APIRoute, APIWebSocketRoute)) or not modname.startswith("openpectus."):
        return row
    tree = _fn_ast(fn)
    if tree is None:
        row["note"] = "no source"
        return row
    path_params = re.findall(r"{(\w+)}", row["path"])
    rparams = request_params(route)
    sinks = object_sinks(fn, {p: {p} for p in rparams})
    for kind in ("unit", "run"):
        hit = [x for x in sinks if x[1] == kind]
        if hit:
            row["target"] = kind
            origin = sorted(hit[0][2], key=lambda p: (rparams.get(p) != "path", p))[0]
            row["id_param"], row["id_in"] = origin, rparams.get(origin, "")
            break
    if row["target"] == "none":          # named like an object route but never uses the id (constant answer)
        for p in path_params:
            if p in UNIT_PARAMS or p in RUN_PARAMS:
                row["target"] = "unit" if p in UNIT_PARAMS else "run"
                row["id_param"], row["id_in"] = p, "path"
                break
    row["command"] = "POST" in row["method"]
    src = ast.unparse(tree)

    # LSP websocket: the unit comes from the `engineId` initialisation option
    if isinstance(route, APIWebSocketRoute) and "OPPythonLSPServer" in src:
        import openpectus.lsp.lsp_analysis as LA
        import openpectus.lsp.pylsp_plugin as PL
        reads = [f for f in ("fetch_uod_info", "fetch_process_value", "fetch_simulated_tags")
                 if hasattr(LA, f) and unguarded_lookup(getattr(LA, f))]
        takes = "engineId" in inspect.getsource(PL.get_engine_id)
        if takes:
            row["target"] = "unit"
            row["id_param"], row["id_in"] = "engineId", "lsp-init"
        row["touches"] = bool(reads)
        row["guard"] = "none" if ("has_access" not in inspect.getsource(LA) and "user_roles" not in src) else "unknown"
        row["note"] = "unit = initializationOptions.engineId; reads via lsp_analysis." + "/".join(reads)
        return row

    repo_vars = set()
    for n in ast.walk(tree):
        if isinstance(n, ast.Assign) and isinstance(n.value, ast.Call) and "Repository" in ast.unparse(n.value.func):
            for t in n.targets:
                if isinstance(t, ast.Name):
                    repo_vars.add(t.id)
    events = []   # (position, kind)
    for c in _calls(tree):
        pos = (c.lineno, c.col_offset)
        f = c.func
        if isinstance(f, ast.Name):
            target_fn = getattr(mod, f.id, None)
            if inspect.isfunction(target_fn) and inspect.getmodule(target_fn) is mod:
                k = guard_kind(target_fn)
                if k and any(isinstance(a, ast.Name) and a.id == "user_roles" for a in c.args):
                    events.append((pos, "guard-" + k))
                    continue
                if unguarded_lookup(target_fn):
                    events.append((pos, "touch"))
                    continue
            if _is_has_access_call(c):
                events.append((pos, "has_access"))
            continue
        root = _root_name(f)
        if isinstance(f, ast.Attribute) and root == "agg":
            events.append((pos, "touch"))
        elif isinstance(f, ast.Attribute) and root in repo_vars:
            events.append((pos, "touch"))
    guard_positions = {p for p, k in events if k.startswith("guard-")}
    touches = [p for p, k in events if k == "touch"] + [x[0] for x in sinks if x[0] not in guard_positions]
    guards = [(p, k) for p, k in events if k.startswith("guard-")]
    row["touches"] = bool(touches or guards)
    if row["target"] in ("unit", "run"):
        if guards:
            first_guard = min(guards)
            if all(first_guard[0] < t for t in touches):
                row["guard"] = "unitOrFail" if first_guard[1] == "guard-unit" else "runOrFail"
            else:
                row["guard"] = "none"
                row["note"] = "guard called after unit/run data was touched"
        return row
    # no path parameter: a listing?
    lists_units = "get_all_registered_engine_data" in src
    lists_recent = "get_recent_engines" in src
    lists_runs = "RecentRunRepository" in src and ".get_all()" in src
    if lists_units or lists_recent:
        row["target"] = "unitsWithRecent" if lists_recent else "unitsOnline"
    elif lists_runs:
        row["target"] = "runs"
    else:
        return row
    la = listing_analysis(fn)
    expected = (1 if lists_units else 0) + (1 if lists_recent else 0) + (1 if lists_runs else 0)
    if la["unfiltered"] == 0 and la["filtered"] >= expected:
        row["guard"] = "filter"
    elif la["unfiltered"] > 0 and not la["has_access"]:
        row["guard"] = "none"               # nothing in the handler looks at roles: the listing shows everything
    else:
        row["guard"] = "unknown"            # has_access is used, but not in a form the translator can read
        row["note"] = f"listing filter not recognised: {la}"
    return row


def collect() -> list[dict]:
    from harness import agg_app
    app = agg_app.get()["app"]
    return [classify(r) for r in app.routes]


def generate() -> Path:
    rows = collect()
    lines = ["import OPM.Model.Access",
             "/-! GENERATED by harness/translators/routes.py from the FastAPI route table of the aggregator and the",
             "source of every endpoint. Do not edit. -/",
             "namespace OPM.Gen.Routes", "open OPM.Access", "", "def routes : List Route := ["]
    body = []
    for r in rows:
        if r["guard"] == "unknown" and r["target"] == "unit":      # the LSP websocket special case
            r["guard"] = "none"
        body.append(f"  ⟨{_lean_str(r['path'])}, {_lean_str(r['method'])}, {_lean_str(r['handler'])}, "
                    f"{_lean_str(r['router'])}, .{r['target']}, .{r['guard']}, "
                    f"{'true' if r['touches'] else 'false'}, {'true' if r['command'] else 'false'}⟩")
    lines.append(",\n".join(body))
    lines += ["]", "", "/-- `auth.has_access`, translated from its source -/",
              f"def hasAccessExpr : AccExpr := {translate_has_access()}", "", "end OPM.Gen.Routes", ""]
    text = "\n".join(lines)
    if not OUT.exists() or OUT.read_text() != text:
        OUT.parent.mkdir(parents=True, exist_ok=True)
        OUT.write_text(text)
    return OUT


if __name__ == "__main__":
    import atexit
    from harness import agg_app as _a
    atexit.register(_a.cleanup)
    for r in collect():
        if r["target"] != "none":
            print(r)
    print(generate())
