"""Translator: which code of the engine runs under `Engine._lock`?  -> lean/OPM/Gen/LockTable.lean  (property C40)

Read with `ast` from the source of `openpectus.engine.engine` and `openpectus.engine.engine_message_handlers` on every run:
  * the lock attribute(s) of `Engine` (attributes assigned `Lock()` in `__init__`);
  * `Engine.tick`: its sub-calls on `self…` in execution order (calls in `except` handlers are error paths and are left
    out), each with the flag "inside `with self.<lock>`"; calls of other `Engine` methods are followed (depth <= 3) and
    what they call inherits the lock state of the call site — so a phase moved into a private helper stays in the table.  The label of a call is its last attribute, prefixed with
    the owner when the attribute is `tick` (`self.uod.hwl.tick` -> "hwl.tick", `self._command_manager.tick` ->
    "command_manager.tick") — the same labels the harness uses for its yield points;
  * yield points *nested* in a sub-call of the tick, where a tick spends its time: `hwl.read_batch` / `hwl.write_batch`
    (found in the bodies of the `Engine` methods the tick calls) and `uod.execute` — the exec function of a UOD
    command — found in the methods of `CommandManager` reachable from `CommandManager.tick`, and `interp.subtick`
    (`PInterpreter.tick` iterating `tick_iterate_subticks`); emitted as
    (inner label, enclosing sub-call of `Engine.tick`), so their lock status is that of the enclosing sub-call;
  * the request entry points = the `Engine` methods that `EngineMessageHandlers` calls on `self.engine`; for each one
    which attributes of `self` it touches outside the lock (calls of other `Engine` methods are followed, depth <= 4)
    and `bodyLocked` = part of it runs under the lock and nothing outside the lock touches the engine.  The lock may be
    taken by `with self._lock:`, by `self._lock.acquire()` + `try/finally release()`, or by a decorator whose name
    mentions lock / synchron; an early return on the arguments, logging or local computation in front of the lock is
    accepted;
  * `prologueShared` = attributes touched both by the part of `tick` outside the lock (including its error paths, e.g.
    `read_process_image -> set_error_state`) and by a request entry point.
"""
from __future__ import annotations

import ast
import inspect
from pathlib import Path

ROOT = Path(__file__).resolve().parents[2]
from vp import core as _core  # the Lean project this run works in (private copy for scratch trees)
OUT = _core.LEAN / "OPM" / "Gen" / "LockTable.lean"


def _lean_str(s: str) -> str:
    return '"' + s.replace("\\", "\\\\").replace('"', '\\"') + '"'


def _chain(e: ast.AST) -> list[str] | None:
    """['self', 'uod', 'hwl', 'tick'] for self.uod.hwl.tick; None if the expression is not a plain attribute chain."""
    out: list[str] = []
    while isinstance(e, ast.Attribute):
        out.append(e.attr)
        e = e.value
    if isinstance(e, ast.Name):
        out.append(e.id)
        return list(reversed(out))
    return None


def _label(chain: list[str]) -> str:
    last = chain[-1].lstrip("_")
    if last == "tick" and len(chain) >= 3:
        return chain[-2].lstrip("_") + ".tick"
    return last


def _is_lock_with(node: ast.AST, locks: set[str]) -> bool:
    if not isinstance(node, ast.With):
        return False
    for it in node.items:
        ch = _chain(it.context_expr)
        if ch and len(ch) == 2 and ch[0] == "self" and ch[1] in locks:
            return True
    return False


def _engine_class() -> tuple[ast.ClassDef, dict[str, ast.FunctionDef]]:
    import openpectus.engine.engine as E
    tree = ast.parse(inspect.getsource(E))
    cls = next(n for n in tree.body if isinstance(n, ast.ClassDef) and n.name == "Engine")
    return cls, {n.name: n for n in cls.body if isinstance(n, ast.FunctionDef)}


def _locks(methods: dict[str, ast.FunctionDef]) -> list[str]:
    """Attributes of `self` that `__init__` sets to a `Lock()` / `RLock()` (plain or annotated assignment) — whatever
    they are called."""
    out = []
    for n in ast.walk(methods["__init__"]):
        if isinstance(n, ast.Assign):
            targets, value = n.targets, n.value
        elif isinstance(n, ast.AnnAssign) and n.value is not None:
            targets, value = [n.target], n.value
        else:
            continue
        if isinstance(value, ast.Call):
            f = value.func
            fname = f.id if isinstance(f, ast.Name) else f.attr if isinstance(f, ast.Attribute) else ""
            if fname in ("Lock", "RLock"):
                for t in targets:
                    ch = _chain(t)
                    if ch and len(ch) == 2 and ch[0] == "self" and ch[1] not in out:
                        out.append(ch[1])
    return out


def _tick_calls(fn: ast.FunctionDef, locks: set[str], methods: dict[str, ast.FunctionDef] | None = None) \
        -> list[tuple[str, bool]]:
    """Sub-calls of the tick in execution order with their lock state.  A call of another method of the class
    (`self._helper(...)`) is listed and then followed (depth <= 3): what the helper calls inherits the lock state of the
    call site, so moving a phase of the tick into a private helper does not change the table's content."""
    methods = methods or {}
    out: list[tuple[str, bool]] = []

    def visit(fn_node: ast.FunctionDef, inside0: bool, depth: int, stack: tuple[str, ...]) -> None:
        calls: list[tuple[int, int, ast.Call, bool]] = []

        def walk(node: ast.AST, inside: bool) -> None:
            if isinstance(node, ast.ExceptHandler):
                return
            if _is_lock_with(node, locks):
                for st in node.body:  # type: ignore[attr-defined]
                    walk(st, True)
                return
            if isinstance(node, ast.Call):
                ch = _chain(node.func)
                if ch and ch[0] == "self" and len(ch) >= 2:
                    calls.append((node.lineno, node.col_offset, node, inside))
            for c in ast.iter_child_nodes(node):
                walk(c, inside)
        for st in _body(fn_node):
            walk(st, inside0)
        calls.sort(key=lambda x: (x[0], x[1]))
        for (_, _, call, inside) in calls:
            ch = _chain(call.func)
            assert ch is not None
            out.append((_label(ch), inside))
            if len(ch) == 2 and ch[1] in methods and ch[1] not in stack and depth < 3:
                visit(methods[ch[1]], inside, depth + 1, stack + (ch[1],))
    visit(fn, False, 0, (fn.name,))
    # one row per label: the first occurrence decides (a label seen both outside and inside the lock is reported as
    # outside, the conservative answer)
    table: dict[str, bool] = {}
    for lab, ins in out:
        table[lab] = table.get(lab, True) and ins
    seen: set[str] = set()
    res = []
    for lab, _ in out:
        if lab not in seen:
            seen.add(lab)
            res.append((lab, table[lab]))
    return res


def _entry_points() -> list[str]:
    import openpectus.engine.engine_message_handlers as H
    tree = ast.parse(inspect.getsource(H))
    names: list[str] = []
    for n in ast.walk(tree):
        if isinstance(n, ast.Call):
            ch = _chain(n.func)
            if ch and len(ch) == 3 and ch[0] == "self" and ch[1] == "engine" and ch[2] not in names:
                names.append(ch[2])
    return names


def _body(fn: ast.FunctionDef) -> list[ast.stmt]:
    b = list(fn.body)
    if b and isinstance(b[0], ast.Expr) and isinstance(b[0].value, ast.Constant) and isinstance(b[0].value.value, str):
        b = b[1:]
    return b


def _lock_regions(fn: ast.FunctionDef, locks: set[str]) -> tuple[list[ast.stmt], list[ast.stmt], bool]:
    """(statements outside the lock, statements under it, whole function locked by a decorator).
    Recognised: `with self._lock:`; `self._lock.acquire()` followed by `try: … finally: self._lock.release()`;
    a decorator whose name mentions lock / synchron (then the whole body counts as locked)."""
    for d in fn.decorator_list:
        name = ast.unparse(d).lower()
        if "lock" in name or "synchron" in name:
            return [], _body(fn), True
    outside: list[ast.stmt] = []
    inside: list[ast.stmt] = []
    body = _body(fn)
    i = 0
    while i < len(body):
        st = body[i]
        if _is_lock_with(st, locks):
            inside.extend(st.body)  # type: ignore[attr-defined]
        elif _is_lock_call(st, locks, "acquire") and i + 1 < len(body) and isinstance(body[i + 1], ast.Try) \
                and any(_is_lock_call(f, locks, "release") for f in body[i + 1].finalbody):  # type: ignore[attr-defined]
            inside.extend(body[i + 1].body)  # type: ignore[attr-defined]
            i += 1
        else:
            outside.append(st)
        i += 1
    return outside, inside, False


def _is_lock_call(st: ast.AST, locks: set[str], what: str) -> bool:
    if isinstance(st, ast.Expr) and isinstance(st.value, ast.Call):
        ch = _chain(st.value.func)
        return bool(ch) and len(ch) == 3 and ch[0] == "self" and ch[1] in locks and ch[2] == what
    return False


def _touches(stmts: list[ast.AST], methods: dict[str, ast.FunctionDef], locks: set[str], skip_locked: bool,
             depth: int = 0, seen: set[str] | None = None) -> set[str]:
    """Attributes of `self` read or written by the statements; calls of other `Engine` methods are followed
    (depth <= 4).  With `skip_locked`, code under the lock is left out."""
    seen = seen if seen is not None else set()
    out: set[str] = set()

    def walk(node: ast.AST) -> None:
        if skip_locked and _is_lock_with(node, locks):
            return
        if isinstance(node, ast.Attribute) and isinstance(node.value, ast.Name) and node.value.id == "self":
            if node.attr in methods:
                if depth < 4 and node.attr not in seen:
                    seen.add(node.attr)
                    fn = methods[node.attr]
                    if skip_locked:
                        outside, _, _ = _lock_regions(fn, locks)
                        out.update(_touches(list(outside), methods, locks, True, depth + 1, seen))
                    else:
                        out.update(_touches(list(_body(fn)), methods, locks, False, depth + 1, seen))
            elif node.attr not in locks:
                out.add(node.attr)
        for c in ast.iter_child_nodes(node):
            walk(c)
    for st in stmts:
        walk(st)
    return out


def _nested(methods: dict[str, ast.FunctionDef], tick_labels: list[str]) -> list[tuple[str, str]]:
    out: list[tuple[str, str]] = []
    # hardware batch calls inside the Engine methods the tick calls
    for lab in tick_labels:
        fn = methods.get(lab)
        if fn is None:
            continue
        for n in ast.walk(fn):
            if isinstance(n, ast.Call):
                ch = _chain(n.func)
                if ch and ch[-1] in ("read_batch", "write_batch") and ("hwl." + ch[-1], lab) not in out:
                    out.append(("hwl." + ch[-1], lab))
    # write_process_image assembles the image register by register, through each register's `from_tag` conversion
    wpi = methods.get("write_process_image")
    if wpi is not None and "write_process_image" in tick_labels and \
            any(isinstance(n, ast.Constant) and n.value == "from_tag" for n in ast.walk(wpi)):
        out.append(("write.reg", "write_process_image"))
    # the exec function of a UOD command: `<command>.execute(...)` reachable from CommandManager.tick
    if "command_manager.tick" in tick_labels:
        import openpectus.engine.command_manager as CM
        tree = ast.parse(inspect.getsource(CM))
        cls = next(n for n in tree.body if isinstance(n, ast.ClassDef) and n.name == "CommandManager")
        cm = {n.name: n for n in cls.body if isinstance(n, ast.FunctionDef)}
        seen, todo = set(), ["tick"]
        found = False
        while todo:
            name = todo.pop()
            if name in seen or name not in cm:
                continue
            seen.add(name)
            for n in ast.walk(cm[name]):
                if isinstance(n, ast.Call):
                    ch = _chain(n.func)
                    if ch and ch[0] == "self" and len(ch) == 2:
                        todo.append(ch[1])
                    if ch and len(ch) == 2 and ch[0] != "self" and ch[1] == "execute":
                        found = True
        if found:
            out.append(("uod.execute", "command_manager.tick"))
    # the sub-ticks of the interpreter: PInterpreter.tick iterates tick_iterate_subticks
    if "interpreter.tick" in tick_labels:
        import openpectus.lang.exec.pinterpreter as PI
        tree = ast.parse(inspect.getsource(PI))
        cls = next(n for n in tree.body if isinstance(n, ast.ClassDef) and n.name == "PInterpreter")
        tick = next((n for n in cls.body if isinstance(n, ast.FunctionDef) and n.name == "tick"), None)
        if tick is not None and any(isinstance(n, ast.Call) and (_chain(n.func) or [""])[-1] == "tick_iterate_subticks"
                                    for n in ast.walk(tick)):
            out.append(("interp.subtick", "interpreter.tick"))
    return out


def analyse() -> dict:
    cls, methods = _engine_class()
    locks = _locks(methods)
    lockset = set(locks)
    entries = []
    request_touches: set[str] = set()
    for name in _entry_points():
        fn = methods.get(name)
        if fn is None:
            entries.append((name, False, ["<not a method of Engine>"]))
            continue
        outside, inside, decorated = _lock_regions(fn, lockset)
        touched = sorted(_touches(list(outside), methods, lockset, True))
        # locked = something runs under the lock and nothing outside it touches the engine (an early
        # `if arg is None: return`, logging or a local computation in front of the lock does no harm)
        locked = decorated or (bool(inside) and not touched)
        entries.append((name, locked, touched))
        request_touches |= _touches(list(_body(fn)), methods, lockset, False)
    # the unlocked part of the tick (prologue, hardware tick, reading the process image, with their error paths)
    tick_outside, _, _ = _lock_regions(methods["tick"], lockset)
    prologue = _touches(list(tick_outside), methods, lockset, True)
    shared = sorted((prologue & request_touches) - {"_running", "_tick_timer"})
    tick = _tick_calls(methods["tick"], lockset, methods)
    return {"locks": locks, "tick": tick, "nested": _nested(methods, [lab for (lab, _) in tick]), "entries": entries,
            "prologue_shared": shared}


def generate() -> dict:
    a = analyse()

    def lst(xs):
        return "[" + ", ".join(_lean_str(x) for x in xs) + "]"
    tick = ",\n  ".join(f"({_lean_str(lab)}, {'true' if ins else 'false'})" for (lab, ins) in a["tick"])
    nested = ", ".join(f"({_lean_str(a)}, {_lean_str(b)})" for (a, b) in a["nested"])
    ents = ",\n  ".join(f"⟨{_lean_str(n)}, {'true' if lk else 'false'}, {lst(t)}⟩" for (n, lk, t) in a["entries"])
    src = f"""import OPM.Model.TickLock
/-! GENERATED by harness/translators/lock_table.py from the source of `openpectus.engine.engine.Engine` and
`openpectus.engine.engine_message_handlers`. Do not edit. -/
namespace OPM.Gen.LockTable
open OPM.TickLock

/-- attributes of `Engine` that hold a `threading.Lock` -/
def locks : List String := {lst(a["locks"])}

/-- sub-calls of `Engine.tick` in source order: (label, inside `with self._lock`) -/
def tickCalls : List (String × Bool) := [
  {tick}
]

/-- yield points nested inside a sub-call of the tick: (inner label, enclosing sub-call) -/
def nested : List (String × String) := [{nested}]

/-- attributes of `Engine` that the part of `tick` outside the lock (prologue, hardware tick, reading the process image,
their error paths) and the request entry points both touch: empty = the commutation hypothesis of
`locked_request_serializes` is discharged from the source -/
def prologueShared : List String := {lst(a["prologue_shared"])}

/-- the `Engine` methods the aggregator's requests arrive at (called by `EngineMessageHandlers`) -/
def entries : List Entry := [
  {ents}
]

end OPM.Gen.LockTable
"""
    OUT.parent.mkdir(exist_ok=True)
    if not OUT.exists() or OUT.read_text() != src:
        OUT.write_text(src)
    return a


if __name__ == "__main__":
    import json
    print(json.dumps(generate(), indent=1))
