"""Translator for the tag/report model M5 (C16, C36): regenerates lean/OPM/Gen/TagSites.lean from an AST scan.

Call-site tables (files FILES: tags.py, tags_impl.py, pinterpreter.py, engine.py, internal_commands_impl.py,
archiver.py, hardware_recovery.py, engine_message_builder.py):

* `setSites`     every call `<x>.set_value(…)`, `set_value_and_unit`, `simulate_value`, `simulate_value_and_unit`
                 with the *expression* it passes as tick time, translated to `ArgExpr`:
                   param        the `tick_time` parameter of the enclosing (non-generator) function
                   engineField  `Engine._tick_time` (`self._tick_time` inside Engine, `e._tick_time`, `engine._tick_time`)
                   interpField  `PInterpreter._tick_time` (`self._tick_time` inside PInterpreter)
                   wall         `time.time()` / `time.monotonic()` / `time()` (also through one local variable)
                   tickNumber   `_tick_number` / `tick_number`
                   forward      `*args` handed on by an overriding wrapper
                   other        anything else — incl. a local variable of a *generator* function (a value captured
                                before a `yield` outlives the tick) and `self.tick_time` (a tag's own old stamp)
                 and the coarser `TimeClass` derived from it.
* `stampSites`   every assignment to some `<x>.tick_time` (tag stamps), with the ArgExpr of the right hand side.
* `tickTimeFieldWrites`  every assignment to `self._tick_time` (Engine, PInterpreter), with the ArgExpr of the rhs.
* `engineTickStmts` / `interpTickStmts`   Engine.tick and PInterpreter.tick_iterate_subticks as statement lists in
                 evaluation order: assignments of the `_tick_time` field, the bulk stamp of the first tick, and every
                 call (dotted callee, ArgExpr of its first positional argument).
* `tickTimeCalls` every call (wide scan) of a function that declares a parameter named `tick_time` (other than the
                 four primitives above), with the ArgExpr passed in that position.

Assignment table (WIDE scan: every .py below openpectus/engine and openpectus/lang/exec):

* `valueAssigns` every assignment (plain, annotated, augmented, tuple target) to an attribute named `value`,
                 `simulated_value` or `simulated` on ANY receiver, and every `setattr(obj, "<that name>", …)`:
                   init        `self.<f>` in `__init__` of a Tag subclass
                   notifying   `self.<f>` in a method of Tag itself that afterwards calls self.notify_listeners(…)
                               (a primitive or a private helper of one; no method names are pinned)
                   silent      `self.<f>` anywhere else in a Tag subclass
                   otherClass  `self.<f>` inside a class that is not a Tag subclass (TagValue, StackItem …)
                   foreignNonTag  the loop variable of `for x in self.<attr>` whose annotation names non-tag classes only
                   foreign     any other receiver (e.g. `tag.value = …` in engine code)
* `dynamicSetattrs` every `setattr` whose attribute name is not a string literal.

The files are located through the imported `openpectus` package, so the scan follows PYTHONPATH.
"""
from __future__ import annotations

import ast
from pathlib import Path

from vp import core as _core  # the Lean project this run works in (private copy for scratch trees)
OUT = _core.LEAN / "OPM" / "Gen" / "TagSites.lean"

FILES = [
    "lang/exec/tags.py", "lang/exec/tags_impl.py", "lang/exec/pinterpreter.py",
    "engine/engine.py", "engine/internal_commands_impl.py", "engine/archiver.py",
    "engine/hardware_recovery.py", "engine/engine_message_builder.py",
]
WIDE_DIRS = ["engine", "lang/exec"]
SET_METHODS = {"set_value": 1, "set_value_and_unit": 2, "simulate_value": 1, "simulate_value_and_unit": 2}
PRIMITIVES = {"set_value", "set_value_and_unit", "simulate_value", "simulate_value_and_unit", "stop_simulation"}
VALUE_FIELDS = {"value", "simulated_value", "simulated"}
EXPR_TO_CLASS = {"param": "tickTime", "engineField": "tickTime", "interpField": "tickTime", "wall": "wallClock",
                 "tickNumber": "tickNumber", "forward": "forward", "other": "other"}


def repo_root() -> Path:
    import openpectus
    return Path(openpectus.__file__).resolve().parent


def _is_wall(e: ast.expr) -> bool:
    if not isinstance(e, ast.Call) or e.args or e.keywords:
        return False
    f = e.func
    if isinstance(f, ast.Attribute) and isinstance(f.value, ast.Name) and f.value.id == "time" \
            and f.attr in ("time", "monotonic"):
        return True
    return isinstance(f, ast.Name) and f.id in ("time", "monotonic")


def _is_generator(fn: ast.AST) -> bool:
    # PInterpreter.tick_iterate_subticks is created and exhausted inside one PInterpreter.tick call (table
    # `tickTimeCalls` shows that call): its parameter is that tick's argument, it does not live across ticks
    if getattr(fn, "name", "") == "tick_iterate_subticks":
        return False
    for n in ast.walk(fn):
        if isinstance(n, (ast.Yield, ast.YieldFrom)):
            return True
    return False


def arg_expr(e: ast.expr | None, fn, cls_name: str | None, depth: int = 0) -> str:
    """Translate the expression passed as tick time."""
    if e is None:
        return "other"
    if _is_wall(e):
        return "wall"
    if isinstance(e, ast.Attribute):
        if e.attr == "_tick_time":
            recv_self = isinstance(e.value, ast.Name) and e.value.id == "self"
            if recv_self:
                return {"PInterpreter": "interpField", "Engine": "engineField"}.get(cls_name or "", "other")
            src = ast.unparse(e.value)
            if src in ("e", "engine", "self.engine", "instance.engine", "self._engine"):
                return "engineField"
            return "other"
        if e.attr in ("_tick_number", "tick_number"):
            return "tickNumber"
        return "other"
    if isinstance(e, ast.Name) and fn is not None:
        params = [a.arg for a in fn.args.posonlyargs + fn.args.args + fn.args.kwonlyargs]
        if e.id in params:
            if e.id == "tick_time":
                # a parameter of a generator function is bound when the generator is created, not per tick
                return "other" if _is_generator(fn) else "param"
            return "tickNumber" if e.id == "tick_number" else "other"
        if _is_generator(fn):
            return "other"          # a local of a generator lives across ticks
        if depth < 3:
            rhs = [n.value for n in ast.walk(fn) if isinstance(n, ast.Assign)
                   and any(isinstance(t, ast.Name) and t.id == e.id for t in n.targets)]
            if len(rhs) == 1:
                return arg_expr(rhs[0], fn, cls_name, depth + 1)
        return "other"
    return "other"


def _notifies_after(fn: ast.AST, line: int) -> bool:
    """the function calls `self.notify_listeners(…)` at or after the given line"""
    for n in ast.walk(fn):
        if isinstance(n, ast.Call) and isinstance(n.func, ast.Attribute) and n.func.attr == "notify_listeners" \
                and isinstance(n.func.value, ast.Name) and n.func.value.id == "self" and n.lineno >= line:
            return True
    return False


def dotted(n: ast.AST) -> str:
    if isinstance(n, ast.Attribute):
        return dotted(n.value) + "." + n.attr
    if isinstance(n, ast.Name):
        return n.id
    if isinstance(n, ast.Call):
        return dotted(n.func) + "()"
    if isinstance(n, ast.Subscript):
        return dotted(n.value) + "[]"
    return type(n).__name__


class Scan(ast.NodeVisitor):
    def __init__(self, rel: str, tag_classes: set[str], sites: bool, tt_funcs: dict[str, int],
                 classes_with_field: set[str] = frozenset(), all_classes: set[str] = frozenset()):
        self.classes_with_field = classes_with_field
        self.all_classes = all_classes
        self.class_nodes: list[ast.ClassDef] = []
        self.rel = rel
        self.tag_classes = tag_classes
        self.sites = sites                  # FILES: call-site tables too; otherwise assignments only
        self.tt_funcs = tt_funcs
        self.cls: list[str] = []
        self.fn: list[ast.FunctionDef | ast.AsyncFunctionDef] = []
        self.set_sites: list[dict] = []
        self.assigns: list[dict] = []
        self.dyn_setattrs: list[dict] = []
        self.stamps: list[dict] = []
        self.field_writes: list[dict] = []
        self.time_calls: list[dict] = []

    def qual(self) -> str:
        return ".".join(self.cls + [f.name for f in self.fn]) or "<module>"

    def cur_cls(self) -> str | None:
        return self.cls[-1] if self.cls else None

    def cur_fn(self):
        return self.fn[-1] if self.fn else None

    def visit_ClassDef(self, node: ast.ClassDef):
        self.cls.append(node.name)
        self.class_nodes.append(node)
        saved, self.fn = self.fn, []
        self.generic_visit(node)
        self.fn = saved
        self.cls.pop()
        self.class_nodes.pop()

    def visit_FunctionDef(self, node):
        self.fn.append(node)
        self.generic_visit(node)
        self.fn.pop()

    visit_AsyncFunctionDef = visit_FunctionDef

    def _time_arg(self, node: ast.Call, pos: int):
        arg = None
        for kw in node.keywords:
            if kw.arg == "tick_time":
                arg = kw.value
        plain = [a for a in node.args if not isinstance(a, ast.Starred)]
        starred = any(isinstance(a, ast.Starred) for a in node.args)
        if arg is None and len(plain) > pos:
            arg = plain[pos]
        return arg, starred

    def visit_Call(self, node: ast.Call):
        f = node.func
        name = f.attr if isinstance(f, ast.Attribute) else f.id if isinstance(f, ast.Name) else None
        if self.sites and isinstance(f, ast.Attribute) and f.attr in SET_METHODS:
            arg, starred = self._time_arg(node, SET_METHODS[f.attr])
            if arg is not None:
                ex, src = arg_expr(arg, self.cur_fn(), self.cur_cls()), ast.unparse(arg)
            elif starred:
                ex, src = "forward", "*args"
            else:
                ex, src = "other", "<missing>"
            fn = self.cur_fn()
            params = [a.arg for a in fn.args.posonlyargs + fn.args.args + fn.args.kwonlyargs] if fn else []
            is_super = isinstance(f.value, ast.Call) and isinstance(f.value.func, ast.Name) and f.value.func.id == "super"
            self.set_sites.append({"file": self.rel, "line": node.lineno, "end": node.end_lineno or node.lineno,
                                   "func": self.qual(), "method": f.attr, "cls": EXPR_TO_CLASS[ex], "expr": ex,
                                   "arg": src,
                                   # is a tick time at hand where the site stands?  (a `tick_time` parameter, or the
                                   # enclosing class reads some `…._tick_time` field)
                                   "time_at_hand": "tick_time" in params or (self.cur_cls() or "") in self.classes_with_field,
                                   # an overriding wrapper: `super().<same method>(…)` inside a method of that name
                                   "wrapper": bool(fn is not None and is_super and fn.name == f.attr)})
        elif name in self.tt_funcs and name not in SET_METHODS:
            arg, starred = self._time_arg(node, self.tt_funcs[name])
            if arg is not None:
                self.time_calls.append({"file": self.rel, "line": node.lineno, "func": self.qual(), "callee": name,
                                        "expr": arg_expr(arg, self.cur_fn(), self.cur_cls()),
                                        "arg": ast.unparse(arg)})
            elif starred:
                self.time_calls.append({"file": self.rel, "line": node.lineno, "func": self.qual(), "callee": name,
                                        "expr": "forward", "arg": "*args"})
        if name == "setattr" and isinstance(f, ast.Name) and len(node.args) >= 2:
            a = node.args[1]
            if isinstance(a, ast.Constant) and isinstance(a.value, str):
                if a.value in VALUE_FIELDS:
                    self.assigns.append({"file": self.rel, "line": node.lineno, "cls": self.cur_cls() or "",
                                         "func": self.qual(), "field": a.value, "kind": "foreign",
                                         "target": "setattr(" + ast.unparse(node.args[0]) + ")"})
            else:
                recv = node.args[0]
                on_self_non_tag = isinstance(recv, ast.Name) and recv.id == "self" and bool(self.cls) and \
                    self.cls[-1] not in self.tag_classes
                self.dyn_setattrs.append({"file": self.rel, "line": node.lineno, "func": self.qual(),
                                          "src": ast.unparse(node),
                                          "kind": "otherClass" if on_self_non_tag else "unknown"})
        self.generic_visit(node)

    def _target(self, t: ast.expr, value: ast.expr | None, line: int):
        if not isinstance(t, ast.Attribute):
            if isinstance(t, (ast.Tuple, ast.List)):
                for x in t.elts:
                    self._target(x, None, line)
            elif isinstance(t, ast.Starred):
                self._target(t.value, None, line)
            return
        fn = self.cur_fn()
        fname = fn.name if fn else "<module>"
        is_self = isinstance(t.value, ast.Name) and t.value.id == "self"
        in_tag = bool(self.cls) and self.cls[-1] in self.tag_classes
        if t.attr in VALUE_FIELDS:
            if is_self and in_tag:
                # a method of Tag itself that assigns a field and afterwards calls self.notify_listeners(…) is a
                # notifying primitive (public or a private helper of one): no method names are pinned
                kind = "init" if fname == "__init__" else \
                    "notifying" if self.cls[-1] == "Tag" and fn is not None and _notifies_after(fn, line) else "silent"
            elif is_self and self.cls:
                kind = "otherClass"
            elif self._non_tag_receiver(t.value):
                kind = "foreignNonTag"
            else:
                kind = "foreign"
            self.assigns.append({"file": self.rel, "line": line, "cls": self.cur_cls() or "", "func": self.qual(),
                                 "field": t.attr, "kind": kind, "target": ast.unparse(t)})
        if t.attr == "tick_time" and not (is_self and self.cls and not in_tag):
            # `<tag>.tick_time = …` (self.tick_time of non-tag classes such as CommandManager is not a tag stamp)
            ex = arg_expr(value, fn, self.cur_cls())
            self.stamps.append({"file": self.rel, "line": line, "func": self.qual(), "cls": EXPR_TO_CLASS[ex],
                                "expr": ex, "init": fname == "__init__",
                                "rhs": ast.unparse(value) if value is not None else ""})
        if t.attr == "_tick_time" and is_self and self.sites:
            ex = arg_expr(value, fn, self.cur_cls())
            self.field_writes.append({"file": self.rel, "line": line, "func": self.qual(), "cls": EXPR_TO_CLASS[ex],
                                      "expr": ex, "init": fname == "__init__",
                                      "rhs": ast.unparse(value) if value is not None else ""})

    def _non_tag_receiver(self, recv: ast.expr) -> bool:
        """`x.value = …` where x is the variable of an enclosing `for x in self.<attr>` and the class annotates
        `self.<attr>` with element classes none of which is a Tag subclass (e.g. `list[BlockTimeTag.StackItem]`)."""
        if not isinstance(recv, ast.Name) or not self.fn or not self.class_nodes:
            return False
        for n in ast.walk(self.fn[-1]):
            if isinstance(n, ast.For) and isinstance(n.target, ast.Name) and n.target.id == recv.id and \
                    isinstance(n.iter, ast.Attribute) and isinstance(n.iter.value, ast.Name) and n.iter.value.id == "self":
                for a in ast.walk(self.class_nodes[-1]):
                    if isinstance(a, ast.AnnAssign) and isinstance(a.target, ast.Attribute) and \
                            a.target.attr == n.iter.attr and isinstance(a.target.value, ast.Name) and a.target.value.id == "self":
                        names = {x.attr if isinstance(x, ast.Attribute) else x.id for x in ast.walk(a.annotation)
                                 if isinstance(x, (ast.Name, ast.Attribute))}
                        elems = names - {"list", "List", "dict", "Dict", "set", "Set", "tuple", "Tuple", "str", "int", "float"}
                        elems -= {c for c in self.cls}       # qualifying outer class names
                        return bool(elems) and not (elems & self.tag_classes) and elems <= self.all_classes
        return False

    def visit_Assign(self, node: ast.Assign):
        for t in node.targets:
            self._target(t, node.value, node.lineno)
        self.generic_visit(node)

    def visit_AnnAssign(self, node: ast.AnnAssign):
        self._target(node.target, node.value, node.lineno)
        self.generic_visit(node)

    def visit_AugAssign(self, node: ast.AugAssign):
        self._target(node.target, None, node.lineno)
        self.generic_visit(node)

    def visit_NamedExpr(self, node: ast.NamedExpr):
        self.generic_visit(node)

    def visit_For(self, node: ast.For):
        self._target(node.target, None, node.lineno)
        self.generic_visit(node)

    def visit_With(self, node: ast.With):
        for it in node.items:
            if it.optional_vars is not None:
                self._target(it.optional_vars, None, node.lineno)
        self.generic_visit(node)


def tag_class_closure(trees: dict[str, ast.Module]) -> set[str]:
    known = {"Tag"}
    changed = True
    while changed:
        changed = False
        for tree in trees.values():
            for n in ast.walk(tree):
                if isinstance(n, ast.ClassDef) and n.name not in known:
                    bases = {b.id if isinstance(b, ast.Name) else b.attr if isinstance(b, ast.Attribute) else ""
                             for b in n.bases}
                    if bases & known:
                        known.add(n.name)
                        changed = True
    return known


def tick_time_functions(trees: dict[str, ast.Module]) -> dict[str, int]:
    """function name -> position of its `tick_time` parameter (self not counted); names declared with different
    positions keep the smallest (the table then shows what is passed there)."""
    out: dict[str, int] = {}
    for tree in trees.values():
        for n in ast.walk(tree):
            if isinstance(n, (ast.FunctionDef, ast.AsyncFunctionDef)) and n.name != "__init__":
                names = [a.arg for a in n.args.posonlyargs + n.args.args]
                if names and names[0] in ("self", "cls"):
                    names = names[1:]
                if "tick_time" in names:
                    p = names.index("tick_time")
                    out[n.name] = min(out.get(n.name, p), p)
    return out


CONTAINER_METHODS = {"values", "keys", "items", "append"}


class Resolver:
    """Decides, without pinning names, whether a call in a tick function can reach a tag and whether it hands the
    tick time down."""
    def __init__(self, trees: dict[str, ast.Module], tree: ast.Module, cls_name: str, tt_funcs: dict[str, int]):
        self.tt_funcs = tt_funcs
        self.loggers = {t.id for n in tree.body if isinstance(n, ast.Assign) and isinstance(n.value, ast.Call)
                        and dotted(n.value.func).endswith("getLogger") for t in n.targets if isinstance(t, ast.Name)}
        self.classes: dict[str, list[ast.ClassDef]] = {}
        for tr in trees.values():
            for n in ast.walk(tr):
                if isinstance(n, ast.ClassDef):
                    self.classes.setdefault(n.name, []).append(n)
        # attribute of self -> annotated class (from `self.x: T = …` in the class)
        self.attr_type: dict[str, str] = {}
        for c in self.classes.get(cls_name, []):
            for n in ast.walk(c):
                if isinstance(n, ast.AnnAssign) and isinstance(n.target, ast.Attribute) and \
                        isinstance(n.target.value, ast.Name) and n.target.value.id == "self" and \
                        isinstance(n.annotation, ast.Name):
                    self.attr_type[n.target.attr] = n.annotation.id

    def family(self, name: str) -> list[ast.ClassDef]:
        fam, names, changed = list(self.classes.get(name, [])), {name}, True
        while changed:
            changed = False
            for cname, defs in self.classes.items():
                if cname in names:
                    continue
                for d in defs:
                    if {b.id if isinstance(b, ast.Name) else getattr(b, "attr", "") for b in d.bases} & names:
                        names.add(cname)
                        fam += defs
                        changed = True
                        break
        return fam

    def reaches(self, call: ast.Call) -> bool:
        """False only when the call provably cannot reach a tag: logging, container access, or a method of an
        annotated attribute's class whose implementations (incl. subclasses) make no calls at all."""
        name = dotted(call.func)
        if name.split(".")[0] in self.loggers:
            return False
        f = call.func
        if isinstance(f, ast.Attribute) and f.attr in CONTAINER_METHODS and not \
                (isinstance(f.value, ast.Name) and f.value.id == "self"):
            return False
        if isinstance(f, ast.Attribute) and isinstance(f.value, ast.Attribute) and \
                isinstance(f.value.value, ast.Name) and f.value.value.id == "self" and f.value.attr in self.attr_type:
            impls = [m for c in self.family(self.attr_type[f.value.attr]) for m in c.body
                     if isinstance(m, (ast.FunctionDef, ast.AsyncFunctionDef)) and m.name == f.attr]
            if impls and not any(isinstance(n, ast.Call) for m in impls for n in ast.walk(m)):
                return False
        return True

    def passes_time(self, call: ast.Call) -> bool:
        f = call.func
        name = f.attr if isinstance(f, ast.Attribute) else f.id if isinstance(f, ast.Name) else None
        return name in self.tt_funcs and name not in SET_METHODS and self.tt_funcs[name] == 0 and \
            bool(call.args) and not isinstance(call.args[0], ast.Starred)


def stmt_list(fn: ast.FunctionDef, cls_name: str, res: Resolver) -> list[dict]:
    """Statements of a tick function in evaluation order: `_tick_time` assignments, bulk stamps, calls."""
    out: list[dict] = []

    def calls_in(e: ast.AST):
        # evaluation order: arguments before the call itself
        for c in ast.iter_child_nodes(e):
            calls_in(c)
        if isinstance(e, ast.Call):
            a0 = e.args[0] if e.args and not isinstance(e.args[0], ast.Starred) else None
            out.append({"kind": "call", "name": dotted(e.func),
                        "expr": arg_expr(a0, fn, cls_name) if a0 is not None else "none",
                        "reach": res.reaches(e), "passes": res.passes_time(e)})

    def walk(stmts):
        for s in stmts:
            if isinstance(s, (ast.Assign, ast.AnnAssign, ast.AugAssign)):
                val = getattr(s, "value", None)
                if val is not None:
                    calls_in(val)
                targets = s.targets if isinstance(s, ast.Assign) else [s.target]
                for t in targets:
                    if isinstance(t, ast.Attribute) and t.attr == "_tick_time":
                        out.append({"kind": "assign", "name": ast.unparse(t), "expr": arg_expr(val, fn, cls_name)})
                    elif isinstance(t, ast.Attribute) and t.attr == "tick_time":
                        out.append({"kind": "stamp", "name": ast.unparse(t), "expr": arg_expr(val, fn, cls_name)})
            elif isinstance(s, (ast.If, ast.While)):
                calls_in(s.test)
                walk(s.body)
                walk(s.orelse)
            elif isinstance(s, ast.For):
                calls_in(s.iter)
                walk(s.body)
                walk(s.orelse)
            elif isinstance(s, ast.With):
                for it in s.items:
                    calls_in(it.context_expr)
                walk(s.body)
            elif isinstance(s, ast.Try):
                walk(s.body)
                for h in s.handlers:
                    walk(h.body)
                walk(s.orelse)
                walk(s.finalbody)
            elif isinstance(s, (ast.FunctionDef, ast.AsyncFunctionDef, ast.ClassDef)):
                pass
            else:
                calls_in(s)
    walk(fn.body)
    return out


def find_method(tree: ast.Module, cls: str, name: str) -> ast.FunctionDef | None:
    for n in ast.walk(tree):
        if isinstance(n, ast.ClassDef) and n.name == cls:
            for m in n.body:
                if isinstance(m, (ast.FunctionDef, ast.AsyncFunctionDef)) and m.name == name:
                    return m  # type: ignore[return-value]
    return None


def scan() -> dict:
    root = repo_root()
    wide = sorted({str(p.relative_to(root)) for d in WIDE_DIRS for p in (root / d).rglob("*.py")
                   if "test" not in p.relative_to(root).parts})
    trees = {rel: ast.parse((root / rel).read_text(), filename=rel) for rel in sorted(set(wide) | set(FILES))}
    tag_classes = tag_class_closure(trees)
    tt_funcs = tick_time_functions(trees)
    out: dict = {"set_sites": [], "assigns": [], "stamps": [], "field_writes": [], "dyn_setattrs": [],
                 "time_calls": []}
    classes_with_field = {c.name for tr in trees.values() for c in ast.walk(tr) if isinstance(c, ast.ClassDef)
                          and any(isinstance(n, ast.Attribute) and n.attr == "_tick_time" for n in ast.walk(c))}
    all_classes = {c.name for tr in trees.values() for c in ast.walk(tr) if isinstance(c, ast.ClassDef)}
    for rel in FILES + [r for r in trees if r not in FILES]:
        s = Scan(rel, tag_classes, rel in FILES, tt_funcs, classes_with_field, all_classes)
        s.visit(trees[rel])
        out["set_sites"] += s.set_sites
        out["assigns"] += s.assigns
        out["stamps"] += s.stamps
        out["field_writes"] += s.field_writes
        out["dyn_setattrs"] += s.dyn_setattrs
        out["time_calls"] += s.time_calls
    et = find_method(trees["engine/engine.py"], "Engine", "tick")
    it = find_method(trees["lang/exec/pinterpreter.py"], "PInterpreter", "tick_iterate_subticks")
    out["engine_tick"] = stmt_list(et, "Engine", Resolver(trees, trees["engine/engine.py"], "Engine", tt_funcs)) \
        if et is not None else []
    out["interp_tick"] = stmt_list(it, "PInterpreter", Resolver(trees, trees["lang/exec/pinterpreter.py"],
                                                               "PInterpreter", tt_funcs)) if it is not None else []
    out["tag_classes"] = sorted(tag_classes)
    out["tt_funcs"] = tt_funcs
    out["wide_files"] = len(trees)
    return out


def lean_str(s: str) -> str:
    out = []
    for ch in s:
        if ch in '"\\':
            out.append("\\" + ch)
        elif 32 <= ord(ch) < 127:
            out.append(ch)
        else:
            out.append("\\u%04x" % (ord(ch) & 0xFFFF))
    return '"' + "".join(out) + '"'


def render(t: dict) -> str:
    def b(x: bool) -> str:
        return "true" if x else "false"
    L = ["/- GENERATED by harness/translators/tag_sites.py from the source of the imported openpectus package"
         " -- do not edit. -/",
         "import OPM.Model.Tags", "namespace OPM.Gen.TagSites", "open OPM.Tags", "",
         "structure SetSite where", "  file : String", "  line : Nat", "  endLine : Nat", "  func : String",
         "  method : String", "  cls : TimeClass", "  expr : ArgExpr", "  arg : String", "  timeAtHand : Bool",
         "  wrapper : Bool", "deriving Repr, DecidableEq", "",
         "structure AssignSite where", "  file : String", "  line : Nat", "  cls : String", "  func : String",
         "  field : String", "  kind : String", "  target : String", "deriving Repr, DecidableEq", "",
         "structure StampSite where", "  file : String", "  line : Nat", "  func : String", "  cls : TimeClass",
         "  expr : ArgExpr", "  init : Bool", "  rhs : String", "deriving Repr, DecidableEq", "",
         "structure TimeCall where", "  file : String", "  line : Nat", "  func : String", "  callee : String",
         "  expr : ArgExpr", "  arg : String", "deriving Repr, DecidableEq", "",
         "/-- every call of set_value / set_value_and_unit / simulate_value / simulate_value_and_unit -/",
         "def setSites : List SetSite := ["]
    L.append(",\n".join(
        f"  ⟨{lean_str(s['file'])}, {s['line']}, {s['end']}, {lean_str(s['func'])}, {lean_str(s['method'])}, "
        f".{s['cls']}, .{s['expr']}, {lean_str(s['arg'])}, {b(s['time_at_hand'])}, {b(s['wrapper'])}⟩"
        for s in t["set_sites"]))
    L += ["]", "", "/-- every assignment to an attribute value / simulated_value / simulated, on any receiver -/",
          "def valueAssigns : List AssignSite := ["]
    L.append(",\n".join(
        f"  ⟨{lean_str(s['file'])}, {s['line']}, {lean_str(s['cls'])}, {lean_str(s['func'])}, "
        f"{lean_str(s['field'])}, {lean_str(s['kind'])}, {lean_str(s['target'])}⟩" for s in t["assigns"]))
    L += ["]", "", "/-- every setattr whose attribute name is not a literal: (file, function, source, kind); kind",
          "    otherClass = on `self` inside a class that is not a Tag subclass -/",
          "def dynamicSetattrs : List (String × String × String × String) := ["]
    L.append(",\n".join(f"  ({lean_str(s['file'])}, {lean_str(s['func'])}, {lean_str(s['src'])}, {lean_str(s['kind'])})"
                        for s in t["dyn_setattrs"]))
    L += ["]", "", "/-- every assignment to a tag's tick_time field -/", "def stampSites : List StampSite := ["]
    L.append(",\n".join(
        f"  ⟨{lean_str(s['file'])}, {s['line']}, {lean_str(s['func'])}, .{s['cls']}, .{s['expr']}, "
        f"{b(s['init'])}, {lean_str(s['rhs'])}⟩" for s in t["stamps"]))
    L += ["]", "", "/-- every assignment to self._tick_time (Engine, PInterpreter) -/",
          "def tickTimeFieldWrites : List StampSite := ["]
    L.append(",\n".join(
        f"  ⟨{lean_str(s['file'])}, {s['line']}, {lean_str(s['func'])}, .{s['cls']}, .{s['expr']}, "
        f"{b(s['init'])}, {lean_str(s['rhs'])}⟩" for s in t["field_writes"]))
    L += ["]", "", "/-- every call of a function that declares a `tick_time` parameter, with what is passed there -/",
          "def tickTimeCalls : List TimeCall := ["]
    L.append(",\n".join(
        f"  ⟨{lean_str(s['file'])}, {s['line']}, {lean_str(s['func'])}, {lean_str(s['callee'])}, .{s['expr']}, "
        f"{lean_str(s['arg'])}⟩" for s in t["time_calls"]))

    def stmts(name: str, doc: str, items: list[dict]):
        L.extend(["]", "", f"/-- {doc} -/", f"def {name} : List Stmt := ["])
        rows = []
        for s in items:
            if s["kind"] == "assign":
                rows.append(f"  .assign {lean_str(s['name'])} .{s['expr']}")
            elif s["kind"] == "stamp":
                rows.append(f"  .stamp .{s['expr']}")
            else:
                a = "none" if s["expr"] == "none" else f"(some .{s['expr']})"
                rows.append(f"  .call {lean_str(s['name'])} {a} {b(s['reach'])} {b(s['passes'])}")
        L.append(",\n".join(rows))
    stmts("engineTickStmts", "Engine.tick in evaluation order", t["engine_tick"])
    stmts("interpTickStmts", "PInterpreter.tick_iterate_subticks in evaluation order", t["interp_tick"])
    L += ["]", "", "/-- Tag and its subclasses found in the scanned files -/",
          "def tagClasses : List String := [" + ", ".join(lean_str(c) for c in t["tag_classes"]) + "]", "",
          "end OPM.Gen.TagSites", ""]
    return "\n".join(L)


def generate() -> dict:
    t = scan()
    text = render(t)
    if not OUT.exists() or OUT.read_text() != text:
        OUT.write_text(text)
    return t


if __name__ == "__main__":
    import json
    print(json.dumps(generate(), indent=1))
