"""Translator for the tag/report model M5 (C16, C36): regenerates lean/OPM/Gen/TagSites.lean from an AST scan of

    openpectus/lang/exec/tags.py, tags_impl.py, pinterpreter.py,
    openpectus/engine/engine.py, internal_commands_impl.py, archiver.py, hardware_recovery.py,
    engine_message_builder.py

* `setSites`     every call `<x>.set_value(…)`, `set_value_and_unit`, `simulate_value`, `simulate_value_and_unit`
                 with the syntactic class of the expression it passes as tick time:
                 tickTime (a `tick_time` parameter or a `…._tick_time` field), tickNumber (`_tick_number` /
                 `tick_number`), wallClock (`time.time()` / `time.monotonic()` / `time()`), forward (`*args` of an
                 overriding wrapper), other.
* `valueAssigns` every assignment to `self.value` / `self.simulated_value` / `self.simulated` inside a `Tag`
                 subclass: kind init (in `__init__`), primitive (inside Tag.set_value / simulate_value /
                 simulate_value_and_unit / stop_simulation themselves) or silent (anywhere else).
* `stampSites`   every assignment to some `<x>.tick_time`, with the class of the right hand side.
* `tickTimeFieldWrites`  every assignment to `self._tick_time` (Engine, PInterpreter), with the class of the rhs.

The files are located through the imported `openpectus` package, so the scan follows PYTHONPATH.
"""
from __future__ import annotations

import ast
from pathlib import Path

from vp import core as _core  # the Lean project this run works in (private copy for scratch trees)
OUT = _core.LEAN / "OPM" / "Gen" / "TagSites.lean"

FILES = [
    "lang/exec/tags.py", "lang/exec/tags_impl.py", "lang/exec/pinterpreter.py",
    "engine/engine.py", "engine/internal_commands_impl.py", "engine/archiver.py",
    "engine/hardware_recovery.py", "engine/engine_message_builder.py",
]
SET_METHODS = {"set_value": 1, "set_value_and_unit": 2, "simulate_value": 1, "simulate_value_and_unit": 2}
PRIMITIVES = {"set_value", "set_value_and_unit", "simulate_value", "simulate_value_and_unit", "stop_simulation"}
VALUE_FIELDS = {"value", "simulated_value", "simulated"}


def repo_root() -> Path:
    import openpectus
    return Path(openpectus.__file__).resolve().parent


def _is_wall(e: ast.expr) -> bool:
    if not isinstance(e, ast.Call) or e.args or e.keywords:
        return False
    f = e.func
    if isinstance(f, ast.Attribute) and isinstance(f.value, ast.Name) and f.value.id == "time" \
            and f.attr in ("time", "monotonic"):
        return True
    return isinstance(f, ast.Name) and f.id in ("time", "monotonic")


def classify(e: ast.expr, fn: ast.FunctionDef | ast.AsyncFunctionDef | None, depth: int = 0) -> str:
    if _is_wall(e):
        return "wallClock"
    if isinstance(e, ast.Attribute):
        if e.attr == "_tick_time":
            return "tickTime"
        if e.attr in ("_tick_number", "tick_number"):
            return "tickNumber"
        return "other"
    if isinstance(e, ast.Name) and fn is not None:
        params = [a.arg for a in fn.args.posonlyargs + fn.args.args + fn.args.kwonlyargs]
        if e.id in params:
            return {"tick_time": "tickTime", "tick_number": "tickNumber"}.get(e.id, "other")
        if depth < 3:
            rhs = [n.value for n in ast.walk(fn) if isinstance(n, ast.Assign)
                   and any(isinstance(t, ast.Name) and t.id == e.id for t in n.targets)]
            if len(rhs) == 1:
                return classify(rhs[0], fn, depth + 1)
        return "other"
    return "other"


class Scan(ast.NodeVisitor):
    def __init__(self, rel: str, tag_classes: set[str]):
        self.rel = rel
        self.tag_classes = tag_classes
        self.cls: list[str] = []
        self.fn: list[ast.FunctionDef | ast.AsyncFunctionDef] = []
        self.set_sites: list[dict] = []
        self.assigns: list[dict] = []
        self.stamps: list[dict] = []
        self.field_writes: list[dict] = []

    def qual(self) -> str:
        return ".".join(self.cls + [f.name for f in self.fn]) or "<module>"

    def visit_ClassDef(self, node: ast.ClassDef):
        self.cls.append(node.name)
        saved, self.fn = self.fn, []
        self.generic_visit(node)
        self.fn = saved
        self.cls.pop()

    def visit_FunctionDef(self, node):
        self.fn.append(node)
        self.generic_visit(node)
        self.fn.pop()

    visit_AsyncFunctionDef = visit_FunctionDef

    def visit_Call(self, node: ast.Call):
        f = node.func
        if isinstance(f, ast.Attribute) and f.attr in SET_METHODS:
            pos = SET_METHODS[f.attr]
            fn = self.fn[-1] if self.fn else None
            arg = None
            for kw in node.keywords:
                if kw.arg == "tick_time":
                    arg = kw.value
            plain = [a for a in node.args if not isinstance(a, ast.Starred)]
            starred = any(isinstance(a, ast.Starred) for a in node.args)
            if arg is None and len(plain) > pos:
                arg = plain[pos]
            if arg is not None:
                cls, src = classify(arg, fn), ast.unparse(arg)
            elif starred:
                cls, src = "forward", "*args"
            else:
                cls, src = "other", "<missing>"
            self.set_sites.append({"file": self.rel, "line": node.lineno, "func": self.qual(), "method": f.attr,
                                   "cls": cls, "arg": src})
        self.generic_visit(node)

    def _target(self, t: ast.expr, value: ast.expr | None, line: int):
        if not isinstance(t, ast.Attribute):
            if isinstance(t, (ast.Tuple, ast.List)):
                for x in t.elts:
                    self._target(x, None, line)
            return
        fn = self.fn[-1] if self.fn else None
        fname = fn.name if fn else "<module>"
        is_self = isinstance(t.value, ast.Name) and t.value.id == "self"
        if t.attr in VALUE_FIELDS and is_self and self.cls and self.cls[-1] in self.tag_classes:
            if fname == "__init__":
                kind = "init"
            elif self.cls[-1] == "Tag" and fname in PRIMITIVES:
                kind = "primitive"
            else:
                kind = "silent"
            self.assigns.append({"file": self.rel, "line": line, "cls": self.cls[-1], "func": fname,
                                 "field": t.attr, "kind": kind})
        if t.attr == "tick_time" and not (is_self and self.cls and self.cls[-1] not in self.tag_classes):
            # `<tag>.tick_time = …` (self.tick_time of non-tag classes such as CommandManager is not a tag stamp)
            c = classify(value, fn) if value is not None else "other"
            self.stamps.append({"file": self.rel, "line": line, "func": self.qual(), "cls": c,
                                "init": fname == "__init__", "rhs": ast.unparse(value) if value is not None else ""})
        if t.attr == "_tick_time" and is_self:
            c = classify(value, fn) if value is not None else "other"
            self.field_writes.append({"file": self.rel, "line": line, "func": self.qual(), "cls": c,
                                      "init": fname == "__init__", "rhs": ast.unparse(value) if value is not None else ""})

    def visit_Assign(self, node: ast.Assign):
        for t in node.targets:
            self._target(t, node.value, node.lineno)
        self.generic_visit(node)

    def visit_AnnAssign(self, node: ast.AnnAssign):
        self._target(node.target, node.value, node.lineno)
        self.generic_visit(node)

    def visit_AugAssign(self, node: ast.AugAssign):
        self._target(node.target, None, node.lineno)
        self.generic_visit(node)


def tag_class_closure(trees: dict[str, ast.Module]) -> set[str]:
    known = {"Tag"}
    changed = True
    while changed:
        changed = False
        for tree in trees.values():
            for n in ast.walk(tree):
                if isinstance(n, ast.ClassDef) and n.name not in known:
                    bases = {b.id if isinstance(b, ast.Name) else b.attr if isinstance(b, ast.Attribute) else ""
                             for b in n.bases}
                    if bases & known:
                        known.add(n.name)
                        changed = True
    return known


def scan() -> dict[str, list[dict]]:
    root = repo_root()
    trees = {rel: ast.parse((root / rel).read_text(), filename=rel) for rel in FILES}
    tag_classes = tag_class_closure(trees)
    out: dict[str, list[dict]] = {"set_sites": [], "assigns": [], "stamps": [], "field_writes": []}
    for rel, tree in trees.items():
        s = Scan(rel, tag_classes)
        s.visit(tree)
        out["set_sites"] += s.set_sites
        out["assigns"] += s.assigns
        out["stamps"] += s.stamps
        out["field_writes"] += s.field_writes
    out["tag_classes"] = sorted(tag_classes)  # type: ignore[assignment]
    return out


def lean_str(s: str) -> str:
    out = []
    for ch in s:
        if ch in '"\\':
            out.append("\\" + ch)
        elif 32 <= ord(ch) < 127:
            out.append(ch)
        else:
            out.append("\\u%04x" % (ord(ch) & 0xFFFF))
    return '"' + "".join(out) + '"'


def render(t: dict) -> str:
    L = ["/- GENERATED by harness/translators/tag_sites.py from the source of the imported openpectus package"
         " -- do not edit. -/",
         "import OPM.Model.Tags", "namespace OPM.Gen.TagSites", "open OPM.Tags", "",
         "structure SetSite where", "  file : String", "  line : Nat", "  func : String", "  method : String",
         "  cls : TimeClass", "  arg : String", "deriving Repr, DecidableEq", "",
         "structure AssignSite where", "  file : String", "  line : Nat", "  cls : String", "  func : String",
         "  field : String", "  kind : String", "deriving Repr, DecidableEq", "",
         "structure StampSite where", "  file : String", "  line : Nat", "  func : String", "  cls : TimeClass",
         "  init : Bool", "  rhs : String", "deriving Repr, DecidableEq", "",
         "/-- every call of set_value / set_value_and_unit / simulate_value / simulate_value_and_unit -/",
         "def setSites : List SetSite := ["]
    L.append(",\n".join(
        f"  ⟨{lean_str(s['file'])}, {s['line']}, {lean_str(s['func'])}, {lean_str(s['method'])}, .{s['cls']}, "
        f"{lean_str(s['arg'])}⟩" for s in t["set_sites"]))
    L += ["]", "", "/-- every assignment to self.value / self.simulated_value / self.simulated in a Tag subclass -/",
          "def valueAssigns : List AssignSite := ["]
    L.append(",\n".join(
        f"  ⟨{lean_str(s['file'])}, {s['line']}, {lean_str(s['cls'])}, {lean_str(s['func'])}, "
        f"{lean_str(s['field'])}, {lean_str(s['kind'])}⟩" for s in t["assigns"]))
    L += ["]", "", "/-- every assignment to a tag's tick_time field -/", "def stampSites : List StampSite := ["]
    L.append(",\n".join(
        f"  ⟨{lean_str(s['file'])}, {s['line']}, {lean_str(s['func'])}, .{s['cls']}, "
        f"{'true' if s['init'] else 'false'}, {lean_str(s['rhs'])}⟩" for s in t["stamps"]))
    L += ["]", "", "/-- every assignment to self._tick_time (Engine, PInterpreter) -/",
          "def tickTimeFieldWrites : List StampSite := ["]
    L.append(",\n".join(
        f"  ⟨{lean_str(s['file'])}, {s['line']}, {lean_str(s['func'])}, .{s['cls']}, "
        f"{'true' if s['init'] else 'false'}, {lean_str(s['rhs'])}⟩" for s in t["field_writes"]))
    L += ["]", "", "/-- Tag and its subclasses found in the scanned files -/",
          "def tagClasses : List String := [" + ", ".join(lean_str(c) for c in t["tag_classes"]) + "]", "",
          "end OPM.Gen.TagSites", ""]
    return "\n".join(L)


def generate() -> dict:
    t = scan()
    text = render(t)
    if not OUT.exists() or OUT.read_text() != text:
        OUT.write_text(text)
    return t


if __name__ == "__main__":
    import json
    print(json.dumps(generate(), indent=1))
