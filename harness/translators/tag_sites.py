"""Translator for the tag/report model M5 (C16, C36): regenerates lean/OPM/Gen/TagSites.lean from an AST scan.

Call-site tables (files FILES: tags.py, tags_impl.py, pinterpreter.py, engine.py, internal_commands_impl.py,
archiver.py, hardware_recovery.py, engine_message_builder.py):

* `setSites`     every call `<x>.set_value(…)`, `set_value_and_unit`, `simulate_value`, `simulate_value_and_unit`
                 with the *expression* it passes as tick time, translated to `ArgExpr`:
                   param        the `tick_time` parameter of the enclosing (non-generator) function
                   engineField  `Engine._tick_time` (`self._tick_time` inside Engine, `e._tick_time`, `engine._tick_time`)
                   interpField  `PInterpreter._tick_time` (`self._tick_time` inside PInterpreter)
                   wall         `time.time()` / `time.monotonic()` / `time()` (also through one local variable)
                   tickNumber   `_tick_number` / `tick_number`
                   forward      `*args` handed on by an overriding wrapper
                   other        anything else — incl. a local variable of a *generator* function (a value captured
                                before a `yield` outlives the tick) and `self.tick_time` (a tag's own old stamp)
                 and the coarser `TimeClass` derived from it.
* `stampSites`   every assignment to some `<x>.tick_time` (tag stamps), with the ArgExpr of the right hand side.
* `tickTimeFieldWrites`  every assignment to `self._tick_time` (Engine, PInterpreter), with the ArgExpr of the rhs.
* `engineTickStmts` / `interpTickStmts`   Engine.tick and PInterpreter.tick_iterate_subticks as statement lists in
                 evaluation order: assignments of the `_tick_time` field, the bulk stamp of the first tick, and every
                 call (dotted callee, ArgExpr of its first positional argument).
* `tickTimeCalls` every call (wide scan) of a function that declares a parameter named `tick_time` (other than the
                 four primitives above), with the ArgExpr passed in that position.

Assignment table (WIDE scan: every .py below openpectus/engine and openpectus/lang/exec):

* `valueAssigns` every assignment (plain, annotated, augmented, tuple target) to an attribute named `value`,
                 `simulated_value` or `simulated` on ANY receiver, and every `setattr(obj, "<that name>", …)`:
                   init        `self.<f>` in `__init__` of a Tag subclass
                   primitive   `self.<f>` inside Tag.set_value / simulate_value(_and_unit) / stop_simulation
                   silent      `self.<f>` anywhere else in a Tag subclass
                   otherClass  `self.<f>` inside a class that is not a Tag subclass (TagValue, StackItem …)
                   foreign     receiver is not `self` (e.g. `tag.value = …` in engine code, `item.value += …`)
* `dynamicSetattrs` every `setattr` whose attribute name is not a string literal.

The files are located through the imported `openpectus` package, so the scan follows PYTHONPATH.
"""
from __future__ import annotations

import ast
from pathlib import Path

from vp import core as _core  # the Lean project this run works in (private copy for scratch trees)
OUT = _core.LEAN / "OPM" / "Gen" / "TagSites.lean"

FILES = [
    "lang/exec/tags.py", "lang/exec/tags_impl.py", "lang/exec/pinterpreter.py",
    "engine/engine.py", "engine/internal_commands_impl.py", "engine/archiver.py",
    "engine/hardware_recovery.py", "engine/engine_message_builder.py",
]
WIDE_DIRS = ["engine", "lang/exec"]
SET_METHODS = {"set_value": 1, "set_value_and_unit": 2, "simulate_value": 1, "simulate_value_and_unit": 2}
PRIMITIVES = {"set_value", "set_value_and_unit", "simulate_value", "simulate_value_and_unit", "stop_simulation"}
VALUE_FIELDS = {"value", "simulated_value", "simulated"}
EXPR_TO_CLASS = {"param": "tickTime", "engineField": "tickTime", "interpField": "tickTime", "wall": "wallClock",
                 "tickNumber": "tickNumber", "forward": "forward", "other": "other"}


def repo_root() -> Path:
    import openpectus
    return Path(openpectus.__file__).resolve().parent


def _is_wall(e: ast.expr) -> bool:
    if not isinstance(e, ast.Call) or e.args or e.keywords:
        return False
    f = e.func
    if isinstance(f, ast.Attribute) and isinstance(f.value, ast.Name) and f.value.id == "time" \
            and f.attr in ("time", "monotonic"):
        return True
    return isinstance(f, ast.Name) and f.id in ("time", "monotonic")


def _is_generator(fn: ast.AST) -> bool:
    # PInterpreter.tick_iterate_subticks is created and exhausted inside one PInterpreter.tick call (table
    # `tickTimeCalls` shows that call): its parameter is that tick's argument, it does not live across ticks
    if getattr(fn, "name", "") == "tick_iterate_subticks":
        return False
    for n in ast.walk(fn):
        if isinstance(n, (ast.Yield, ast.YieldFrom)):
            return True
    return False


def arg_expr(e: ast.expr | None, fn, cls_name: str | None, depth: int = 0) -> str:
    """Translate the expression passed as tick time."""
    if e is None:
        return "other"
    if _is_wall(e):
        return "wall"
    if isinstance(e, ast.Attribute):
        if e.attr == "_tick_time":
            recv_self = isinstance(e.value, ast.Name) and e.value.id == "self"
            if recv_self:
                return {"PInterpreter": "interpField", "Engine": "engineField"}.get(cls_name or "", "other")
            src = ast.unparse(e.value)
            if src in ("e", "engine", "self.engine", "instance.engine", "self._engine"):
                return "engineField"
            return "other"
        if e.attr in ("_tick_number", "tick_number"):
            return "tickNumber"
        return "other"
    if isinstance(e, ast.Name) and fn is not None:
        params = [a.arg for a in fn.args.posonlyargs + fn.args.args + fn.args.kwonlyargs]
        if e.id in params:
            if e.id == "tick_time":
                # a parameter of a generator function is bound when the generator is created, not per tick
                return "other" if _is_generator(fn) else "param"
            return "tickNumber" if e.id == "tick_number" else "other"
        if _is_generator(fn):
            return "other"          # a local of a generator lives across ticks
        if depth < 3:
            rhs = [n.value for n in ast.walk(fn) if isinstance(n, ast.Assign)
                   and any(isinstance(t, ast.Name) and t.id == e.id for t in n.targets)]
            if len(rhs) == 1:
                return arg_expr(rhs[0], fn, cls_name, depth + 1)
        return "other"
    return "other"


def dotted(n: ast.AST) -> str:
    if isinstance(n, ast.Attribute):
        return dotted(n.value) + "." + n.attr
    if isinstance(n, ast.Name):
        return n.id
    if isinstance(n, ast.Call):
        return dotted(n.func) + "()"
    if isinstance(n, ast.Subscript):
        return dotted(n.value) + "[]"
    return type(n).__name__


class Scan(ast.NodeVisitor):
    def __init__(self, rel: str, tag_classes: set[str], sites: bool, tt_funcs: dict[str, int]):
        self.rel = rel
        self.tag_classes = tag_classes
        self.sites = sites                  # FILES: call-site tables too; otherwise assignments only
        self.tt_funcs = tt_funcs
        self.cls: list[str] = []
        self.fn: list[ast.FunctionDef | ast.AsyncFunctionDef] = []
        self.set_sites: list[dict] = []
        self.assigns: list[dict] = []
        self.dyn_setattrs: list[dict] = []
        self.stamps: list[dict] = []
        self.field_writes: list[dict] = []
        self.time_calls: list[dict] = []

    def qual(self) -> str:
        return ".".join(self.cls + [f.name for f in self.fn]) or "<module>"

    def cur_cls(self) -> str | None:
        return self.cls[-1] if self.cls else None

    def cur_fn(self):
        return self.fn[-1] if self.fn else None

    def visit_ClassDef(self, node: ast.ClassDef):
        self.cls.append(node.name)
        saved, self.fn = self.fn, []
        self.generic_visit(node)
        self.fn = saved
        self.cls.pop()

    def visit_FunctionDef(self, node):
        self.fn.append(node)
        self.generic_visit(node)
        self.fn.pop()

    visit_AsyncFunctionDef = visit_FunctionDef

    def _time_arg(self, node: ast.Call, pos: int):
        arg = None
        for kw in node.keywords:
            if kw.arg == "tick_time":
                arg = kw.value
        plain = [a for a in node.args if not isinstance(a, ast.Starred)]
        starred = any(isinstance(a, ast.Starred) for a in node.args)
        if arg is None and len(plain) > pos:
            arg = plain[pos]
        return arg, starred

    def visit_Call(self, node: ast.Call):
        f = node.func
        name = f.attr if isinstance(f, ast.Attribute) else f.id if isinstance(f, ast.Name) else None
        if self.sites and isinstance(f, ast.Attribute) and f.attr in SET_METHODS:
            arg, starred = self._time_arg(node, SET_METHODS[f.attr])
            if arg is not None:
                ex, src = arg_expr(arg, self.cur_fn(), self.cur_cls()), ast.unparse(arg)
            elif starred:
                ex, src = "forward", "*args"
            else:
                ex, src = "other", "<missing>"
            self.set_sites.append({"file": self.rel, "line": node.lineno, "end": node.end_lineno or node.lineno,
                                   "func": self.qual(), "method": f.attr, "cls": EXPR_TO_CLASS[ex], "expr": ex,
                                   "arg": src})
        elif name in self.tt_funcs and name not in SET_METHODS:
            arg, starred = self._time_arg(node, self.tt_funcs[name])
            if arg is not None:
                self.time_calls.append({"file": self.rel, "line": node.lineno, "func": self.qual(), "callee": name,
                                        "expr": arg_expr(arg, self.cur_fn(), self.cur_cls()),
                                        "arg": ast.unparse(arg)})
            elif starred:
                self.time_calls.append({"file": self.rel, "line": node.lineno, "func": self.qual(), "callee": name,
                                        "expr": "forward", "arg": "*args"})
        if name == "setattr" and isinstance(f, ast.Name) and len(node.args) >= 2:
            a = node.args[1]
            if isinstance(a, ast.Constant) and isinstance(a.value, str):
                if a.value in VALUE_FIELDS:
                    self.assigns.append({"file": self.rel, "line": node.lineno, "cls": self.cur_cls() or "",
                                         "func": self.qual(), "field": a.value, "kind": "foreign",
                                         "target": "setattr(" + ast.unparse(node.args[0]) + ")"})
            else:
                self.dyn_setattrs.append({"file": self.rel, "line": node.lineno, "func": self.qual(),
                                          "src": ast.unparse(node)})
        self.generic_visit(node)

    def _target(self, t: ast.expr, value: ast.expr | None, line: int):
        if not isinstance(t, ast.Attribute):
            if isinstance(t, (ast.Tuple, ast.List)):
                for x in t.elts:
                    self._target(x, None, line)
            elif isinstance(t, ast.Starred):
                self._target(t.value, None, line)
            return
        fn = self.cur_fn()
        fname = fn.name if fn else "<module>"
        is_self = isinstance(t.value, ast.Name) and t.value.id == "self"
        in_tag = bool(self.cls) and self.cls[-1] in self.tag_classes
        if t.attr in VALUE_FIELDS:
            if is_self and in_tag:
                kind = "init" if fname == "__init__" else \
                    "primitive" if self.cls[-1] == "Tag" and fname in PRIMITIVES else "silent"
            elif is_self and self.cls:
                kind = "otherClass"
            else:
                kind = "foreign"
            self.assigns.append({"file": self.rel, "line": line, "cls": self.cur_cls() or "", "func": self.qual(),
                                 "field": t.attr, "kind": kind, "target": ast.unparse(t)})
        if t.attr == "tick_time" and not (is_self and self.cls and not in_tag):
            # `<tag>.tick_time = …` (self.tick_time of non-tag classes such as CommandManager is not a tag stamp)
            ex = arg_expr(value, fn, self.cur_cls())
            self.stamps.append({"file": self.rel, "line": line, "func": self.qual(), "cls": EXPR_TO_CLASS[ex],
                                "expr": ex, "init": fname == "__init__",
                                "rhs": ast.unparse(value) if value is not None else ""})
        if t.attr == "_tick_time" and is_self and self.sites:
            ex = arg_expr(value, fn, self.cur_cls())
            self.field_writes.append({"file": self.rel, "line": line, "func": self.qual(), "cls": EXPR_TO_CLASS[ex],
                                      "expr": ex, "init": fname == "__init__",
                                      "rhs": ast.unparse(value) if value is not None else ""})

    def visit_Assign(self, node: ast.Assign):
        for t in node.targets:
            self._target(t, node.value, node.lineno)
        self.generic_visit(node)

    def visit_AnnAssign(self, node: ast.AnnAssign):
        self._target(node.target, node.value, node.lineno)
        self.generic_visit(node)

    def visit_AugAssign(self, node: ast.AugAssign):
        self._target(node.target, None, node.lineno)
        self.generic_visit(node)

    def visit_NamedExpr(self, node: ast.NamedExpr):
        self.generic_visit(node)

    def visit_For(self, node: ast.For):
        self._target(node.target, None, node.lineno)
        self.generic_visit(node)

    def visit_With(self, node: ast.With):
        for it in node.items:
            if it.optional_vars is not None:
                self._target(it.optional_vars, None, node.lineno)
        self.generic_visit(node)


def tag_class_closure(trees: dict[str, ast.Module]) -> set[str]:
    known = {"Tag"}
    changed = True
    while changed:
        changed = False
        for tree in trees.values():
            for n in ast.walk(tree):
                if isinstance(n, ast.ClassDef) and n.name not in known:
                    bases = {b.id if isinstance(b, ast.Name) else b.attr if isinstance(b, ast.Attribute) else ""
                             for b in n.bases}
                    if bases & known:
                        known.add(n.name)
                        changed = True
    return known


def tick_time_functions(trees: dict[str, ast.Module]) -> dict[str, int]:
    """function name -> position of its `tick_time` parameter (self not counted); names declared with different
    positions keep the smallest (the table then shows what is passed there)."""
    out: dict[str, int] = {}
    for tree in trees.values():
        for n in ast.walk(tree):
            if isinstance(n, (ast.FunctionDef, ast.AsyncFunctionDef)) and n.name != "__init__":
                names = [a.arg for a in n.args.posonlyargs + n.args.args]
                if names and names[0] in ("self", "cls"):
                    names = names[1:]
                if "tick_time" in names:
                    p = names.index("tick_time")
                    out[n.name] = min(out.get(n.name, p), p)
    return out


def stmt_list(fn: ast.FunctionDef, cls_name: str) -> list[dict]:
    """Statements of a tick function in evaluation order: `_tick_time` assignments, bulk stamps, calls."""
    out: list[dict] = []

    def calls_in(e: ast.AST):
        # evaluation order: arguments before the call itself
        for c in ast.iter_child_nodes(e):
            calls_in(c)
        if isinstance(e, ast.Call):
            a0 = e.args[0] if e.args and not isinstance(e.args[0], ast.Starred) else None
            out.append({"kind": "call", "name": dotted(e.func),
                        "expr": arg_expr(a0, fn, cls_name) if a0 is not None else "none"})

    def walk(stmts):
        for s in stmts:
            if isinstance(s, (ast.Assign, ast.AnnAssign, ast.AugAssign)):
                val = getattr(s, "value", None)
                if val is not None:
                    calls_in(val)
                targets = s.targets if isinstance(s, ast.Assign) else [s.target]
                for t in targets:
                    if isinstance(t, ast.Attribute) and t.attr == "_tick_time":
                        out.append({"kind": "assign", "name": ast.unparse(t), "expr": arg_expr(val, fn, cls_name)})
                    elif isinstance(t, ast.Attribute) and t.attr == "tick_time":
                        out.append({"kind": "stamp", "name": ast.unparse(t), "expr": arg_expr(val, fn, cls_name)})
            elif isinstance(s, (ast.If, ast.While)):
                calls_in(s.test)
                walk(s.body)
                walk(s.orelse)
            elif isinstance(s, ast.For):
                calls_in(s.iter)
                walk(s.body)
                walk(s.orelse)
            elif isinstance(s, ast.With):
                for it in s.items:
                    calls_in(it.context_expr)
                walk(s.body)
            elif isinstance(s, ast.Try):
                walk(s.body)
                for h in s.handlers:
                    walk(h.body)
                walk(s.orelse)
                walk(s.finalbody)
            elif isinstance(s, (ast.FunctionDef, ast.AsyncFunctionDef, ast.ClassDef)):
                pass
            else:
                calls_in(s)
    walk(fn.body)
    return out


def find_method(tree: ast.Module, cls: str, name: str) -> ast.FunctionDef | None:
    for n in ast.walk(tree):
        if isinstance(n, ast.ClassDef) and n.name == cls:
            for m in n.body:
                if isinstance(m, (ast.FunctionDef, ast.AsyncFunctionDef)) and m.name == name:
                    return m  # type: ignore[return-value]
    return None


def scan() -> dict:
    root = repo_root()
    wide = sorted({str(p.relative_to(root)) for d in WIDE_DIRS for p in (root / d).rglob("*.py")
                   if "test" not in p.relative_to(root).parts})
    trees = {rel: ast.parse((root / rel).read_text(), filename=rel) for rel in sorted(set(wide) | set(FILES))}
    tag_classes = tag_class_closure(trees)
    tt_funcs = tick_time_functions(trees)
    out: dict = {"set_sites": [], "assigns": [], "stamps": [], "field_writes": [], "dyn_setattrs": [],
                 "time_calls": []}
    for rel in FILES + [r for r in trees if r not in FILES]:
        s = Scan(rel, tag_classes, rel in FILES, tt_funcs)
        s.visit(trees[rel])
        out["set_sites"] += s.set_sites
        out["assigns"] += s.assigns
        out["stamps"] += s.stamps
        out["field_writes"] += s.field_writes
        out["dyn_setattrs"] += s.dyn_setattrs
        out["time_calls"] += s.time_calls
    et = find_method(trees["engine/engine.py"], "Engine", "tick")
    it = find_method(trees["lang/exec/pinterpreter.py"], "PInterpreter", "tick_iterate_subticks")
    out["engine_tick"] = stmt_list(et, "Engine") if et is not None else []
    out["interp_tick"] = stmt_list(it, "PInterpreter") if it is not None else []
    out["tag_classes"] = sorted(tag_classes)
    out["tt_funcs"] = tt_funcs
    out["wide_files"] = len(trees)
    return out


def lean_str(s: str) -> str:
    out = []
    for ch in s:
        if ch in '"\\':
            out.append("\\" + ch)
        elif 32 <= ord(ch) < 127:
            out.append(ch)
        else:
            out.append("\\u%04x" % (ord(ch) & 0xFFFF))
    return '"' + "".join(out) + '"'


def render(t: dict) -> str:
    def b(x: bool) -> str:
        return "true" if x else "false"
    L = ["/- GENERATED by harness/translators/tag_sites.py from the source of the imported openpectus package"
         " -- do not edit. -/",
         "import OPM.Model.Tags", "namespace OPM.Gen.TagSites", "open OPM.Tags", "",
         "structure SetSite where", "  file : String", "  line : Nat", "  endLine : Nat", "  func : String",
         "  method : String", "  cls : TimeClass", "  expr : ArgExpr", "  arg : String", "deriving Repr, DecidableEq", "",
         "structure AssignSite where", "  file : String", "  line : Nat", "  cls : String", "  func : String",
         "  field : String", "  kind : String", "  target : String", "deriving Repr, DecidableEq", "",
         "structure StampSite where", "  file : String", "  line : Nat", "  func : String", "  cls : TimeClass",
         "  expr : ArgExpr", "  init : Bool", "  rhs : String", "deriving Repr, DecidableEq", "",
         "structure TimeCall where", "  file : String", "  line : Nat", "  func : String", "  callee : String",
         "  expr : ArgExpr", "  arg : String", "deriving Repr, DecidableEq", "",
         "/-- every call of set_value / set_value_and_unit / simulate_value / simulate_value_and_unit -/",
         "def setSites : List SetSite := ["]
    L.append(",\n".join(
        f"  ⟨{lean_str(s['file'])}, {s['line']}, {s['end']}, {lean_str(s['func'])}, {lean_str(s['method'])}, "
        f".{s['cls']}, .{s['expr']}, {lean_str(s['arg'])}⟩" for s in t["set_sites"]))
    L += ["]", "", "/-- every assignment to an attribute value / simulated_value / simulated, on any receiver -/",
          "def valueAssigns : List AssignSite := ["]
    L.append(",\n".join(
        f"  ⟨{lean_str(s['file'])}, {s['line']}, {lean_str(s['cls'])}, {lean_str(s['func'])}, "
        f"{lean_str(s['field'])}, {lean_str(s['kind'])}, {lean_str(s['target'])}⟩" for s in t["assigns"]))
    L += ["]", "", "/-- every setattr whose attribute name is not a literal: (file, function, source) -/",
          "def dynamicSetattrs : List (String × String × String) := ["]
    L.append(",\n".join(f"  ({lean_str(s['file'])}, {lean_str(s['func'])}, {lean_str(s['src'])})"
                        for s in t["dyn_setattrs"]))
    L += ["]", "", "/-- every assignment to a tag's tick_time field -/", "def stampSites : List StampSite := ["]
    L.append(",\n".join(
        f"  ⟨{lean_str(s['file'])}, {s['line']}, {lean_str(s['func'])}, .{s['cls']}, .{s['expr']}, "
        f"{b(s['init'])}, {lean_str(s['rhs'])}⟩" for s in t["stamps"]))
    L += ["]", "", "/-- every assignment to self._tick_time (Engine, PInterpreter) -/",
          "def tickTimeFieldWrites : List StampSite := ["]
    L.append(",\n".join(
        f"  ⟨{lean_str(s['file'])}, {s['line']}, {lean_str(s['func'])}, .{s['cls']}, .{s['expr']}, "
        f"{b(s['init'])}, {lean_str(s['rhs'])}⟩" for s in t["field_writes"]))
    L += ["]", "", "/-- every call of a function that declares a `tick_time` parameter, with what is passed there -/",
          "def tickTimeCalls : List TimeCall := ["]
    L.append(",\n".join(
        f"  ⟨{lean_str(s['file'])}, {s['line']}, {lean_str(s['func'])}, {lean_str(s['callee'])}, .{s['expr']}, "
        f"{lean_str(s['arg'])}⟩" for s in t["time_calls"]))

    def stmts(name: str, doc: str, items: list[dict]):
        L.extend(["]", "", f"/-- {doc} -/", f"def {name} : List Stmt := ["])
        rows = []
        for s in items:
            if s["kind"] == "assign":
                rows.append(f"  .assign {lean_str(s['name'])} .{s['expr']}")
            elif s["kind"] == "stamp":
                rows.append(f"  .stamp .{s['expr']}")
            else:
                a = "none" if s["expr"] == "none" else f"(some .{s['expr']})"
                rows.append(f"  .call {lean_str(s['name'])} {a}")
        L.append(",\n".join(rows))
    stmts("engineTickStmts", "Engine.tick in evaluation order", t["engine_tick"])
    stmts("interpTickStmts", "PInterpreter.tick_iterate_subticks in evaluation order", t["interp_tick"])
    L += ["]", "", "/-- Tag and its subclasses found in the scanned files -/",
          "def tagClasses : List String := [" + ", ".join(lean_str(c) for c in t["tag_classes"]) + "]", "",
          "end OPM.Gen.TagSites", ""]
    return "\n".join(L)


def generate() -> dict:
    t = scan()
    text = render(t)
    if not OUT.exists() or OUT.read_text() != text:
        OUT.write_text(text)
    return t


if __name__ == "__main__":
    import json
    print(json.dumps(generate(), indent=1))
