"""Translator: openpectus/lang/exec/analyzer.py  ->  lean/OPM/Gen/AnalyzerOps.lean

For every class of analyzer.py, the *partial operations* in its method bodies, found by an AST scan:

  subscript   `x[k]` read or deleted (KeyError / IndexError)          — not `x[k] = v`, not type annotations
  builtin     calls of max, min, next, int, float, abs, sum-of-empty is total so not listed (ValueError / StopIteration)
  method      calls of .index / .pop / .remove / .popitem (ValueError / KeyError / IndexError)
  api         calls of functions of other modules that are documented to raise: `self.tags.has/get`,
              `self.commands.has/get`, get_compatible_unit_names, _compatible_unit_names is the guarded wrapper and is
              scanned itself, are_comparable, macro_calling_macro, validate_args
  item        `AnalyzerItem(...)` with both `length=` and `end=` (the constructor raises then)
  raise / assert / division

Property C19 ("analysis completes without raising") is *proved* for the analyzers whose decision logic is modelled in
OPM.Model.Analyzer (condition, Simulate, command, indentation, threshold, macro).  For the remaining classes the Lean
theorem `OPM.C19.unmodelled_analyzers_have_no_partial_operation` states that this table lists no operation of theirs:
they only read attributes that the node constructors set, iterate lists and compare numbers.  The scan is syntactic: it
does not see attribute reads on `None` (guarded by `if` in the code as it is) nor exceptions inside the AST / visitor
helpers they call (`get_child_nodes`, `parents`); those remain with the oracle.
"""
from __future__ import annotations

import ast
import inspect

from vp import core as _core

OUT = _core.LEAN / "OPM" / "Gen" / "AnalyzerOps.lean"

BUILTINS = {"max", "min", "next", "int", "float"}
METHODS = {"index", "pop", "remove", "popitem"}
API_FUNCS = {"get_compatible_unit_names", "are_comparable", "macro_calling_macro", "validate_args"}
API_COLLECTIONS = {"tags", "commands"}


def _lean_str(s: str) -> str:
    return '"' + s.replace("\\", "\\\\").replace('"', '\\"') + '"'


class _Scan(ast.NodeVisitor):
    def __init__(self, owner: str, method: str, out: list):
        self.owner, self.method, self.out = owner, method, out

    def add(self, kind: str, node: ast.AST):
        text = " ".join(ast.unparse(node).split())[:80]
        self.out.append((self.owner, self.method, kind, text))

    # annotations are not executed for local variables / are irrelevant: skip them
    def visit_AnnAssign(self, node: ast.AnnAssign):
        if node.value is not None:
            self.visit(node.value)
        if isinstance(node.target, ast.Subscript):
            self.visit(node.target.value)

    def visit_arguments(self, node):  # default values only
        for d in list(node.defaults) + [d for d in node.kw_defaults if d is not None]:
            self.visit(d)

    def visit_Subscript(self, node: ast.Subscript):
        if isinstance(node.ctx, (ast.Load, ast.Del)):
            self.add("subscript", node)
        self.generic_visit(node)

    def visit_Raise(self, node):
        self.add("raise", node)
        self.generic_visit(node)

    def visit_Assert(self, node):
        self.add("assert", node)
        self.generic_visit(node)

    def visit_BinOp(self, node: ast.BinOp):
        if isinstance(node.op, (ast.Div, ast.FloorDiv, ast.Mod)) and not isinstance(node.left, ast.Constant):
            self.add("division", node)
        self.generic_visit(node)

    def visit_Call(self, node: ast.Call):
        f = node.func
        if isinstance(f, ast.Name):
            if f.id in BUILTINS:
                self.add("builtin", node)
            elif f.id in API_FUNCS:
                self.add("api", node)
            elif f.id == "AnalyzerItem":
                kws = {k.arg for k in node.keywords}
                if {"length", "end"} <= kws:
                    self.add("item", node)
        elif isinstance(f, ast.Attribute):
            if f.attr in METHODS:
                self.add("method", node)
            elif f.attr in API_FUNCS:
                self.add("api", node)
            elif f.attr in ("has", "get") and isinstance(f.value, ast.Attribute) and f.value.attr in API_COLLECTIONS:
                self.add("api", node)
        self.generic_visit(node)


def collect() -> dict:
    import openpectus.lang.exec.analyzer as A
    tree = ast.parse(inspect.getsource(A))
    ops: list = []
    classes: list[str] = []
    for node in tree.body:
        if isinstance(node, ast.ClassDef):
            classes.append(node.name)
            for item in node.body:
                if isinstance(item, (ast.FunctionDef, ast.AsyncFunctionDef)):
                    sc = _Scan(node.name, item.name, ops)
                    sc.visit(item.args)
                    for st in item.body:
                        sc.visit(st)
        elif isinstance(node, ast.FunctionDef):
            sc = _Scan("<module>", node.name, ops)
            for st in node.body:
                sc.visit(st)
    # the order SemanticCheckAnalyzer runs its analyzers in
    order: list[str] = []
    for node in ast.walk(tree):
        if isinstance(node, ast.ClassDef) and node.name == "SemanticCheckAnalyzer":
            for sub in ast.walk(node):
                if isinstance(sub, ast.Assign) and any(isinstance(t, ast.Attribute) and t.attr == "analyzers" for t in sub.targets) \
                        or isinstance(sub, ast.AnnAssign) and isinstance(sub.target, ast.Attribute) and sub.target.attr == "analyzers":
                    val = sub.value
                    if isinstance(val, ast.List):
                        order = [e.func.id for e in val.elts if isinstance(e, ast.Call) and isinstance(e.func, ast.Name)]
    return {"classes": classes, "ops": ops, "order": order}


def render(t: dict) -> str:
    L = ["/- GENERATED by harness/translators/analyzer_ops.py from openpectus/lang/exec/analyzer.py (AST scan).",
         "   Do not edit; regenerated on every run of the C19 check. -/",
         "namespace OPM.Gen",
         "",
         "/-- classes defined in analyzer.py -/",
         "def analyzerClasses : List String := [" + ", ".join(_lean_str(c) for c in t["classes"]) + "]",
         "",
         "/-- the analyzers `SemanticCheckAnalyzer` runs, in order -/",
         "def analyzerOrder : List String := [" + ", ".join(_lean_str(c) for c in t["order"]) + "]",
         "",
         "/-- (class, method, kind, source text) of every partial operation in a method body -/",
         "def analyzerOps : List (String × String × String × String) := ["]
    L.append(",\n".join(f"  ({_lean_str(o)}, {_lean_str(m)}, {_lean_str(k)}, {_lean_str(x)})" for o, m, k, x in t["ops"]) + "]")
    L += ["", "end OPM.Gen", ""]
    return "\n".join(L)


def generate() -> dict:
    t = collect()
    text = render(t)
    OUT.parent.mkdir(parents=True, exist_ok=True)
    if not OUT.exists() or OUT.read_text() != text:
        tmp = OUT.with_suffix(".lean.tmp")
        tmp.write_text(text)
        tmp.replace(OUT)
    return t


if __name__ == "__main__":
    d = generate()
    print(f"{OUT}: {len(d['classes'])} classes, {len(d['ops'])} partial operations; order {d['order']}")
    for o in d["ops"]:
        print("  ", o)
