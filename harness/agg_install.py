"""Make `openpectus.aggregator.deps.get_aggregator()` answer a harness aggregator — without depending on the name of the
private module global that holds it.

`deps` keeps the process-wide Aggregator in one module-level variable that `get_aggregator()` returns (and raises on while
it is None).  The variable is found by ROLE: among the module's data attributes that are None or an Aggregator, the one
that makes `get_aggregator()` return the object put into it.  Everything that reads the aggregator (lsp_analysis, the api
routers) goes through `deps.get_aggregator` at call time, so installing it there is what production's own creator does.
"""
from __future__ import annotations

_SLOT: str | None = None


def _slot(deps, probe) -> str:
    global _SLOT
    if _SLOT is not None and _SLOT in vars(deps):
        return _SLOT
    from openpectus.aggregator.aggregator import Aggregator
    candidates = [n for n, v in vars(deps).items()
                  if not n.startswith("__") and (v is None or isinstance(v, Aggregator))]
    candidates.sort(key=lambda n: n != "_server")          # fast path: the name it has today
    for name in candidates:
        saved = getattr(deps, name)
        setattr(deps, name, probe)
        try:
            if deps.get_aggregator() is probe:
                _SLOT = name
                return name
        except Exception:  # noqa: BLE001 - not this one
            pass
        finally:
            setattr(deps, name, saved)
    raise AttributeError("harness: no module-level variable of openpectus.aggregator.deps makes get_aggregator() "
                         f"return the installed aggregator (looked at {candidates})")


def install(agg):
    """Install `agg` as the process-wide aggregator; returns a token for `restore`."""
    import openpectus.aggregator.deps as deps
    name = _slot(deps, agg)
    saved = getattr(deps, name)
    setattr(deps, name, agg)
    if deps.get_aggregator() is not agg:
        setattr(deps, name, saved)
        raise AttributeError("harness: installing the aggregator had no effect on deps.get_aggregator()")
    return (name, saved)


def restore(token) -> None:
    import openpectus.aggregator.deps as deps
    name, saved = token
    setattr(deps, name, saved)
