"""C04 (Watch once / Alarm re-arms): generators and the real-code runner for the correspondence
streams against the shared M3 driver (lean/Driver/Interp.lean, model OPM.Model.Interp).

 * `HarnessC04` = harness.interp.Harness + a hook on `tracking.mark_started(Watch|Alarm)`: the run
   log's "Started" of the node — the `bodyStart` event of the Lean theorems.  The model's driver
   prints the `scope_activate` event (`sa:<n>`), which the model emits in the same micro-step
   (lemma `stepGen_sa_eq_bs`); the hook checks on the implementation side that the two coincide.
 * `gen_c04_program`: Watch/Alarm-heavy methods (any nesting, blocks with End block(s), thresholds,
   optionally macros), `gen_c04_schedule`: tag trajectories that flip conditions often, with
   cancel / force requests aimed at Watch/Alarm nodes.
 * `exhaustive_cases`: fixed small methods x every request/tag sequence of a given length.
"""
from __future__ import annotations

import itertools
import random
from fractions import Fraction

from harness.interp import Harness

COND_TAGS = ["T0", "T1", "T2"]
OPS = ["<", "<=", "=", "!=", ">", ">="]
DYADIC = ["0.125", "0.25", "0.5", "1", "1.5"]


class HarnessC04(Harness):
    def __init__(self, pcode: str):
        super().__init__(pcode)
        self.bst: list[int] = []
        import openpectus.lang.model.ast as p
        tr = self.interp.tracking
        orig = tr.mark_started
        h = self

        def mark_started(instance):
            if isinstance(instance, (p.WatchNode, p.AlarmNode)):
                h.bst.append(h.idx.get(instance.id, -1))
            return orig(instance)
        tr.mark_started = mark_started

    def cond_nodes(self) -> list[int]:
        import openpectus.lang.model.ast as p
        return [k for k, n in enumerate(self.nodes) if isinstance(n, (p.WatchNode, p.AlarmNode))]

    def tick(self, dt_eighths, scope, block, tagvals) -> str:
        self.bst = []
        out = super().tick(dt_eighths, scope, block, tagvals)
        cond = set(self.cond_nodes())
        evs = out.split("|ev=")[1].split("|fl=")[0].split(" ")
        sa = [int(e[3:]) for e in evs if e.startswith("sa:") and int(e[3:]) in cond]
        if sa != self.bst:
            out += f"|BODYSTART-MISMATCH sa={sa} started={self.bst}"
        return out


def run_case(case: dict) -> tuple[list[str], list[str]]:
    """(op lines for the model, implementation answers)."""
    import openpectus.lang.model.ast as p
    h = HarnessC04(case["pcode"])
    lines = h.node_lines()
    outs = ["ok"] * len(lines)
    scheduled: list[int] = []
    cond = h.cond_nodes()
    for op in case["ops"]:
        kind = op[0]
        if kind == "tick":
            _, dt, scope, block, tags = op
            lines.append(h.op_line_tick(dt, Fraction(scope), Fraction(block), tags))
            o = h.tick(dt, Fraction(scope), Fraction(block), tags)
            outs.append(o)
            for ev in o.split("|ev=")[1].split("|fl=")[0].split(" "):
                if ev.startswith("cmd:"):
                    scheduled.append(int(ev.split(":")[1]))
        elif kind == "complete":
            pending = [k for k in scheduled if k >= 0 and not h.nodes[k].completed]
            if not pending:
                continue
            k = pending[int(op[1] * len(pending))]
            lines.append(f"complete\t{k}")
            outs.append(h.complete(k))
        elif kind in ("cancelw", "forcew"):
            if not cond:
                continue
            k = cond[int(op[1] * len(cond))]
            req = kind[:-1]
            lines.append(f"{req}\t{k}")
            outs.append(h.cancel(k) if req == "cancel" else h.force(k))
        elif kind in ("cancel", "force"):
            k = int(op[1] * len(h.nodes))
            n = h.nodes[k]
            if isinstance(n, (p.EngineCommandNode, p.UodCommandNode, p.NotifyNode, p.BatchNode)):
                continue
            if isinstance(n, p.InterpreterCommandNode) and n.instruction_name != "Wait":
                continue
            lines.append(f"{kind}\t{k}")
            outs.append(h.cancel(k) if kind == "cancel" else h.force(k))
        else:
            raise ValueError(kind)
    return lines, outs


def lost_cancel_lines(lines: list[str]) -> list[str]:
    """Self-test mutant at the op level: every cancel / force request is lost (replaced by a request on
    the program node, which is always rejected and changes nothing)."""
    out = []
    for ln in lines:
        if ln.startswith("cancel\t"):
            out.append("cancel\t0")
        elif ln.startswith("force\t"):
            out.append("force\t0")
        else:
            out.append(ln)
    return out


# ----------------------------------------------------------------------------------------
# generators

class GenC04:
    def __init__(self, rng: random.Random, max_depth: int = 3, max_lines: int = 14, macros: bool = False,
                 alarm_nesting: bool = True, malformed: bool = False, bad_conditions: bool = False):
        self.rng = rng
        self.max_depth = max_depth
        self.max_lines = max_lines
        self.macros_on = macros
        self.alarm_nesting = alarm_nesting
        self.malformed = malformed
        self.bad_conditions = bad_conditions
        self.lines: list[str] = []
        self.macros: list[str] = []
        self.mark_no = 0
        self.block_no = 0
        self.stats: dict[str, int] = {}

    def count(self, k):
        self.stats[k] = self.stats.get(k, 0) + 1

    def emit(self, depth, text, thr=True):
        prefix = ""
        if thr and self.rng.random() < 0.12:
            prefix = self.rng.choice(DYADIC) + " "
            self.count("threshold")
        self.lines.append("    " * depth + prefix + text)

    def cond(self):
        r = self.rng
        return f"{r.choice(COND_TAGS)} {r.choice(OPS)} {r.randrange(0, 4)}"

    def mark(self, depth):
        self.mark_no += 1
        self.emit(depth, f"Mark: m{self.mark_no}")
        self.count("mark")

    def body(self, depth, budget, in_block, in_alarm, in_macro=False):
        used = 0
        n = self.rng.randrange(1, max(2, min(budget, 4) + 1))
        for _ in range(n):
            if used >= budget or len(self.lines) >= self.max_lines:
                break
            used += self.instruction(depth, budget - used, in_block, in_alarm, in_macro)
        if used == 0:
            self.mark(depth)
            used = 1
        return used

    def instruction(self, depth, budget, in_block, in_alarm, in_macro):  # noqa: C901
        r = self.rng
        choices = [("mark", 5), ("wait", 1), ("cmd", 1)]
        if in_block:
            choices += [("endblock", 3), ("endblocks", 1)]
        if self.macros and self.macros_on:
            choices.append(("call", 2))
        if depth < self.max_depth and budget >= 2:
            choices += [("watch", 5), ("block", 3)]
            if self.alarm_nesting or not in_alarm:
                choices.append(("alarm", 3))
            if self.macros_on and depth == 0 and not in_macro:
                choices.append(("macro", 2))
        if self.malformed:
            choices.append(("bad", 3))
        kinds, weights = zip(*choices)
        k = r.choices(kinds, weights)[0]
        self.count(k)
        if k == "mark":
            self.mark(depth)
            return 1
        if k == "wait":
            self.emit(depth, f"Wait: {r.choice(['0.0625', '0.25', '0.5', '1'])}s")
            return 1
        if k == "cmd":
            self.emit(depth, r.choice(["CmdA", "CmdB", "CmdC"]))
            return 1
        if k == "endblock":
            self.emit(depth, "End block")
            return 1
        if k == "endblocks":
            self.emit(depth, "End blocks")
            return 1
        if k == "call":
            self.emit(depth, f"Call macro: {r.choice(self.macros)}")
            return 1
        if k == "bad" and self.bad_conditions and r.random() < 0.5:
            # engine oracle stream only: Watch/Alarm whose condition cannot be evaluated
            self.lines.append("    " * depth + r.choice([
                "Watch: T9 > 1", "Watch: T0 >", "Alarm", "Watch: T0 > banana", "Alarm: > 2", "Watch T0 > 1",
                "Alarm: T1 = 1 mL"]))
            self.mark(depth + 1)
            return 2
        if k == "bad":
            self.lines.append("    " * depth + r.choice([
                # malformations the model can express (an instruction that fails when it runs).  Conditions that
                # fail to *evaluate* (unknown tag, missing value) are not modelled: they go to the engine oracle only.
                "Frobnicate", "Mark", "Wait: banana", "Base: parsec", "Call macro: nosuch", "Unknowncmd: 3",
                "  Mark: misindented", "Run counter: x", "1.5.2 Mark: z"]))
            return 1
        if k == "block":
            self.block_no += 1
            self.emit(depth, f"Block: B{self.block_no}")
            u = self.body(depth + 1, budget - 1, True, in_alarm, in_macro)
            if r.random() < 0.6:
                self.emit(depth + 1, "End block")
                u += 1
            return 1 + u
        if k == "watch":
            self.emit(depth, f"Watch: {self.cond()}")
            return 1 + self.body(depth + 1, budget - 1, in_block, in_alarm, in_macro)
        if k == "alarm":
            self.emit(depth, f"Alarm: {self.cond()}")
            return 1 + self.body(depth + 1, budget - 1, in_block, True, in_macro)
        if k == "macro":
            name = f"M{len(self.macros) + 1}"
            self.emit(depth, f"Macro: {name}", thr=False)
            u = self.body(depth + 1, budget - 1, False, in_alarm, True)
            self.macros.append(name)
            return 1 + u
        raise AssertionError(k)

    def program(self) -> str:
        target = self.rng.randrange(3, self.max_lines + 1)
        while len(self.lines) < target:
            self.instruction(0, self.max_lines - len(self.lines), False, False, False)
        if not any(ln.lstrip().split(" ", 1)[-1].startswith(("Watch", "Alarm")) or
                   ln.lstrip().startswith(("Watch", "Alarm")) for ln in self.lines):
            self.emit(0, f"Watch: {self.cond()}", thr=False)
            self.mark(1)
        return "\n".join(self.lines)


def gen_nested_blocks_program(rng: random.Random) -> tuple[str, dict[str, int]]:
    """Nested blocks with Watches/Alarms registered in the OUTER blocks and `End blocks` / `End block` issued from an
    inner block (from the main flow or from a Watch body), plus Watches nested inside Watch bodies of a block."""
    g = GenC04(rng)
    depth_n = rng.choice([2, 2, 3])

    def interrupt(depth):
        kind = rng.choice(["Watch", "Watch", "Alarm"])
        g.emit(depth, f"{kind}: {g.cond()}", thr=False)
        g.count(kind.lower())
        if rng.random() < 0.3:       # a Watch declared inside the body: two levels below the block
            g.emit(depth + 1, f"Watch: {g.cond()}", thr=False)
            g.count("watch")
            g.mark(depth + 2)
        for _ in range(rng.randrange(1, 3)):
            if rng.random() < 0.25:
                g.emit(depth + 1, f"Wait: {rng.choice(['0.25', '0.5', '1'])}s", thr=False)
            else:
                g.mark(depth + 1)

    def block(level):
        g.block_no += 1
        d = level
        g.emit(d, f"Block: B{g.block_no}", thr=False)
        g.count("block")
        for _ in range(rng.randrange(0, 3) if level + 1 < depth_n else rng.randrange(0, 2)):
            interrupt(d + 1)
        if rng.random() < 0.4:
            g.mark(d + 1)
        if level + 1 < depth_n:
            block(level + 1)
            if rng.random() < 0.5:
                g.mark(d + 1)
            if rng.random() < 0.5:
                g.emit(d + 1, f"Wait: {rng.choice(['0.5', '1', '2'])}s", thr=False)
            if rng.random() < 0.6:
                g.emit(d + 1, "End block", thr=False)
        else:
            ender = rng.choice(["End blocks", "End blocks", "End block"])
            g.count("endblocks" if ender == "End blocks" else "endblock")
            if rng.random() < 0.5:
                g.emit(d + 1, f"Watch: {g.cond()}", thr=False)
                g.emit(d + 2, ender, thr=False)
                g.emit(d + 1, f"Wait: {rng.choice(['1', '2', '3'])}s", thr=False)
            else:
                g.emit(d + 1, f"Wait: {rng.choice(['0.25', '0.5', '1'])}s", thr=False)
                g.emit(d + 1, ender, thr=False)
    block(0)
    g.mark(0)
    g.emit(0, "Wait: 2s", thr=False)
    g.count("nested-block-method")
    return "\n".join(g.lines), g.stats


def gen_c04_program(rng: random.Random, nested: bool = False, **kw) -> tuple[str, dict[str, int]]:
    if nested:
        return gen_nested_blocks_program(rng)
    g = GenC04(rng, **kw)
    return g.program(), g.stats


def gen_c04_schedule(rng: random.Random, n_ticks: int) -> list[list]:
    ops: list[list] = []
    scope = Fraction(0)
    block = Fraction(0)
    tags = [0, 0, 0]
    for _ in range(n_ticks):
        dt = rng.choice([1, 1, 1, 2, 4])
        scope += Fraction(dt, 8)
        block = Fraction(0) if rng.random() < 0.04 else block + Fraction(dt, 8)
        if rng.random() < 0.45:
            tags[rng.randrange(3)] = rng.randrange(0, 4)
        ops.append(["tick", dt, str(scope), str(block), list(tags)])
        x = rng.random()
        if x < 0.15:
            ops.append(["complete", rng.random()])
        elif x < 0.27:
            ops.append(["cancelw", rng.random()])
        elif x < 0.37:
            ops.append(["forcew", rng.random()])
        elif x < 0.40:
            ops.append([rng.choice(["cancel", "force"]), rng.random()])
    return ops


# ----------------------------------------------------------------------------------------
# exhaustive small scope

TEMPLATES = {
    # Watch at top level, a successor after it
    "watch": "Watch: T0 > 0\n    Mark: a\n    Mark: b\nMark: c\n",
    # Alarm at top level
    "alarm": "Alarm: T0 > 0\n    Mark: a\nMark: c\n",
    # Watch and Alarm inside a block that a second Watch ends
    "block": "Block: B\n    Watch: T0 > 0\n        Mark: a\n    Watch: T1 > 0\n        End block\n    Wait: 0.5s\n"
             "    End block\nMark: c\n",
    # Alarm in a block ended from the main thread
    "blockalarm": "Block: B\n    Alarm: T0 > 0\n        Mark: a\n    Wait: 0.5s\n    End block\nMark: c\n",
    # nested blocks: a Watch registered in the OUTER block, `End blocks` from the inner one (from a Watch or the main flow)
    "nested": "Block: B1\n    Watch: T0 > 0\n        Mark: a\n    Block: B2\n        Watch: T1 > 0\n            End blocks\n"
              "        Wait: 0.5s\n        End blocks\nMark: c\n",
    # a Watch declared inside a Watch body: two levels below the block that is ended
    "deep": "Block: B\n    Watch: T0 > 0\n        Watch: T1 > 0\n            Mark: a\n        Wait: 0.5s\n    Wait: 0.25s\n"
            "    End block\nMark: c\n",
}
# op alphabet: tags are [T0, T1, 0]
ALPHABET = ["t00", "t10", "t01", "cancel", "force"]


def exhaustive_cases(length: int, warmup: int = 3, tail: int = 5) -> list[dict]:
    """Every template x every sequence over ALPHABET of the given length (after `warmup` idle ticks so
    that the first Watch/Alarm is registered; followed by `tail` ticks with the last tag values)."""
    cases = []
    for name, pcode in TEMPLATES.items():
        for seq in itertools.product(ALPHABET, repeat=length):
            if "cancel" not in seq and "force" not in seq and name != "watch":
                # request-free sequences are kept for one template only (they are the same shape)
                pass
            ops: list[list] = []
            scope = Fraction(0)
            tags = [0, 0, 0]

            def tick():
                nonlocal scope
                scope += Fraction(1, 8)
                ops.append(["tick", 1, str(scope), str(scope), list(tags)])
            for _ in range(warmup):
                tick()
            for a in seq:
                if a == "cancel":
                    ops.append(["cancelw", 0.0])
                elif a == "force":
                    ops.append(["forcew", 0.0])
                else:
                    tags = [int(a[1]), int(a[2]), 0]
                    tick()
            for _ in range(tail):
                tick()
            cases.append({"pcode": pcode, "ops": ops, "template": name, "seq": "".join(s[0] + s[1:] + "." for s in seq)})
    return cases
