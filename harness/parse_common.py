"""Observation of the real parser (openpectus.lang.model.parser) in the canonical text the model driver
`Driver/Parse.lean` prints, plus the text / line generators shared by C17 and C18."""
from __future__ import annotations

import random
import re
from decimal import Decimal
from fractions import Fraction
from typing import Any, Sequence

from vp.core import enc, encb

OPENERS = ["Block", "Watch", "Alarm", "Macro"]
LEAVES = ["Mark", "End block", "End blocks", "Batch", "Call macro", "Notify", "Base", "Increment run counter",
          "Run counter", "Wait", "Stop", "Pause", "Unpause", "Hold", "Unhold", "Restart", "Info", "Warning",
          "Error", "Simulate", "Simulate off"]
UOD = ["Uod", "Uod cmd"]
OPS = ["<=", ">=", "==", "!=", "<", ">", "="]
BREAKS = ["\n", "\r\n", "\r", "\x0b", "\x0c", "\x1c", "\x1d", "\x1e", "\x85", " ", " "]
PY_SPACE_NO_BREAK = [" ", "\t", "\x1f", "\xa0", " ", " ", " ", " ", "　"]


def _enc_opt(s: str | None) -> str:
    return "N" if s is None else "S" + enc(s)


def enc_list(xs: Sequence[str]) -> str:
    return ";".join(enc(x) for x in xs)


_NUM_TEXT = re.compile(r"[+-]?(\d*)(?:\.(\d*))?(?:[eE]([+-]?\d+))?")


def typed(text: str, x) -> str:
    """A typed result of parsing (`node.threshold`, `tag_value_numeric`: Python floats) as an exact fraction
    `p/q`, `N` for None.  When the text it was read from has more than 15 digits or a decimal exponent beyond
    +-200 the float is not compared (`~`); otherwise decimal -> double -> shortest repr is the identity, so the
    fraction of repr(x) is the number written in the text (what the model computes)."""
    if x is None:
        return "N"
    m = _NUM_TEXT.fullmatch(text or "")
    if m is None:
        return "~"
    exp = int(m.group(3) or 0) - len(m.group(2) or "")
    if sum(ch.isdecimal() for ch in text) > 15 or abs(exp) > 200:
        return "~"
    f = Fraction(Decimal(repr(float(x))))
    return f"{f.numerator}/{f.denominator}"


def new_parser(method, uod: Sequence[str]):
    from openpectus.lang.model.parser import create_method_parser
    return create_method_parser(method, list(uod))


def parse_text(text: str, uod: Sequence[str] = UOD, custom_ids: bool = False):
    """custom_ids: the production path — a ParserMethod whose lines and ids come from the caller (frontend),
    here the lines of the text under ids that are not `id_<n>`."""
    from openpectus.lang.model.parser import ParserMethod, ParserMethodLine
    if custom_ids:
        m = ParserMethod([ParserMethodLine(f"L{7 * i + 3}-x", ln) for i, ln in enumerate(text.splitlines())])
    else:
        m = ParserMethod.from_pcode(text)
    return m, new_parser(m, uod).parse_method(m)


def kind_of(node) -> str:
    import openpectus.lang.model.ast as p
    if isinstance(node, p.WhitespaceNode):
        return "w"
    return "o" if isinstance(node, p.NodeWithChildren) else "l"


def preorder(program) -> list[tuple[Any, Any]]:
    """(node, parent) pairs of the parsed program in pre-order (ProgramNode itself excluded)."""
    import openpectus.lang.model.ast as p
    out: list[tuple[Any, Any]] = []

    def rec(n):
        for c in n.children:
            out.append((c, n))
            if isinstance(c, p.NodeWithChildren):
                rec(c)
    rec(program)
    return out


def line_no_of(method, node_id: str) -> int | None:
    ids = [ln.id for ln in method.lines]
    return ids.index(node_id) if node_id in ids else None


def observe_rows(text: str, uod: Sequence[str] = UOD, custom_ids: bool = False) -> str:
    """`idx:parent:err:char:kind;…` in tree pre-order; idx/parent = index of the method line whose id the node
    carries (`r` = ProgramNode). Column and flag of blank/comment nodes carry no meaning and are masked."""
    import openpectus.lang.model.ast as p
    try:
        method, prog = parse_text(text, uod, custom_ids)
    except Exception as e:  # the property says parsing never fails
        return f"err:{type(e).__name__}"
    ids = {ln.id: i for i, ln in enumerate(method.lines)}
    rows = []
    for node, parent in preorder(prog):
        par = "r" if isinstance(parent, p.ProgramNode) else str(ids.get(parent.id, "?"))
        if node.parent is not parent:
            par += "!"  # parent pointer and children list disagree
        if kind_of(node) == "w":
            rows.append(f"{ids.get(node.id, '?')}:{par}:-:-:w")
        else:
            rows.append(f"{ids.get(node.id, '?')}:{par}:{encb(bool(node.indent_error))}:{node.position.character}:"
                        f"{kind_of(node)}")
    return ";".join(rows) if rows else "-"


def observe_nodes(text: str, uod: Sequence[str] = UOD) -> str:
    """number of lines + class of the node of every line (first pass of parse_method)."""
    from openpectus.lang.model.parser import ParserMethod
    try:
        m = ParserMethod.from_pcode(text)
        ps = new_parser(m, uod)
        nodes = [ps._parse_line(ln.content, i) for i, ln in enumerate(m.lines)]
    except Exception as e:
        return f"err:{type(e).__name__}"
    return f"{len(nodes)}\t" + ",".join(type(n).__name__ for n in nodes)


def observe_cond(c) -> str:
    return "\t".join([enc(c.op), enc(c.lhs), enc(c.rhs), _enc_opt(c.tag_name), _enc_opt(c.tag_value),
                      _enc_opt(c.tag_unit), encb(bool(c.error)), typed(c.tag_value or "", c.tag_value_numeric)])


def observe_node(node, raw: bool = True) -> str:
    """raw=True: every field incl. the raw regex groups; raw=False: the parts the property speaks about."""
    import openpectus.lang.model.ast as p
    f = [type(node).__name__, str(node.position.character), encb(bool(node.indent_error)), enc(node.threshold_part),
         typed(node.threshold_part, node.threshold)]
    if raw:
        f += [enc(node.instruction_part), enc(node.instruction_part.strip()), enc(node.arguments_part)]
    else:
        f += [enc(node.instruction_part.strip())]
    f += [enc(node.arguments), encb(bool(node.has_argument)), encb(bool(node.has_comment)), enc(node.comment_part)]
    if isinstance(node, p.NodeWithTagOperatorValue):
        f.append(observe_cond(node.tag_operator_value))
    return "\t".join(f)


def parse_one_line(line: str, uod: Sequence[str] = UOD):
    from openpectus.lang.model.parser import ParserMethod, ParserMethodLine
    m = ParserMethod([ParserMethodLine("id_1", line)])
    return new_parser(m, uod)._parse_line(line, 0)


def observe_line(line: str, uod: Sequence[str] = UOD, raw: bool = True) -> str:
    try:
        return observe_node(parse_one_line(line, uod), raw)
    except Exception as e:
        return f"err:{type(e).__name__}"


def observe_cond_direct(ops: Sequence[str], part: str) -> str:
    """`_parse_tag_operator_value` on a bare node with the given operator list and arguments_part."""
    import openpectus.lang.model.ast as p
    from openpectus.lang.model.parser import PcodeParser
    node = p.WatchNode() if len(ops) > 1 else p.SimulateNode()
    assert list(node.operators) == list(ops), "operator list differs from the node class"
    node.arguments_part = part
    try:
        PcodeParser._parse_tag_operator_value(node)
    except Exception as e:
        return f"err:{type(e).__name__}"
    return observe_cond(node.tag_operator_value)


def observe_split(text: str) -> str:
    ls = text.splitlines()
    return f"{len(ls)}\t" + "|".join(enc(x) for x in ls)


# ----------------------------------------------------------------------------------------------
# generators

def rand_word(rng: random.Random, alphabet: str, lo: int, hi: int) -> str:
    return "".join(rng.choice(alphabet) for _ in range(rng.randint(lo, hi)))


NASTY = list(" \t:#._-+=<>!%/*0123456789eE") + list("abzAZMk") + \
    ["\xa0", " ", "　", "\x1f", "٣", "१", "\U0001d7d8", "µ", "°", "é", "中",
     "\U0001f600", "́", "​", "﻿", "\x00", "\x7f"]


def rand_unicode_char(rng: random.Random) -> str:
    r = rng.random()
    if r < 0.75:
        return rng.choice(NASTY)
    if r < 0.85:
        return chr(rng.randrange(32, 127))
    while True:
        c = rng.randrange(0, 0x11000) if rng.random() < 0.8 else rng.randrange(0, 0x110000)
        if not 0xD800 <= c <= 0xDFFF:
            return chr(c)


def rand_unicode_line(rng: random.Random, maxlen: int = 12) -> str:
    return "".join(rand_unicode_char(rng) for _ in range(rng.randrange(0, maxlen)))


# ill-formed conditions in which the operator found first occurs twice (`split` then yields three parts)
REPEATED_OP = ["1 < X < 5", "X > 1 > 0", "A == B == C", "X = Y = 2", "0 <= X <= 10", "X != 1 != 2", "a >= b >= c",
               "X<1<", "= =", "X == 1 == ", "T < 5 °C < 9"]


def rand_condition(rng: random.Random) -> str:
    if rng.random() < 0.1:
        return rng.choice(REPEATED_OP)
    tag = rng.choice(["X", "Run Counter", "Block Time", "A1", "Tag 2"])
    val = rng.choice(["0", "5", "12", "0.5", "1e3", "-3", "Running", "5 mL", "3 L/h", "2 %", "5 °C"])
    return f"{tag} {rng.choice(OPS)} {val}"


def rand_instruction(rng: random.Random, opener: bool | None = None) -> tuple[str, str]:
    """(text without indentation, kind 'o'/'l')"""
    if opener is None:
        opener = rng.random() < 0.35
    thr = rng.choice(["", "", "", "1 ", "2.5 ", "10 "])
    cmt = rng.choice(["", "", "", " # note", "# x", "   #"])
    if opener:
        name = rng.choice(OPENERS)
        arg = rand_condition(rng) if name in ("Watch", "Alarm") else rng.choice(["A", "B1", "my block"])
        return f"{thr}{name}: {arg}{cmt}", "o"
    name = rng.choice(LEAVES + UOD + ["Mark", "Mark", "Mark", "Foo", "1Mark"])
    r = rng.random()
    if name == "Simulate":
        body = f"{name}: X = {rng.choice(['1', '22', '5 mL', 'Y = 2', '1 = 1'])}"
    elif r < 0.5:
        body = f"{name}: {rng.choice(['a', 'b c', '5', '1.5 h', 'x: y'])}"
    elif r < 0.6:
        body = f"{name}:"
    else:
        body = name
    return f"{thr}{body}{cmt}", "l"


# instruction lines that do not match the line pattern (first character not in [a-zA-Z_0-9]): not blank, not a comment
UNPARSABLE = ["?", ":x", "-5 Mark", "(", "ÜMark: a", "= 3", "!", "٣", ".5 Mark", "- note", "\u00b5 = 1", "*", "[x]"]


def rand_ws_line(rng: random.Random, around: int) -> str:
    """blank or comment-only line with an indentation that means nothing"""
    ind = rng.choice([0, 0, around, around, max(0, around - 4), around + 4, rng.randrange(0, 14)])
    r = rng.random()
    if r < 0.45:
        return " " * ind
    if r < 0.5:
        return rng.choice(PY_SPACE_NO_BREAK) * rng.randrange(1, 4)
    return " " * ind + rng.choice(["# comment", "#", "#  x: y # z", "# Block: A"])
