"""Grammar-directed generator of P-code methods, snippets and interpreter schedules.

All randomness comes from the `random.Random` passed in.  Programs are mostly valid (structured,
correctly indented); `malformed=True` mixes in unknown instructions, bad arguments and bad
indentation.  Durations / thresholds are dyadic so that float clocks are exact.
"""
from __future__ import annotations

import random
from fractions import Fraction

UOD_COMMANDS = ["CmdA", "CmdB", "CmdC"]
COND_TAGS = ["T0", "T1", "T2"]
OPS = ["<", "<=", "=", "!=", ">", ">="]
DYADIC = ["0.125", "0.25", "0.5", "0.75", "1", "1.5", "2", "3"]


class Gen:
    def __init__(self, rng: random.Random, max_depth: int = 3, max_lines: int = 14,
                 features: set[str] | None = None, malformed: bool = False, bad_conditions: bool = False):
        self.rng = rng
        self.max_depth = max_depth
        self.max_lines = max_lines
        self.malformed = malformed
        self.bad_conditions = bad_conditions   # conditions that raise when evaluated (not in model M3)
        self.features = features or {"mark", "block", "watch", "alarm", "macro", "wait", "cmd", "thr", "base",
                                     "blank", "engine"}
        self.lines: list[str] = []
        self.macros: list[str] = []
        self.mark_no = 0
        self.block_no = 0
        self.stats: dict[str, int] = {}

    def count(self, k: str):
        self.stats[k] = self.stats.get(k, 0) + 1

    def emit(self, depth: int, text: str, thr: bool = True):
        r = self.rng
        prefix = ""
        if thr and "thr" in self.features and r.random() < 0.18:
            prefix = r.choice(DYADIC) + " "
            self.count("threshold")
        self.lines.append("    " * depth + prefix + text)

    def mark(self, depth: int):
        self.mark_no += 1
        self.emit(depth, f"Mark: m{self.mark_no}")
        self.count("mark")

    def cond(self) -> str:
        r = self.rng
        return f"{r.choice(COND_TAGS)} {r.choice(OPS)} {r.randrange(0, 4)}"

    def body(self, depth: int, budget: int, in_block: bool, in_macro: bool = False) -> int:
        """Emit 1..budget lines at `depth`; returns lines used."""
        r = self.rng
        used = 0
        n = r.randrange(1, max(2, min(budget, 5) + 1))
        for _ in range(n):
            if used >= budget or len(self.lines) >= self.max_lines:
                break
            used += self.instruction(depth, budget - used, in_block, in_macro)
        if used == 0:
            self.mark(depth)
            used = 1
        return used

    def instruction(self, depth: int, budget: int, in_block: bool, in_macro: bool) -> int:  # noqa: C901
        r = self.rng
        f = self.features
        choices = [("mark", 5)]
        if "wait" in f:
            choices.append(("wait", 2))
        if "cmd" in f:
            choices.append(("cmd", 3))
        if "blank" in f:
            choices.append(("blank", 1))
        if "base" in f:
            choices.append(("base", 1))
        if "engine" in f:
            choices.append(("simple", 1))
        if in_block:
            choices.append(("endblock", 3))
            choices.append(("endblocks", 1))
        elif "endany" in f and depth > 0:
            # optional feature: End block / End blocks also in a Watch / Alarm / Macro body that is not lexically
            # inside a block (it then acts on whatever blocks the other generators have open)
            choices.append(("endblock", 2))
            choices.append(("endblocks", 2))
        if self.macros and "macro" in f:
            choices.append(("call", 3))
        if depth < self.max_depth and budget >= 2:
            if "block" in f:
                choices.append(("block", 3))
            if "watch" in f:
                choices.append(("watch", 3))
            if "alarm" in f:
                choices.append(("alarm", 2))
            if "macro" in f and depth == 0 and not in_macro:
                choices.append(("macro", 2))
        if self.malformed:
            choices.append(("bad", 3))
        kinds, weights = zip(*choices)
        k = r.choices(kinds, weights)[0]
        self.count(k)
        if k == "mark":
            self.mark(depth)
            return 1
        if k == "wait":
            self.emit(depth, f"Wait: {r.choice(['0.0625', '0.25', '0.5', '1', '1.5', '2'])}s")
            return 1
        if k == "cmd":
            self.emit(depth, r.choice(UOD_COMMANDS))
            return 1
        if k == "blank":
            self.lines.append("" if r.random() < 0.5 else "    " * depth + "# a comment")
            return 1
        if k == "base":
            self.emit(depth, f"Base: {r.choice(['s', 'min', 's', 'h'])}", thr=False)
            return 1
        if k == "simple":
            self.emit(depth, r.choice(["Increment run counter", "Run counter: 3", "Notify: hello", "Batch: b1"]))
            return 1
        if k == "endblock":
            self.emit(depth, "End block")
            return 1
        if k == "endblocks":
            self.emit(depth, "End blocks")
            return 1
        if k == "call":
            self.emit(depth, f"Call macro: {r.choice(self.macros)}")
            return 1
        if k == "bad":
            bad = ["Frobnicate", "Mark", "Wait: banana", "Base: parsec", "Call macro: nosuch",
                   "Unknowncmd: 3", "  Mark: misindented", "Run counter: x", "1.5.2 Mark: z"]
            if self.bad_conditions:
                bad += ["Watch: T9 > 1", "Watch: T0 >"]
            self.lines.append("    " * depth + r.choice(bad))
            return 1
        if k == "block":
            self.block_no += 1
            self.emit(depth, f"Block: B{self.block_no}")
            u = self.body(depth + 1, budget - 1, True, in_macro)
            if r.random() < 0.7:
                self.emit(depth + 1, "End block")
                u += 1
            return 1 + u
        if k == "watch":
            self.emit(depth, f"Watch: {self.cond()}")
            return 1 + self.body(depth + 1, budget - 1, in_block, in_macro)
        if k == "alarm":
            self.emit(depth, f"Alarm: {self.cond()}")
            return 1 + self.body(depth + 1, budget - 1, in_block, in_macro)
        if k == "macro":
            name = f"M{len(self.macros) + 1}" if r.random() < 0.85 or not self.macros else r.choice(self.macros)
            self.emit(depth, f"Macro: {name}", thr=False)
            u = self.body(depth + 1, budget - 1, False, True)
            if name not in self.macros:
                self.macros.append(name)
            return 1 + u
        raise AssertionError(k)

    def program(self) -> str:
        while len(self.lines) < self.rng.randrange(3, self.max_lines + 1):
            self.instruction(0, self.max_lines - len(self.lines), False, False)
        if self.rng.random() < 0.3:
            self.lines.append("")
        return "\n".join(self.lines)


def gen_program(rng: random.Random, **kw) -> tuple[str, dict[str, int]]:
    g = Gen(rng, **kw)
    return g.program(), g.stats


def gen_snippet(rng: random.Random) -> str:
    g = Gen(rng, max_depth=1, max_lines=3, features={"mark", "wait", "cmd", "block"})
    g.mark_no = 100 + rng.randrange(100)
    g.instruction(0, 3, False, False)
    return "\n".join(g.lines)


def gen_schedule(rng: random.Random, n_ticks: int, with_requests: bool = True) -> list[list]:
    """Interpreter-level schedule: ticks with clocks and condition tags, interleaved requests.
    Node indices in requests are chosen later (they depend on the parse), so requests carry a
    random selector in [0,1)."""
    ops: list[list] = []
    scope = Fraction(0)
    block = Fraction(0)
    tags = [0, 0, 0]
    for _ in range(n_ticks):
        dt = rng.choice([1, 1, 1, 2, 4])      # eighths of a second
        scope += Fraction(dt, 8)
        block = Fraction(0) if rng.random() < 0.05 else block + Fraction(dt, 8)
        if rng.random() < 0.35:
            tags[rng.randrange(3)] = rng.randrange(0, 4)
        ops.append(["tick", dt, str(scope), str(block), list(tags)])
        if with_requests:
            x = rng.random()
            if x < 0.25:
                ops.append(["complete", rng.random()])
            elif x < 0.31:
                ops.append(["cancel", rng.random()])
            elif x < 0.37:
                ops.append(["force", rng.random()])
    return ops


def gen_edit_script(rng: random.Random) -> list:
    """Edit script for a live edit (see harness.interp_run.apply_edit_script)."""
    g = Gen(rng, max_depth=0, max_lines=2, features={"mark", "wait", "cmd"})
    g.mark_no = 200 + rng.randrange(100)
    script: list = []
    for _ in range(rng.choice([1, 1, 1, 2])):
        x = rng.random()
        if x < 0.5:
            g.lines = []
            g.instruction(0, 1, False, False)
            script.append(["append", g.lines[0]])
        elif x < 0.75:
            g.lines = []
            g.instruction(0, 1, False, False)
            script.append(["change", rng.random(), g.lines[0]])
        elif x < 0.9:
            g.lines = []
            g.instruction(0, 1, False, False)
            script.append(["insert", rng.random(), g.lines[0]])
        else:
            script.append(["delete", rng.random()])
    return script
