"""Real-code side of model M2 "CmdMgr" (properties C10, C11, C12).

Drives the real `Engine` (virtual clock, no timer thread, empty method, no hardware) but bypasses the
interpreter: UOD command requests are handed to the engine exactly the way `visit_UodCommandNode` does it
(`tracking.create_node_instance_id(node)` + `engine.schedule_execution(name, args, instance_id)`) for a
freshly parsed `UodCommandNode` that is registered the way `inject_node` registers injected nodes.
Stop / Restart / Start go through `execute_control_command_from_user`; cancel / force through
`engine.cancel_instruction` / `engine.force_instruction`.

One op per line, one canonical answer line per op — the same text `lean/Driver/CmdMgr.lean` prints:

    (a failing iteration f >= 100 means: in iteration f - 100 the exec function calls set_complete() and then raises)
    cfg <durs> <fails> <overlaps> <variant>   UOD K0..Kn: iterations until complete (0 = never), failing
                                              iteration (-1 = never), overlap lists `1,2;0,3` (`-` = none)
    req <k> [bad]                             interpreter-sourced request of UOD command K<k>; `bad` = with an
                                              argument the command's parser rejects
    user start|stop|restart
    tick
    cancel <id> / force <id>                  by request ordinal (999 = an id nobody knows)
    sim <j>                                   Simulate tag T<j>
    pause 0|1                                 set the run state's paused flag (what Pause / Unpause do)
"""
from __future__ import annotations

import time as _time
from typing import Any

from harness import runstate as RS

EPOCH = 1_000_000.0
NTAGS = 3
MARK = {"created": "C", "started": "S", "uodcommandset": "U", "internalenginecommandset": "I", "completed": "D",
        "failed": "F", "cancelled": "X", "forced": "O", "awaitingthreshold": "T", "awaitingcondition": "W"}
LIFE = {"start": "Start", "stop": "Stop", "restart": "Restart"}


def parse_cfg(line: str) -> dict[str, Any]:
    _, durs, fails, ovl, variant = line.split("\t")
    return {"dur": [int(x) for x in durs.split(",")], "fail": [int(x) for x in fails.split(",")],
            "overlaps": [] if ovl == "-" else [[int(x) for x in g.split(",")] for g in ovl.split(";")],
            "variant": variant}


_STOP_FIX: bool | None = None


def stop_fix_present() -> bool:
    """Does the code under test contain fixes/C10-dispose-instances-on-stop.diff?  Probed by behaviour: a request with
    rejected arguments leaves no instance behind.  (The model has both variants, `Cfg.fixStop`; stored cases carry
    two variant digits and get the third one from here.)"""
    global _STOP_FIX
    if _STOP_FIX is None:
        out = run_case([cfg_line({"dur": [6, 1, 1, 1], "fail": [-1, -1, -1, -1], "overlaps": []}),
                        "user\tstart", "tick", "req\t0\tbad", "tick"])
        _STOP_FIX = " in=- " in out[-1]
    return _STOP_FIX


def model_lines(case: list[str]) -> list[str]:
    """The case as the model driver gets it: the cfg line's variant completed by the fixStop digit."""
    if case and case[0].startswith("cfg\t") and len(case[0].rsplit("\t", 1)[-1]) == 2:
        return [case[0] + ("1" if stop_fix_present() else "0")] + list(case[1:])
    return list(case)


def cfg_line(spec: dict[str, Any], variant: str = "11") -> str:
    ovl = ";".join(",".join(str(x) for x in g) for g in spec["overlaps"]) or "-"
    return "cfg\t" + ",".join(str(x) for x in spec["dur"]) + "\t" + ",".join(str(x) for x in spec["fail"]) + \
        "\t" + ovl + "\t" + variant


class _Clock:
    def __init__(self):
        self.now = EPOCH
        self._orig = (_time.time, _time.monotonic)

    def install(self):
        _time.time = lambda: self.now
        _time.monotonic = lambda: self.now

    def uninstall(self):
        _time.time, _time.monotonic = self._orig


class CmdRun:
    """One engine, one op stream."""

    def __init__(self, spec: dict[str, Any], dt: float = 0.125):
        from openpectus.engine.engine import Engine, EngineTiming
        from openpectus.lang.exec.clock import WallClock
        from openpectus.lang.exec.events import EventListener
        from openpectus.lang.exec.tags import Tag
        from openpectus.lang.exec.timer import NullTimer
        from openpectus.lang.exec.uod import UodBuilder, UodCommand
        import openpectus.protocol.models as Mdl

        self.spec = spec
        self.clock = _Clock()
        self.clock.install()
        self.dt = dt
        self.events: list[str] = []          # since the last observation
        self.all_events: list[tuple] = []    # ("i"|"x"|"f", serial, name index, iteration)
        self._cmds: list[UodCommand] = []    # keeps every instance alive: serial = index
        self.ids: dict[str, int] = {}        # instance_id (uuid) -> request ordinal
        self.req_names: dict[int, str] = {}  # request ordinal -> command name
        self.next_id = 0
        self.runs: dict[str, int] = {}
        self.stop_snaps: list[str] = []
        self.stop_msgs: list[Any] = []
        self.resets = 0

        def serial(cmd: UodCommand) -> int:
            for i, c in enumerate(self._cmds):
                if c is cmd:
                    return i
            self._cmds.append(cmd)
            return len(self._cmds) - 1

        def mk(k: int, dur: int, fail: int):
            def init_fn(cmd: UodCommand):
                s = serial(cmd)
                self.events.append(f"i{s}")
                self.all_events.append(("i", s, k, -1))

            def exec_fn(cmd: UodCommand, **kvargs):
                it = cmd.get_iteration_count()
                s = serial(cmd)
                self.events.append(f"x{s}.{it}k{k}")
                self.all_events.append(("x", s, k, it))
                if fail >= 100 and fail - 100 == it:
                    # e.g. a final hardware write that fails: the command has declared itself complete already
                    cmd.set_complete()
                    raise RuntimeError(f"K{k} completes and then fails at iteration {it}")
                if fail == it:
                    raise RuntimeError(f"K{k} fails at iteration {it}")
                if dur > 0 and it + 1 >= dur:
                    cmd.set_complete()

            def final_fn(cmd: UodCommand):
                s = serial(cmd)
                self.events.append(f"f{s}")
                self.all_events.append(("f", s, k, -1))
            return init_fn, exec_fn, final_fn

        b = (UodBuilder().with_instrument("VerifUod").with_author("v", "v@example.org").with_filename(__file__)
             .with_hardware_none().with_location("loc"))
        for j in range(NTAGS):
            b = b.with_tag(Tag(name=f"T{j}", value=0))
        for k, (dur, fail) in enumerate(zip(spec["dur"], spec["fail"])):
            i, x, f = mk(k, dur, fail)
            # every command has an argument parser that rejects the argument "bad" (parse_args -> None)
            b = b.with_command(name=f"K{k}", exec_fn=x, init_fn=i, finalize_fn=f,
                               arg_parse_fn=lambda a: None if a == "bad" else {})
        for g in spec["overlaps"]:
            b = b.with_command_overlap([f"K{k}" for k in g])
        self.uod = b.build()
        self.engine = Engine(self.uod, EngineTiming(WallClock(), NullTimer(), dt, 1.0))
        self.engine.run(skip_timer_start=True)
        self.engine.set_method(Mdl.Method.from_pcode(""))

        run = self

        class StopListener(EventListener):
            def on_stop(self_inner):
                run.stop_snaps.append(run._track())
                try:
                    from openpectus.engine.engine_message_builder import EngineMessageBuilder
                    mb = EngineMessageBuilder(run.engine, "", False)
                    run.stop_msgs.append(mb.create_runlog_msg("run"))
                except Exception as e:  # the run log cannot be produced
                    run.stop_msgs.append(e)
        self.engine.emitter.add_listener(StopListener())
        mm = self.engine.method_manager
        orig_reset = mm.reset_interpreter

        def counting_reset():
            run.resets += 1
            return orig_reset()
        mm.reset_interpreter = counting_reset  # harness-side wrapper, no repo change

    def close(self):
        try:
            self.engine.cleanup()
        finally:
            self.clock.uninstall()

    # ------------------------------------------------------------------ ops
    @property
    def cm(self):
        return RS.command_manager(self.engine)

    def _life_in_flight(self) -> bool:
        reqs = list(self.cm.cmd_queue.queue) + list(self.cm.cmd_executing)
        return any(r.name in LIFE.values() for r in reqs)

    def op(self, line: str) -> str:
        f = line.split("\t")
        e = self.engine
        if f[0] == "cfg":
            return "ok"
        if f[0] == "req":
            k = int(f[1])
            if not (RS.flag(e, "started") and not RS.flag(e, "stopping")) or k >= len(self.spec["dur"]):
                return "unmodelled"
            bad = len(f) > 2 and f[2] == "bad"
            prog = e.method_manager.parse_inject_code(f"K{k}: bad" if bad else f"K{k}")
            node = prog.children[0]
            # records of the injected code, as Engine.inject_code's interpreter path registers them (public call)
            e.tracking.create_injected_node_records(prog)
            iid = e.tracking.create_node_instance_id(node)
            self.ids[iid] = self.next_id
            self.req_names[self.next_id] = f"K{k}"
            self.next_id += 1
            e.schedule_execution(node.instruction_name, node.arguments, iid)
            return f"id={self.ids[iid]} | " + self.obs()
        if f[0] == "user":
            if self._life_in_flight():
                return "unmodelled"
            try:
                e.execute_control_command_from_user(LIFE[f[1]])
            except ValueError:
                return "err:ValueError | " + self.obs()
            req = list(self.cm.cmd_queue.queue)[-1]
            self.ids[req.instance_id] = self.next_id
            self.next_id += 1
            return "ok | " + self.obs()
        if f[0] == "tick":
            self.clock.now += self.dt
            # did this tick put the engine into its error state?  (an error recorded earlier is told apart by identity)
            before = e.get_error_state_exception()
            e.tick(self.clock.now, self.dt)
            after = e.get_error_state_exception()
            return ("err" if after is not None and after is not before else "ok") + " | " + self.obs()
        if f[0] in ("cancel", "force"):
            n = int(f[1])
            iid = next((u for u, o in self.ids.items() if o == n), f"unknown-{n}")
            try:
                (e.cancel_instruction if f[0] == "cancel" else e.force_instruction)(iid)
                r = "ok"
            except ValueError:
                r = "err:ValueError"
            return r + " | " + self.obs()
        if f[0] == "pause":
            # the paused flag of the run state (Pause / Unpause commands: model M1) as an input
            setattr(e, RS.roles(e)["paused"], f[1] == "1")
            return "ok | " + self.obs()
        if f[0] == "sim":
            # even tags are simulated to the value they really have (0), odd ones to another value
            e.tags[f"T{int(f[1])}"].simulate_value(0 if int(f[1]) % 2 == 0 else 1, self.clock.now)
            return "ok | " + self.obs()
        raise ValueError("bad op " + line)

    # ------------------------------------------------------------------ observation
    def _rid(self, req) -> str:
        if req.name in LIFE.values():
            return req.name.lower()
        return str(self.ids.get(req.instance_id, "?"))

    def _track(self) -> str:
        """Per UOD request known to the *current* tracking: marks, node flags, offered run-log flags."""
        e = self.engine
        info = e.tracking.runtimeinfo
        try:
            items = {i.id: i for i in info.get_runlog().items}
            broken = False
        except AssertionError:
            items, broken = {}, True
        out = []
        for r in info.records:
            if r.node_class_name != "UodCommandNode":
                continue
            node = e.tracking.get_known_node_by_id(r.node_id)
            by_inst: dict[str, list[str]] = {}
            for st in r.states:
                by_inst.setdefault(st.instance_id, []).append(MARK[str(st.state_name)])
            for iid, marks in by_inst.items():
                flags = ("c" if node.cancelled else "") + ("f" if node.forced else "") + \
                        ("d" if node.completed else "") + ("x" if node.failed else "")
                # canonical form: states up to the first conclusive one; a record with states after it has no
                # well-defined run-log item ("??") — whether such states are stored at all is C15's business
                cut = next((k for k, m in enumerate(marks) if m in "DFX"), None)
                if cut is not None and cut < len(marks) - 1:
                    marks, item = marks[:cut + 1], "??"
                elif broken:
                    item = self._item_alone(info, r)
                else:
                    it = items.get(iid)
                    item = "none" if it is None else ("C" if it.cancellable else "-") + ("F" if it.forcible else "-")
                out.append(f"{self.ids.get(iid, '?')}:{''.join(marks)}:{flags or '-'}:{item}")
        return ";".join(out) or "-"

    @staticmethod
    def _item_alone(info, r) -> str:
        try:
            its = info._get_record_runlog_items(r)
        except AssertionError:
            return "!!"
        if not its:
            return "none"
        return ("C" if its[0].cancellable else "-") + ("F" if its[0].forcible else "-")

    def obs(self) -> str:
        e = self.engine
        ev = ",".join(self.events) or "-"
        self.events = []
        ex = ",".join(self._rid(r) for r in self.cm.cmd_executing) or "-"
        qu = ",".join(self._rid(r) for r in self.cm.cmd_queue.queue) or "-"
        inst = []
        for name in sorted(self.uod.command_instances):
            c = self.uod.command_instances[name]
            if not c.is_initialized() and not any(x is c for x in self._cmds):
                # created, never initialised (its arguments were rejected): it has had no callback yet
                inst.append(f"{name[1:]}:-:{self.ids.get(c.instance_id, '?')}:0")
                continue
            s = next(i for i, x in enumerate(self._cmds + [c]) if x is c)
            if s == len(self._cmds):
                self._cmds.append(c)
            inst.append(f"{name[1:]}:{s}:{self.ids.get(c.instance_id, '?')}:{c.get_iteration_count() + 1}"
                        f"{'i' if c.is_initialized() else ''}{'c' if c.is_cancelled() else ''}"
                        f"{'d' if c.is_execution_complete() else ''}{'f' if c.is_finalized() else ''}")
        from openpectus.lang.exec.tags import SystemTagName
        sys_state = str(e._system_tags[SystemTagName.SYSTEM_STATE].get_value())
        sysc = {"Stopped": "S", "Restarting": "T"}.get(sys_state, "R")
        rid = e._system_tags[SystemTagName.RUN_ID].get_value()
        if rid is not None and rid not in self.runs:
            self.runs[rid] = len(self.runs)
        sim = ",".join(str(j) for j in range(NTAGS) if e.tags[f"T{j}"].simulated) or "-"
        snaps = "/".join(self.stop_snaps) if self.stop_snaps else "none"
        self.stop_snaps = []
        return (f"ev={ev} ex={ex} qu={qu} in={','.join(inst) or '-'} tr={self._track()} "
                f"st={int(RS.flag(e, "started"))}{int(RS.flag(e, "stopping"))}{int(e.tracking.enabled)}{int(RS.flag(e, "paused"))} sys={sysc} "
                f"run={'-' if rid is None else self.runs[rid]} sim={sim} rs={self.resets} stop={snaps}")


def run_case(lines: list[str]) -> list[str]:
    """Execute one op stream (first line `cfg ...`) on the real code."""
    spec = parse_cfg(lines[0])
    run = CmdRun(spec)
    try:
        return [run.op(ln) for ln in lines]
    finally:
        run.close()
