"""Engine-level runs for the property oracles of C10, C11, C12: the real Engine with the real interpreter runs
generated methods whose UOD commands are instrumented per *instance* (init / exec / finalize callbacks log the
instance serial), with a schedule of injects, Stop/Restart, cancel and force requests between ticks.

Independent of the Lean model: only observations of the implementation are used.

    case = {"pcode": str, "ticks": int, "sched": {tick: [op, ...]}}
    op = ["inject", pcode] | ["user", name] | ["cancel", sel] | ["force", sel] | ["sim"?]
    sel = ["item", k]  -> k-th item of the current run log (mod size)   | ["id", "nope"]
        | ["name", prefix, k] -> k-th item whose name starts with prefix | ["threshold", k] -> k-th waiting threshold
"""
from __future__ import annotations

import random
import time as _time
from typing import Any

from harness import runstate as RS

EPOCH = 1_000_000.0
# name -> (iterations until complete, failing iteration or -1)
# (failing iteration 100 + i: the exec function calls set_complete() and then raises in iteration i)
COMMANDS = {"CmdA": (1, -1), "CmdB": (3, -1), "CmdC": (6, -1), "CmdD": (4, -1), "CmdF": (0, 1),
            "CmdX": (0, 101), "CmdY": (0, 100), "CmdL": (0, -1)}       # CmdL never completes by itself
FAILING = ("CmdF", "CmdX", "CmdY")
OVERLAPS = [["CmdB", "CmdC"], ["CmdC", "CmdD"], ["CmdN", "CmdB"], ["CmdX", "CmdD"]]
TAGS = ["T0", "T1", "T2"]


def conflicts(a: str, b: str) -> bool:
    return a == b or any(a in g and b in g for g in OVERLAPS)


class _Clock:
    def __init__(self):
        self.now = EPOCH
        self._orig = (_time.time, _time.monotonic)

    def install(self):
        _time.time = lambda: self.now
        _time.monotonic = lambda: self.now

    def uninstall(self):
        _time.time, _time.monotonic = self._orig


class Run:
    def __init__(self, pcode: str, dt: float = 0.125, failing: bool = True, stop_fault: bool = False):
        from openpectus.engine.engine import Engine, EngineTiming
        from openpectus.lang.exec.clock import WallClock
        from openpectus.lang.exec.events import EventListener
        from openpectus.lang.exec.tags import Tag
        from openpectus.lang.exec.timer import NullTimer
        from openpectus.lang.exec.uod import UodBuilder
        import openpectus.protocol.models as Mdl

        self.clock = _Clock()
        self.clock.install()
        self.dt = dt
        self.tick_no = 0
        self.log: list[tuple] = []        # (tick, kind, name, serial, iteration, instance_id)
        self._cmds: list[Any] = []
        self.stops: list[dict] = []       # what on_stop listeners could see
        self.starts: list[str] = []
        self.start_ticks: list[int] = []
        self.user_reqs: dict[str, dict] = {}   # instance id of a user-sourced UOD request -> engine flags then

        def serial(cmd) -> int:
            for i, c in enumerate(self._cmds):
                if c is cmd:
                    return i
            self._cmds.append(cmd)
            return len(self._cmds) - 1

        def mk(name: str, dur: int, fail: int):
            def init_fn(cmd):
                self.log.append((self.tick_no, "init", name, serial(cmd), -1, cmd.instance_id))

            def exec_fn(cmd, **kvargs):
                it = cmd.get_iteration_count()
                self.log.append((self.tick_no, "exec", name, serial(cmd), it, cmd.instance_id))
                if fail >= 100 and fail - 100 == it:
                    cmd.set_complete()      # e.g. a final hardware write that fails after the command declared itself done
                    raise RuntimeError(f"{name} completes and then fails at iteration {it}")
                if fail == it:
                    raise RuntimeError(f"{name} fails at iteration {it}")
                if dur > 0 and it + 1 >= dur:
                    cmd.set_complete()

            def final_fn(cmd):
                self.log.append((self.tick_no, "final", name, serial(cmd), -1, cmd.instance_id))
            return init_fn, exec_fn, final_fn

        b = (UodBuilder().with_instrument("VerifUod").with_author("v", "v@example.org").with_filename(__file__)
             .with_hardware_none().with_location("loc"))
        for t in TAGS:
            b = b.with_tag(Tag(name=t, value=0))
        for name, (dur, fail) in COMMANDS.items():
            if name in FAILING and not failing:
                continue
            i, x, f = mk(name, dur, fail)
            b = b.with_command(name=name, exec_fn=x, init_fn=i, finalize_fn=f)
        # a command with an argument parser that rejects some arguments: `CmdN: 5` runs 2 iterations,
        # `CmdN: lots` is rejected (parse_args -> None: the request fails before the instance is initialised)
        from openpectus.lang.exec.regex import RegexNumber
        i, x, f = mk("CmdN", 2, -1)
        b = b.with_command_regex_arguments(name="CmdN", arg_parse_regex=RegexNumber(units=None), exec_fn=x,
                                           init_fn=i, finalize_fn=f)
        for g in OVERLAPS:
            b = b.with_command_overlap(list(g))
        self.uod = b.build()
        self.engine = Engine(self.uod, EngineTiming(WallClock(), NullTimer(), dt, 1.0))
        self.engine.run(skip_timer_start=True)
        self.engine.set_method(Mdl.Method.from_pcode(pcode))
        run = self

        class L(EventListener):
            def on_start(self_inner, run_id: str):
                run.starts.append(run_id)
                run.start_ticks.append(run.tick_no)

            def on_stop(self_inner):
                e = run.engine
                snap: dict[str, Any] = {"tick": run.tick_no}
                try:
                    from openpectus.engine.engine_message_builder import EngineMessageBuilder
                    msg = EngineMessageBuilder(e, "", False).create_runlog_msg("run")
                    info = e.tracking.runtimeinfo

                    def invocations(iid: str) -> int:
                        rec = info.get_record_by_instance(iid)
                        return 0 if rec is None else len({st.instance_id for st in rec.states})
                    snap["lines"] = [{"id": ln.id, "name": ln.command_name, "end": ln.end, "cancelled": ln.cancelled,
                                      "failed": ln.failed, "invocations": invocations(ln.id)}
                                     for ln in msg.runlog.lines]
                except Exception as ex:
                    snap["error"] = f"{type(ex).__name__}: {ex}"
                run.stops.append(snap)
        self._l = L()
        self.engine.emitter.add_listener(self._l)
        if stop_fault:
            # fault injection at the listener level: a listener whose on_stop raises (as the archiver's does when two
            # runs end within one second), registered BEFORE the UOD tags and the run-log consumer
            class Faulty(EventListener):
                def on_stop(self_inner):
                    raise FileExistsError("injected: on_stop of another listener fails")
            self.engine.emitter._listeners.insert(0, Faulty())
        self.engine.execute_control_command_from_user("Start")

    def close(self):
        try:
            self.engine.cleanup()
        finally:
            self.clock.uninstall()

    # ---------------------------------------------------------------- observations
    def runlog(self):
        """[(id, name, state, cancellable, forcible, cancelled, forced)] or an error string."""
        try:
            rl = self.engine.tracking.get_runlog()
        except Exception as ex:
            return f"{type(ex).__name__}: {ex}"
        return [(i.id, i.name, str(i.state), bool(i.cancellable), bool(i.forcible), bool(i.cancelled),
                 bool(i.forced)) for i in rl.items]

    def node_of(self, instance_id: str):
        rec = self.engine.tracking.get_record_by_instance_id(instance_id)
        if rec is None:
            return None
        return self.engine.tracking.get_known_node_by_id(rec.node_id)

    def fingerprint(self) -> Any:
        """Everything a rejected request must leave alone."""
        e = self.engine
        from openpectus.lang.exec.tags import SystemTagName
        nodes = []
        info = e.tracking.runtimeinfo
        for r in info.records:
            n = e.tracking.get_known_node_by_id(r.node_id)
            nodes.append((r.node_id, [(s.instance_id, str(s.state_name)) for s in r.states],
                          None if n is None else (n.started, n.completed, n.failed, n.cancelled, n.forced)))
        return {"runlog": self.runlog(), "nodes": nodes, "instances": sorted(self.uod.command_instances),
                "log": len(self.log), "sys": str(e._system_tags[SystemTagName.SYSTEM_STATE].get_value()),
                "flags": (RS.flag(e, "started"), RS.flag(e, "paused"), RS.flag(e, "holding"), RS.flag(e, "stopping")),
                "executing": [(r.name, r.instance_id) for r in RS.command_manager(e).cmd_executing],
                "mark": e.tags["Mark"].get_value() if e.tags.has("Mark") else None}

    def tick(self) -> dict[str, Any]:
        self.clock.now += self.dt
        self.tick_no += 1
        n0 = len(self.log)
        raised = None
        try:
            self.engine.tick(self.clock.now, self.dt)
        except BaseException as ex:
            raised = f"{type(ex).__name__}: {ex}"
        e = self.engine
        from openpectus.lang.exec.tags import SystemTagName
        return {"tick": self.tick_no, "raised": raised, "events": self.log[n0:],
                "instances": sorted(self.uod.command_instances),
                "inst_ids": {n: c.instance_id for n, c in self.uod.command_instances.items()},
                "sys": str(e._system_tags[SystemTagName.SYSTEM_STATE].get_value()),
                "run_id": e._system_tags[SystemTagName.RUN_ID].get_value(),
                "simulated": sorted(t.name for t in e.tags if getattr(t, "simulated", False)),
                "started": RS.flag(e, "started"), "paused": RS.flag(e, "paused"), "holding": RS.flag(e, "holding"),
                "mark": e.tags["Mark"].get_value() if e.tags.has("Mark") else None}

    # ---------------------------------------------------------------- requests
    def request(self, op: list) -> str:
        e = self.engine
        try:
            if op[0] == "inject":
                e.inject_code(op[1])
            elif op[0] == "user":
                e.execute_control_command_from_user(op[1])
                if self.uod.has_command_name(op[1]):
                    # a UOD command from the frontend's command buttons: accepted in every engine state
                    req = list(RS.command_manager(e).cmd_queue.queue)[-1]
                    self.user_reqs[req.instance_id] = {"tick": self.tick_no, "started": RS.flag(e, "started"),
                                                       "stopping": RS.flag(e, "stopping")}
            elif op[0] in ("cancel", "force"):
                (e.cancel_instruction if op[0] == "cancel" else e.force_instruction)(op[1])
            else:
                raise AssertionError(op)
            return "ok"
        except AssertionError:
            raise
        except Exception as ex:
            return f"err:{type(ex).__name__}"


# ------------------------------------------------------------------------------------------------ generators

def gen_method(rng: random.Random, max_lines: int = 9, failing: bool = False, engine_cmds: bool = True,
               waits: bool = True, bad_args: bool = False, thresholds: bool = False) -> str:
    """Methods that keep several UOD commands of different durations in flight, from the main sequence and
    from Watch / Alarm bodies whose conditions are constant (true at once or never)."""
    cmds = ["CmdA", "CmdB", "CmdB", "CmdC", "CmdC", "CmdD"] + (["CmdF", "CmdX", "CmdY"] if failing else [])
    if bad_args:
        cmds += ["CmdN: 5", "CmdN: 7", "CmdN: lots"]
    lines: list[str] = []
    mark = 0

    def simple(depth: int):
        nonlocal mark
        x = rng.random()
        ind = "    " * depth
        if thresholds and rng.random() < 0.15:
            ind += rng.choice(["1.0 ", "2.0 ", "5.0 "])    # a threshold (minutes of block/scope time): waits long
        if x < 0.5:
            lines.append(ind + rng.choice(cmds))
        elif x < 0.68:
            mark += 1
            lines.append(ind + f"Mark: m{mark}")
        elif x < 0.8 and waits:
            lines.append(ind + f"Wait: {rng.choice(['0.25', '0.5', '0.75'])}s")
        elif x < 0.86 and engine_cmds:
            # T tags really are 0: `= 0` simulates a tag to the value it has
            lines.append(ind + f"Simulate: T{rng.randrange(3)} = {rng.choice([0, 0, 1, 2, 3])}")
        elif x < 0.92 and engine_cmds:
            lines.append(ind + f"{rng.choice(['Pause', 'Hold'])}: {rng.choice(['0.25', '0.5'])}s")
        else:
            lines.append(ind + rng.choice(cmds))

    while len(lines) < rng.randrange(3, max_lines + 1):
        x = rng.random()
        if x < 0.22 and len(lines) < max_lines - 1:
            cond = rng.choice(["T0 = 0", "T0 = 0", "T1 < 1", "T2 > 5"])
            lines.append(f"{rng.choice(['Watch', 'Watch', 'Alarm'])}: {cond}")
            for _ in range(rng.randrange(1, 3)):
                simple(1)
        elif x < 0.3 and len(lines) < max_lines - 2:
            lines.append(f"Block: B{len(lines)}")
            for _ in range(rng.randrange(1, 3)):
                simple(1)
            lines.append("    End block")
        else:
            simple(0)
    return "\n".join(lines)


def gen_pause_hold(rng: random.Random) -> str:
    """A timed Hold and a timed Pause started from two Watch bodies, aligned by 0-2 Marks so that they begin in the
    same tick or a tick or two apart: the engine is paused and on hold together for a while."""
    def body(cmd: str, tag: str) -> list[str]:
        pad = [f"    Mark: {tag}{i}" for i in range(rng.randrange(0, 3))]
        return ["Watch: T0 = 0"] + pad + [f"    {cmd}: {rng.choice(['0.5', '1', '2', '4'])}s", f"    Mark: {tag}"]
    a, b = body("Hold", "h"), body("Pause", "p")
    lines = (a + b) if rng.random() < 0.5 else (b + a)
    if rng.random() < 0.5:
        lines.append(rng.choice(["CmdB", "CmdC", "Wait: 0.5s"]))
    return "\n".join(lines)


def gen_snippet(rng: random.Random, failing: bool = False, bad_args: bool = False) -> str:
    cmds = ["CmdA", "CmdB", "CmdC", "CmdD"] + (["CmdF", "CmdX", "CmdY"] if failing else []) + \
        (["CmdN: 3", "CmdN: lots"] if bad_args else [])
    n = rng.choice([1, 1, 2])
    return "\n".join(rng.choice(cmds) for _ in range(n))


# ------------------------------------------------------------------------------------------------ execution

def execute(case: dict[str, Any]) -> dict[str, Any]:
    """Run a case; returns ticks (snapshots), request results and the raw callback log."""
    run = Run(case["pcode"], failing=case.get("failing", True), stop_fault=bool(case.get("stop_fault")))
    try:
        out: dict[str, Any] = {"ticks": [], "requests": [], "stops": run.stops, "starts": run.starts}
        sched = {int(k): v for k, v in case.get("sched", {}).items()}
        for t in range(case["ticks"]):
            for op in sched.get(t, []):
                op = list(op)
                rec: dict[str, Any] = {"tick": t, "op": list(op)}
                if op[0] in ("cancel", "force"):
                    rl = run.runlog()
                    sel = op[1]
                    if sel[0] == "name":
                        # the k-th run-log item whose name starts with the prefix (e.g. the timed Hold / Pause)
                        named = [x for x in rl if x[1].startswith(sel[1])] if isinstance(rl, list) else []
                        sel = ["item", rl.index(named[sel[2] % len(named)])] if named else ["item", -1]
                        if not named:
                            rl = None
                    if sel[0] == "item" and isinstance(rl, list) and rl:
                        item = rl[sel[1] % len(rl)]
                        op[1] = item[0]
                        node = run.node_of(item[0])
                        cmd = run.engine.tracking.get_command(item[0])
                        record = run.engine.tracking.get_record_by_instance_id(item[0])
                        rec["invocations"] = 0 if record is None else len({st.instance_id for st in record.states})
                        # the node's flags no longer belong to this item (a re-arm / macro call reset the node)
                        rec["node_reset"] = node is not None and (bool(node.cancelled) != item[5] or
                                                                  bool(node.forced) != item[6])
                        # the command instance this item's request created (looked up in the harness's own list of
                        # instances, not through the tracking): is it running right now?
                        own = next((c for c in run._cmds if c.instance_id == item[0]), None)
                        rec["own_running"] = own is not None and own.is_initialized() and not own.is_finalized() and \
                            not own.is_cancelled() and not own.is_execution_complete()
                        rec.update(item=item, node_cls=type(node).__name__ if node is not None else None,
                                   has_cmd=cmd is not None,
                                   cmd_serial=next((i for i, c in enumerate(run._cmds) if c is cmd), None),
                                   node_id=getattr(node, "id", None))
                    elif sel[0] == "item":
                        rec["skipped"] = True
                        out["requests"].append(rec)
                        continue
                    elif sel[0] == "threshold":
                        # an instruction that is waiting for its threshold (such items are not in the run log; the
                        # record has an instance id all the same)
                        waiting = []
                        for n in run.engine.interpreter._program.get_all_nodes():
                            if n.threshold is not None and not n.started and not n.completed:
                                r0 = run.engine.tracking.runtimeinfo.get_record_by_node(n.id)
                                if r0 is not None and r0.last_instance_id is not None:
                                    waiting.append((n, r0.last_instance_id))
                        if not waiting:
                            rec["skipped"] = True
                            out["requests"].append(rec)
                            continue
                        node, iid = waiting[sel[1] % len(waiting)]
                        op[1] = iid
                        rec.update(item=None, threshold_node=node.id, node_cls=type(node).__name__,
                                   forcible=bool(node.forcible))
                    else:
                        op[1] = "no-such-id"
                        rec["item"] = None
                    rec["before"] = run.fingerprint()
                    rec["result"] = run.request(op)
                    rec["after"] = run.fingerprint()
                    rec["paused_after"] = (RS.flag(run.engine, "paused"), RS.flag(run.engine, "holding"))
                else:
                    rec["result"] = run.request(op)
                out["requests"].append(rec)
            snap = run.tick()
            snap["runlog"] = run.runlog()
            snap["nodes"] = {n.id: (type(n).__name__, n.started, n.completed, n.cancelled, n.forced,
                                    getattr(n, "activated", None),
                                    [c.id for c in getattr(n, "children", None) or []])
                             for n in run.engine.interpreter._program.get_all_nodes()}
            out["ticks"].append(snap)
        out["log"] = list(run.log)
        out["user_reqs"] = dict(run.user_reqs)
        out["start_ticks"] = list(run.start_ticks)
        out["final_instances"] = sorted(run.uod.command_instances)
        return out
    finally:
        run.close()


# ------------------------------------------------------------------------------------------------ oracles
# Each returns a list of (key, detail).  Keys are failure signatures (kind + site).

def oracle_c11(res: dict[str, Any]) -> list[tuple[str, str]]:
    out: list[tuple[str, str]] = []
    log = res["log"]
    # exclusivity per tick
    by_tick: dict[int, list[tuple]] = {}
    for ev in log:
        if ev[1] == "exec":
            by_tick.setdefault(ev[0], []).append(ev)
    for t, evs in by_tick.items():
        for a in evs:
            for b in evs:
                if a[3] < b[3] and conflicts(a[2], b[2]):
                    kind = "same-command" if a[2] == b[2] else "overlapping-commands"
                    out.append((f"two-instances-execute-in-one-tick:{kind}",
                                f"tick {t}: instance #{a[3]} of {a[2]} and instance #{b[3]} of {b[2]} both executed"))
    # an instance that has ended (its exec raised or it completed) is finalized in that same tick
    fin_tick = {ev[3]: ev[0] for ev in log if ev[1] == "final"}
    for ev in log:
        if ev[1] == "exec":
            dur, fail = COMMANDS.get(ev[2], (2, -1))
            fail = fail % 100 if fail >= 0 else -1
            ended = "raised" if fail == ev[4] else ("completed" if dur > 0 and ev[4] + 1 >= dur else None)
            if ended and fin_tick.get(ev[3], 10 ** 9) > ev[0]:
                out.append((f"{'failed' if ended == 'raised' else 'completed'}-instance-not-finalized",
                            f"tick {ev[0]}: {ev[2]} #{ev[3]} {ended} in iteration {ev[4]}, no finalize in that tick"))
    # when a run ends (Stop / Restart completed) every instance that was initialised has been finalized
    for stop in res["stops"]:
        t = stop["tick"]
        fin = {ev[3] for ev in log if ev[1] == "final" and ev[0] <= t}
        for ev in log:
            if ev[1] == "init" and ev[0] <= t and ev[3] not in fin:
                out.append(("initialised-instance-not-finalized-when-run-ends" +
                            (":started-while-stopping" if ev[0] == t else ""),
                            f"{ev[2]} #{ev[3]} was initialised at tick {ev[0]} and is not finalized although the run "
                            f"ended at tick {t}"))
    # pairing per instance
    state: dict[int, str] = {}
    live_conflict_reported = False
    for ev in log:
        t, kind, name, ser = ev[0], ev[1], ev[2], ev[3]
        st = state.get(ser, "new")
        if kind == "init":
            if st != "new":
                out.append(("instance-initialized-twice", f"tick {t}: {name} #{ser} initialized in state {st}"))
            state[ser] = "init"
            # requesting a command first cancels the older one: the older instance is finalized by the end of this
            # tick (the order of the finalize callback within the tick is the code's business: `cancel()` comes first,
            # the finalize may follow when the older request has its turn in the same loop)
            for other, ost in state.items():
                if other != ser and ost in ("init", "run") and not live_conflict_reported and \
                        fin_tick.get(other, 10 ** 9) > t:
                    oname = next(e[2] for e in log if e[3] == other)
                    if conflicts(name, oname):
                        live_conflict_reported = True
                        # (the older one started in the last tick of a run, while Stop / Restart waited for its
                        #  second phase, and was forgotten with the run's command manager: own signature)
                        o_init = next(e[0] for e in log if e[3] == other and e[1] == "init")
                        late = ":older-one-started-while-stopping" if any(st["tick"] == o_init for st in res["stops"]) else ""
                        out.append(("new-instance-starts-before-older-one-is-finalized" + late,
                                    f"tick {t}: {name} #{ser} initialized while {oname} #{other} is not finalized"))
        elif kind == "exec":
            if st == "new":
                out.append(("exec-before-init", f"tick {t}: {name} #{ser} executed without initialize"))
            elif st == "final":
                out.append(("exec-after-finalize", f"tick {t}: {name} #{ser} executed after finalize"))
            state[ser] = "run" if st != "final" else st
        elif kind == "final":
            if st == "final":
                out.append(("instance-finalized-twice", f"tick {t}: {name} #{ser} finalized twice"))
            if st == "new":
                # pairing: the finalize callback of an instance whose initialize callback never ran
                out.append(("finalized-without-initialize", f"tick {t}: {name} #{ser} finalized, never initialized"))
            state[ser] = "final"
    return out


def unfinalized(res: dict[str, Any]) -> list[tuple[int, str]]:
    fin = {ev[3] for ev in res["log"] if ev[1] == "final"}
    seen: dict[int, str] = {}
    for ev in res["log"]:
        seen.setdefault(ev[3], ev[2])
    return [(s, n) for s, n in seen.items() if s not in fin]


def oracle_c10(case: dict[str, Any], res: dict[str, Any]) -> list[tuple[str, str]]:
    """What must hold when Stop / Restart completes (the tick in which the on_stop listeners ran)."""
    out: list[tuple[str, str]] = []
    log = res["log"]
    first_seen: dict[int, int] = {}
    for ev in log:
        first_seen.setdefault(ev[3], ev[0])
    executed_ids = {ev[5] for ev in log if ev[1] in ("init", "exec")}
    # the ticks in which a run ended, seen on the engine itself (not through a listener): started -> not started
    ends = [i + 1 for i in range(1, len(res["ticks"]))
            if res["ticks"][i - 1]["started"] and not res["ticks"][i]["started"]]
    delivered = {stop["tick"]: stop for stop in res["stops"]}
    for t in sorted(set(ends) | set(delivered)):
        stop = delivered.get(t)
        snap = res["ticks"][t - 1]
        if stop is None:
            # the consumer of the final run log was not called (whatever other listeners did in their on_stop)
            out.append(("final-runlog-not-delivered", f"tick {t}: the run ended, no on_stop reached the run-log listener"))
            stop = {"tick": t, "lines": []}
        if snap["instances"]:
            # instances that never had a callback (created for a request with rejected arguments): own signature
            ran = {ev[2] for ev in log if ev[0] <= t}
            fin_names = [ev[2] for ev in log if ev[1] == "final" and ev[0] <= t]
            init_names = [ev[2] for ev in log if ev[1] == "init" and ev[0] <= t]
            leaked = [n for n in snap["instances"] if init_names.count(n) > fin_names.count(n)]
            if leaked:
                # initialised in the very tick in which the run ended: only a command from the user's command
                # buttons can start while Stop / Restart waits for its second phase (the interpreter does not tick)
                fin_sers = {ev[3] for ev in log if ev[1] == "final" and ev[0] <= t}
                open_inits = [ev for ev in log if ev[1] == "init" and ev[0] <= t and ev[3] not in fin_sers and
                              ev[2] in leaked]
                late = bool(open_inits) and all(ev[0] == t for ev in open_inits)
                out.append(("instance-survives-stop" + (":started-while-stopping" if late else ""),
                            f"tick {t}: uod.command_instances = {snap['instances']}"))
            else:
                out.append(("uninitialised-instance-survives-stop",
                            f"tick {t}: never initialised {snap['instances']} still in uod.command_instances"))
        if snap["simulated"]:
            out.append(("simulation-survives-stop", f"tick {t}: {snap['simulated']} still simulated"))
        if snap["run_id"] is not None:
            out.append(("run-id-survives-stop", f"tick {t}: Run Id = {snap['run_id']}"))
        if "error" in stop:
            out.append(("final-runlog-not-producible", f"tick {t}: {stop['error']}"))
        else:
            for ln in stop["lines"]:
                if ln["id"] in executed_ids and ln["end"] is None:
                    # a node that ran several times (Alarm body) shares one record: separate signature
                    rep = ":repeated-node" if ln.get("invocations", 1) > 1 else ""
                    out.append(("started-command-not-concluded-in-final-runlog" + rep,
                                f"tick {t}: {ln['name']} was executed but the reported run log line has no end"))
        for ev in log:
            if ev[0] > t and ev[1] == "exec" and first_seen[ev[3]] <= t:
                # (an instance that started in the run's last tick, while Stop waited: see instance-survives-stop)
                late = ":started-while-stopping" if first_seen[ev[3]] == t else ""
                out.append(("command-executes-after-stop" + late,
                            f"tick {ev[0]}: {ev[2]} #{ev[3]} executes after the run ended at tick {t}"))
                break
    # Restart: the new run is not paused or on hold (nothing of the old run's Pause / Hold / error pause is left)
    restarts = [q["tick"] for q in res["requests"] if q["op"] == ["user", "Restart"] and q.get("result") == "ok"]
    for ts in res.get("start_ticks", [])[1:]:
        snap = res["ticks"][ts - 1] if 0 < ts <= len(res["ticks"]) else None
        # (a run begun by Restart — three ticks after the request — in a tick in which no command of the user ran:
        #  such a command can fail and pause the new run at once)
        if snap is not None and snap["raised"] is None and (snap["paused"] or snap["holding"]) and \
                not snap["events"] and any(ts - 3 <= q <= ts for q in restarts):
            out.append(("restarted-run-begins-paused",
                        f"tick {ts}: the run begun by Restart is {'paused' if snap['paused'] else 'on hold'}"))
    # Restart: new run id, method from its first line
    if len(res["starts"]) >= 2 and res["stops"]:
        if len(set(res["starts"])) != len(res["starts"]):
            out.append(("run-id-reused", f"run ids {res['starts']}"))
        t_stop = res["stops"][0]["tick"]
        after = [ev[2] for ev in log if ev[1] == "init" and ev[0] > t_stop]
        ref = case.get("_reference")
        late_inject = any((op[0] == "inject" or (op[0] == "user" and op[1] in COMMANDS)) and int(k) >= t_stop - 2
                          for k, ops in case.get("sched", {}).items() for op in ops)
        if ref is not None and not late_inject and len(after) >= 2 and len(ref) >= 2 and after[:2] != ref[:2]:
            out.append(("restart-does-not-rerun-from-first-line",
                        f"commands after restart {after[:4]} vs fresh run {ref[:4]}"))
        # ... and it does run: the first command of a fresh run starts as many ticks after the run began (+2)
        ref_delay = case.get("_reference_delay")
        st = res.get("start_ticks", [])
        if ref_delay is not None and len(st) >= 2 and not late_inject and not after and \
                st[1] + ref_delay + 2 <= len(res["ticks"]) and \
                not any(res["ticks"][k]["raised"] for k in range(st[1] - 1, len(res["ticks"]))) and \
                not any(q["op"][0] == "user" and q["tick"] >= st[1] - 1 for q in res["requests"]):
            out.append(("restart-does-not-rerun-from-first-line",
                        f"no command started within {ref_delay + 2} ticks after the run began at tick {st[1]}; a "
                        f"fresh run starts {ref[:1]} {ref_delay} ticks after its start"))
    return out


def reference_inits(case: dict[str, Any]) -> list[str]:
    """Command instances a fresh run of the method creates, in order (for the Restart clause)."""
    res = execute({"pcode": case["pcode"], "ticks": min(case["ticks"], 30), "sched": {}, "failing": case.get("failing", True)})
    return [ev[2] for ev in res["log"] if ev[1] == "init"]


def reference_delay(case: dict[str, Any]) -> int | None:
    """Ticks between the begin of a fresh run and the first command it starts (None: it starts none in 30 ticks)."""
    res = execute({"pcode": case["pcode"], "ticks": min(case["ticks"], 30), "sched": {}, "failing": case.get("failing", True)})
    inits = [ev[0] for ev in res["log"] if ev[1] == "init"]
    return inits[0] - res["start_ticks"][0] if inits and res["start_ticks"] else None


def oracle_c12(case: dict[str, Any], res: dict[str, Any]) -> list[tuple[str, str]]:
    out: list[tuple[str, str]] = []
    log = res["log"]
    n_ticks = len(res["ticks"])

    def node_at(t: int, node_id):
        if node_id is None or t >= n_ticks:
            return None
        return res["ticks"][t]["nodes"].get(node_id)
    for r in res["requests"]:
        op = r["op"][0]
        if op not in ("cancel", "force") or r.get("skipped"):
            continue
        t = r["tick"]                      # the request arrives before tick index t (0-based)
        item = r.get("item")
        same = r["before"] == r["after"]
        if r.get("threshold_node") is not None:
            # a forced threshold instruction proceeds without waiting
            if op == "force" and r["result"] == "ok":
                window = [k for k in range(t, n_ticks) if res["ticks"][k]["sys"] == "Running" and
                          not res["ticks"][k]["paused"] and not res["ticks"][k]["holding"]][:3]
                if len(window) == 3 and window[-1] - t <= 3:
                    seen = [node_at(k, r["threshold_node"]) for k in window]
                    if all(nd is not None for nd in seen) and not any(nd[1] or nd[2] for nd in seen):
                        out.append(("forced-threshold-still-waiting",
                                    f"force of a {r['node_cls']} awaiting its threshold before tick {t + 1}: not started "
                                    f"at tick {window[-1] + 1}"))
            elif op == "force" and r.get("forcible") and r["result"] != "ok":
                pass                       # offered-but-refused is not judged
            continue
        if item is None:                   # an id nobody knows
            if not same:
                out.append((f"{op}-of-unknown-id-changed-state", f"before tick {t + 1}"))
            if op == "cancel" and r["result"] == "ok":
                out.append(("cancel-of-unknown-id-accepted", f"before tick {t + 1}"))
            continue
        cls = r.get("node_cls") or "?"
        # which branch of cancel_instruction / force_instruction serves the request
        site = ("uod-command" if cls == "UodCommandNode" else "engine-command") if r.get("has_cmd") else "node"
        offered = item[3] if op == "cancel" else item[4]
        what = f"{op} of {item[1]!r} ({cls}, state {item[2]}, cancellable={item[3]}, forcible={item[4]}) before tick {t + 1}"
        if not offered:
            if r["result"] == "ok":
                # a node that runs several times (Alarm body) has one set of node flags but one item per invocation
                rep = ":repeated-node" if r.get("invocations", 1) > 1 or r.get("node_reset") else ""
                concl = ":concluded" if item[2] in ("completed", "cancelled", "failed") else ""
                out.append((f"unoffered-{op}-accepted:{site}{rep or concl}", what + " was accepted"))
            elif not same:
                out.append((f"rejected-{op}-changed-state:{site}", what))
            continue
        if r["result"] != "ok":
            # offered and refused.  For a UOD command that is running (its own instance, found without the help of
            # the tracking) the offer must be honoured: "requests take effect exactly as offered"
            if cls == "UodCommandNode" and r.get("own_running"):
                later = ":later-invocation" if r.get("invocations", 1) > 1 else ""
                out.append((f"offered-{op}-rejected:uod-command{later}", what + f" was rejected ({r['result']})"))
            continue                       # other offered-but-refused requests: the property does not speak about them
        if op == "cancel":
            if cls == "UodCommandNode":
                ser = r.get("cmd_serial")
                if r.get("has_cmd") and ser is not None:
                    later = [ev for ev in log if ev[3] == ser and ev[0] > t]
                    if any(ev[1] == "exec" for ev in later):
                        out.append(("cancelled-uod-command-executes", what + f": #{ser} executed afterwards"))
                    fin = [ev for ev in log if ev[3] == ser and ev[1] == "final"]
                    if not fin or fin[0][0] > t + 1:
                        out.append(("cancelled-uod-command-not-finalized", what + f": #{ser} not finalized by tick {t + 1}"))
                else:
                    if any(ev[5] == item[0] and ev[0] > t for ev in log):
                        out.append(("cancelled-unstarted-uod-command-executes", what + ": the command ran afterwards"))
            elif cls == "WatchNode":
                nid = r.get("node_id")
                for k in range(t, n_ticks):
                    nd = node_at(k, nid)
                    if nd is None:
                        break
                    kids = [node_at(k, c) for c in nd[6]]
                    if nd[5] or any(c is not None and c[1] for c in kids):
                        out.append(("cancelled-watch-body-ran", what + f": active at tick {k + 1}"))
                        break
            elif cls == "EngineCommandNode" and item[1].split(":")[0] in ("Pause", "Hold"):
                # only when this is the one Pause / Hold in flight (several requests of one internal command share
                # a single resident instance: model M1's business)
                kind = item[1].split(":")[0]
                rl = r["before"]["runlog"]
                others = [x for x in rl if x[1].split(":")[0] == kind and x[0] != item[0] and
                          x[2] not in ("completed", "cancelled", "failed")] if isinstance(rl, list) else [1]
                if others:
                    continue
                # (a Pause / Hold of the user that was accepted before may be what holds the method afterwards: several
                #  requests of one internal command share one resident instance)
                quiet_next = t < n_ticks and res["ticks"][t]["raised"] is None and \
                    not any(q["op"] == ["user", kind] and q["tick"] <= t + 1 for q in res["requests"])
                if not r.get("has_cmd"):
                    # the item was cancelled before the command manager started the command (the tick after the
                    # node was visited): the Pause / Hold must not take effect at all
                    if quiet_next and not (r["before"]["flags"][1] if kind == "Pause" else r["before"]["flags"][2]):
                        snap = res["ticks"][t]
                        if (kind == "Pause" and snap["paused"]) or (kind == "Hold" and snap["holding"]):
                            out.append(("cancelled-unstarted-engine-command-executes",
                                        what + f": {kind.lower()} in effect at the end of tick {t + 1}"))
                    continue
                # "ends at once": the flag is down when the request returns (whatever else holds the method: a cancelled
                # Hold ends also while the engine is paused, and the other way round) ...
                paused, holding = r["paused_after"]
                if (kind == "Pause" and paused) or (kind == "Hold" and holding):
                    out.append(("cancelled-timed-pause-does-not-end", what + f": still {'paused' if kind == 'Pause' else 'on hold'} after the request"))
                # ... and still at the end of the next tick, unless the user asks for a new one just then or the tick
                # fails (error pause)
                elif quiet_next:
                    snap = res["ticks"][t]
                    if (kind == "Pause" and snap["paused"]) or (kind == "Hold" and snap["holding"]):
                        out.append(("cancelled-timed-pause-does-not-end", what + f": {kind.lower()} in effect again "
                                                                                 f"at the end of tick {t + 1}"))
        else:
            nid = r.get("node_id")
            # "proceeds without waiting": within the next three ticks in which the interpreter runs at all
            # (not paused, on hold, stopped or in error state)
            window = [k for k in range(t, n_ticks) if res["ticks"][k]["sys"] == "Running" and
                      not res["ticks"][k]["paused"] and not res["ticks"][k]["holding"]][:3]
            if len(window) < 3 or window[-1] - t > 3:
                continue
            if cls == "InterpreterCommandNode" and item[1].startswith("Wait"):
                states = []
                for k in window:
                    rl = res["ticks"][k]["runlog"]
                    if isinstance(rl, list):
                        states += [x[2] for x in rl if x[0] == item[0]]
                if states and "completed" not in states:
                    out.append(("forced-wait-still-waiting", what + f": states {states} in the next three ticks"))
            elif cls == "WatchNode":
                seen = [node_at(k, nid) for k in window]
                if all(nd is not None for nd in seen) and not any(nd[5] or nd[2] for nd in seen):
                    out.append(("forced-watch-not-activated", what + f": not activated at tick {window[-1] + 1}"))
    return out
