"""Drives the real Engine deterministically (virtual time, no timer thread, recording hardware) and
takes a snapshot of everything observable after every tick.  Used by the property oracles.

    run = EngineRun(pcode)                 # engine.run(), set_method, Start
    snap = run.tick(dt=0.125)              # one engine tick at virtual time
    run.user("Pause") / run.inject(pcode) / run.edit(new_pcode) / run.cancel(id) / run.force(id)
"""
from __future__ import annotations

import time as _time
from typing import Any

EPOCH = 1_000_000.0
UOD_COMMANDS = {"CmdA": 1, "CmdB": 3, "CmdC": 6}   # name -> iterations until complete
COND_TAGS = ["T0", "T1", "T2"]


class Clock:
    """Virtual wall clock installed into `time.time` / `time.monotonic` of the harness process."""
    def __init__(self):
        self.now = EPOCH
        self._orig = (_time.time, _time.monotonic)

    def install(self):
        _time.time = lambda: self.now
        _time.monotonic = lambda: self.now

    def uninstall(self):
        _time.time, _time.monotonic = self._orig


def make_uod(exec_log: list, overlap: bool = True, extra=None):
    """`extra(builder) -> builder` (optional) adds tags / commands of a particular check; the default UOD is unchanged."""
    from openpectus.lang.exec.tags import Tag
    from openpectus.lang.exec.uod import UodBuilder, UodCommand

    def make_exec(name: str, iterations: int):
        def exec_fn(cmd: UodCommand, **kvargs):
            exec_log.append(("exec", name, cmd.get_iteration_count() if hasattr(cmd, "get_iteration_count") else -1))
            cmd._verif_iter = getattr(cmd, "_verif_iter", 0) + 1
            if cmd._verif_iter >= iterations:
                cmd.set_complete()
        return exec_fn

    b = (UodBuilder().with_instrument("VerifUod").with_author("v", "v@example.org").with_filename(__file__)
         .with_hardware_none().with_location("loc"))
    for t in COND_TAGS:
        b = b.with_tag(Tag(name=t, value=0))
    for name, it in UOD_COMMANDS.items():
        b = b.with_command(name=name, exec_fn=make_exec(name, it),
                           init_fn=(lambda n: (lambda cmd: exec_log.append(("init", n))))(name),
                           finalize_fn=(lambda n: (lambda cmd: exec_log.append(("final", n))))(name))
    # a command with a regex argument parser: `CmdNum: 5` runs one iteration, `CmdNum: lots` is rejected by the parser
    from openpectus.lang.exec.regex import RegexNumber

    def exec_num(cmd: UodCommand, **kvargs):
        exec_log.append(("exec", "CmdNum", kvargs.get("number")))
        cmd.set_complete()
    b = b.with_command_regex_arguments(name="CmdNum", arg_parse_regex=RegexNumber(units=None), exec_fn=exec_num,
                                       init_fn=lambda cmd: exec_log.append(("init", "CmdNum")),
                                       finalize_fn=lambda cmd: exec_log.append(("final", "CmdNum")))
    if overlap:
        b = b.with_command_overlap(["CmdB", "CmdC"])
    if extra is not None:
        b = extra(b)
    return b.build()


class EngineRun:
    def __init__(self, pcode: str, start: bool = True, dt: float = 0.125, uod_extra=None):
        from openpectus.engine.engine import Engine, EngineTiming
        from openpectus.lang.exec.clock import WallClock
        from openpectus.lang.exec.timer import NullTimer
        import openpectus.protocol.models as Mdl
        self.Mdl = Mdl
        self.clock = Clock()
        self.clock.install()
        self.exec_log: list = []
        self.uod = make_uod(self.exec_log, extra=uod_extra)
        self.engine = Engine(self.uod, EngineTiming(WallClock(), NullTimer(), dt, 1.0))
        self.engine.run(skip_timer_start=True)
        self.engine.set_method(Mdl.Method.from_pcode(pcode))
        self.dt = dt
        self.ticks = 0
        self.tick_errors: list[str] = []
        self.method_ends = 0
        from openpectus.lang.exec.events import EventListener
        run = self

        class L(EventListener):
            def on_method_end(self):
                run.method_ends += 1
        self._listener = L()
        self.engine.emitter.add_listener(self._listener)
        if start:
            self.engine.execute_control_command_from_user("Start") if hasattr(
                self.engine, "execute_control_command_from_user") else self.engine.schedule_execution("Start")

    def close(self):
        try:
            self.engine.cleanup()
        finally:
            self.clock.uninstall()

    # -- requests
    def user(self, name: str) -> str:
        try:
            self.engine.execute_control_command_from_user(name)
            return "ok"
        except Exception as e:
            return f"err:{type(e).__name__}"

    def set_tag(self, name: str, value):
        self.engine.tags[name].set_value(value, self.clock.now)

    def inject(self, pcode: str) -> str:
        try:
            self.engine.inject_code(pcode)
            return "ok"
        except Exception as e:
            return f"err:{type(e).__name__}"

    def edit(self, pcode_or_method) -> str:
        m = pcode_or_method if not isinstance(pcode_or_method, str) else self.Mdl.Method.from_pcode(pcode_or_method)
        try:
            self.engine.set_method(m)
            return "ok"
        except Exception as e:
            return f"err:{type(e).__name__}"

    def cancel(self, instance_id: str) -> str:
        try:
            self.engine.cancel_instruction(instance_id)
            return "ok"
        except Exception as e:
            return f"err:{type(e).__name__}"

    def force(self, instance_id: str) -> str:
        try:
            self.engine.force_instruction(instance_id)
            return "ok"
        except Exception as e:
            return f"err:{type(e).__name__}"

    # -- tick + snapshot
    def tick(self, dt: float | None = None) -> dict[str, Any]:
        dt = self.dt if dt is None else dt
        self.clock.now += dt
        self.ticks += 1
        n0 = len(self.exec_log)
        raised = None
        try:
            self.engine.tick(self.clock.now, dt)
        except BaseException as e:  # property C13: a tick must never raise
            raised = f"{type(e).__name__}: {e}"
            self.tick_errors.append(raised)
        snap = self.snapshot()
        snap["raised"] = raised
        snap["exec"] = self.exec_log[n0:]
        return snap

    def program_nodes(self):
        # the program the interpreter is running (after a live edit MethodManager.program is a different object)
        return self.engine.interpreter._program.get_all_nodes()

    def snapshot(self) -> dict[str, Any]:
        e = self.engine
        tags = {t.name: t.get_value() for t in e.tags}
        raw = {t.name: t.value for t in e.tags}   # the value under any simulation (`Simulate: System State = …`)
        nodes = []
        for n in self.program_nodes():
            nodes.append({
                "id": n.id, "cls": type(n).__name__, "name": n.instruction_name, "arg": n.arguments,
                "line": n.position.line, "parent": n.parent.id if n.parent is not None else None,
                "started": n.started, "completed": n.completed, "failed": n.failed,
                "cancelled": n.cancelled, "forced": n.forced, "threshold": n.threshold,
                "lock": getattr(n, "lock_acquired", None), "ended": getattr(n, "block_ended", None),
                "activated": getattr(n, "activated", None), "run_count": getattr(n, "run_count", None),
                "child_index": getattr(n, "child_index", None),
                "interrupt_registered": getattr(n, "interrupt_registered", None),
            })
        return {"tick": self.ticks, "time": self.clock.now, "tags": tags, "raw_tags": raw, "nodes": nodes,
                "interrupts": [i.node.id for i in e.interpreter.interrupts],
                "instances": sorted(self.uod.command_instances.keys()) if hasattr(self.uod, "command_instances") else []}
