"""Drive the real aggregator (openpectus.aggregator) in-process for the M13 checks (C29, C30, C35).

One `AggHarness` = one empty in-memory SQLite database + one `Aggregator` with its message handlers.
Everything goes through the public message handlers (`AggregatorMessageHandlers.handle_*`), exactly as the
dispatcher would call them; the publishers are mocks.  No file in /repo is touched; nothing is monkey-patched.
"""
from __future__ import annotations

import asyncio
from typing import Any
from unittest.mock import AsyncMock, MagicMock

_loop: asyncio.AbstractEventLoop | None = None


def loop() -> asyncio.AbstractEventLoop:
    global _loop
    if _loop is None or _loop.is_closed():
        _loop = asyncio.new_event_loop()
        asyncio.set_event_loop(_loop)
    return _loop


def run(coro):
    return loop().run_until_complete(coro)


_db_engine = None


def _fresh_database(database, DMdl) -> None:
    """An empty in-memory database: created once per process, emptied (all tables) for every further harness —
    same content as a new database, without recompiling the DDL every time."""
    global _db_engine
    if _db_engine is None or database._engine is not _db_engine:
        database.configure_db("sqlite:///:memory:")
        DMdl.DBModel.metadata.create_all(database._engine)  # type: ignore[arg-type]
        _db_engine = database._engine
        return
    with _db_engine.begin() as conn:
        for table in reversed(DMdl.DBModel.metadata.sorted_tables):
            conn.execute(table.delete())


class AggHarness:
    COMPUTER = "pc"
    UOD = "uod"

    def __init__(self) -> None:
        import openpectus.aggregator.data.models as DMdl
        from openpectus.aggregator.aggregator import Aggregator
        from openpectus.aggregator.aggregator_message_handlers import AggregatorMessageHandlers
        from openpectus.aggregator.data import database
        from openpectus.protocol.aggregator_dispatcher import AggregatorDispatcher

        loop()
        _fresh_database(database, DMdl)
        self.database = database
        self.DMdl = DMdl
        self._new_process()

    def _new_process(self) -> None:
        """a new Aggregator (with handlers) on the database as it is"""
        from openpectus.aggregator.aggregator import Aggregator
        from openpectus.aggregator.aggregator_message_handlers import AggregatorMessageHandlers
        from openpectus.protocol.aggregator_dispatcher import AggregatorDispatcher
        publisher = MagicMock()
        for name in ("publish_process_units_changed", "publish_control_state_changed", "publish_method_state_changed",
                     "publish_run_log_changed", "publish_error_log_changed", "publish_method_changed",
                     "publish_active_users_changed"):
            setattr(publisher, name, AsyncMock())
        webpush = MagicMock()
        webpush.publish_message = AsyncMock()
        self.agg = Aggregator(AggregatorDispatcher(), publisher, webpush)
        self.handlers = AggregatorMessageHandlers(self.agg)
        self._eids: dict[int, str] = {}
        self.engine_id = self.eid(0)

    def restart(self, graceful: bool = True) -> None:
        """the aggregator process ends — `Aggregator.shutdown()` as the server's lifespan does it when graceful,
        nothing when it crashes — and a new process works on the same database"""
        if graceful:
            self.agg.shutdown()
        self._new_process()

    def contribute(self, user: int, engine: int = 0) -> bool:
        """a user's command for the engine arrived (`FromFrontend.add_contributor`, the tail of excute_command /
        excute_control_button_command); False if the engine is not registered (the routes answer 404 then)"""
        if self.engine_data(engine) is None:
            return False
        run(self.agg.from_frontend.add_contributor(self.eid(engine), f"user-{user}", f"User {user}"))
        return True

    # -- messages ----------------------------------------------------------------------
    # `engine` = index of the engine the message comes from (0 = the default engine; other indexes are further
    # computers with the same UOD, i.e. further engine ids)
    def _register_msg(self, engine: int = 0):
        import openpectus.protocol.engine_messages as EM
        from openpectus import __version__
        computer = self.COMPUTER if engine == 0 else f"{self.COMPUTER}{engine}"
        return EM.RegisterEngineMsg(computer_name=computer, uod_name=self.UOD, uod_author_name="", uod_author_email="",
                                    uod_filename="", location="", engine_version=__version__)

    def eid(self, engine: int = 0) -> str:
        if engine not in self._eids:
            self._eids[engine] = self.agg.create_engine_id(self._register_msg(engine))
        return self._eids[engine]

    def engine_index(self, engine_id: str) -> int:
        """inverse of `eid` for the engines 0..9"""
        return next(i for i in range(10) if self.eid(i) == engine_id)

    def register(self, engine: int = 0):
        return run(self.handlers.handle_RegisterEngineMsg(self._register_msg(engine)))

    def disconnect(self, engine: int = 0):
        return run(self.handlers.handle_EngineDisconnected(self.eid(engine)))

    def uod_info(self, tag_names: list[str], interval: float):
        import openpectus.protocol.engine_messages as EM
        import openpectus.protocol.models as PM
        readings = [PM.ReadingInfo(discriminator="reading", tag_name=n, valid_value_units=None, entry_data_type=None, commands=[], command_options=None)
                    for n in tag_names]
        uod_def = PM.UodDefinition(commands=[], system_commands=[], tags=[])
        msg = EM.UodInfoMsg(engine_id=self.engine_id, readings=readings, commands=[], uod_definition=uod_def,
                            plot_configuration=PM.PlotConfiguration.empty(), hardware_str="hw", required_roles=set(),
                            data_log_interval_seconds=interval)
        return run(self.handlers.handle_UodInfoMsg(msg))

    def run_started(self, run_id: str, started_tick: float = 1000.0, engine: int = 0):
        import openpectus.protocol.engine_messages as EM
        return run(self.handlers.handle_RunStartedMsg(EM.RunStartedMsg(engine_id=self.eid(engine), run_id=run_id,
                                                                       started_tick=started_tick)))

    def run_stopped(self, run_id: str, engine: int = 0):
        import openpectus.protocol.engine_messages as EM
        import openpectus.protocol.models as PM
        msg = EM.RunStoppedMsg(engine_id=self.eid(engine), run_id=run_id, runlog=PM.RunLog.empty(),
                               method_state=PM.MethodState.empty(), archive=None, archive_filename=None)
        return run(self.handlers.handle_RunStoppedMsg(msg))

    def tags_updated(self, tags: list[tuple[str, Any, float]], run_id: str | None):
        import openpectus.protocol.engine_messages as EM
        import openpectus.protocol.models as PM
        tvs = [PM.TagValue(name=n, tick_time=t, value=v, value_unit=None) for (n, v, t) in tags]
        return run(self.handlers.handle_TagsUpdatedMsg(EM.TagsUpdatedMsg(engine_id=self.engine_id, tags=tvs, run_id=run_id)))

    def error_log(self, entries: list[tuple[str, int, float]]):
        import openpectus.protocol.engine_messages as EM
        import openpectus.protocol.models as PM
        log = PM.ErrorLog(entries=[PM.ErrorLogEntry(message=m, severity=s, created_time=t) for (m, s, t) in entries])
        return run(self.handlers.handle_ErrorLogMsg(EM.ErrorLogMsg(engine_id=self.engine_id, log=log)))

    # -- observations ------------------------------------------------------------------
    def engine_data(self, engine: int = 0):
        return self.agg.get_registered_engine_data(self.eid(engine))

    def current_run_id(self, engine: int = 0) -> str | None:
        ed = self.engine_data(engine)
        return ed.run_data.run_id if ed is not None and ed.has_run() else None

    def plot_log_rows(self) -> list[tuple[str, str]]:
        """(engine_id, run_id) of every PlotLogs row, in insertion order."""
        from sqlalchemy import select
        P = self.DMdl.PlotLog
        with self.database.create_scope():
            s = self.database.scoped_session()
            return [(a, b) for (a, b) in s.execute(select(P.engine_id, P.run_id).order_by(P.id)).all()]

    def recent_run_rows(self) -> list[tuple[str, str]]:
        """(engine_id, run_id) of every RecentRuns row, in insertion order."""
        from sqlalchemy import select
        R = self.DMdl.RecentRun
        with self.database.create_scope():
            s = self.database.scoped_session()
            return [(a, b) for (a, b) in s.execute(select(R.engine_id, R.run_id).order_by(R.id)).all()]

    def stored_error_log(self, run_id: str):
        """entries of the RecentRunErrorLog stored for a run (None if there is no such row)"""
        from openpectus.aggregator.data.repository import RecentRunRepository
        with self.database.create_scope():
            log = RecentRunRepository(self.database.scoped_session()).get_error_log_by_run_id(run_id)
            return None if log is None else list(log.entries)

    def plot_log_run_ids(self) -> list[str]:
        """run_id of every PlotLogs row, in insertion order."""
        from sqlalchemy import select
        with self.database.create_scope():
            s = self.database.scoped_session()
            return list(s.scalars(select(self.DMdl.PlotLog.run_id).order_by(self.DMdl.PlotLog.id)).all())

    def recent_run_ids(self) -> list[str]:
        """run_id of every RecentRuns row, in insertion order."""
        from sqlalchemy import select
        with self.database.create_scope():
            s = self.database.scoped_session()
            return list(s.scalars(select(self.DMdl.RecentRun.run_id).order_by(self.DMdl.RecentRun.id)).all())

    def value_rows(self, after_id: int = 0) -> list[tuple[int, str, str, float, Any]]:
        """(row id, run_id of the plot log, tag name, tick_time, value) of every PlotLogEntryValues row with
        id > after_id, in insertion order."""
        from sqlalchemy import select
        D = self.DMdl
        with self.database.create_scope():
            s = self.database.scoped_session()
            q = (select(D.PlotLogEntryValue, D.PlotLogEntry.name, D.PlotLog.run_id)
                 .join(D.PlotLogEntry, D.PlotLogEntryValue.plot_log_entry_id == D.PlotLogEntry.id)
                 .join(D.PlotLog, D.PlotLogEntry.plot_log_id == D.PlotLog.id)
                 .where(D.PlotLogEntryValue.id > after_id).order_by(D.PlotLogEntryValue.id))
            return [(v.id, rid, name, v.tick_time, v.value) for (v, name, rid) in s.execute(q).all()]


def warm_up() -> None:
    """Import the aggregator, configure the ORM mappers and run every handler once, outside any per-case time
    limit (a SIGALRM landing inside SQLAlchemy's mapper configuration leaves the mappers unusable for the whole
    process)."""
    h = AggHarness()
    h.register()
    h.uod_info(["warm"], 1.0)
    h.run_started("warm-up")
    h.tags_updated([("warm", 1, 1.0)], "warm-up")
    h.error_log([("warm", 1, 1.0)])
    h.disconnect()
    h.register()
    h.run_stopped("warm-up")
    h.plot_log_rows(), h.recent_run_rows(), h.value_rows(), h.stored_error_log("warm-up")
    AggHarness()        # leaves the tables empty


class Ordinals:
    """first-occurrence ordinals for opaque ids (uuids)"""

    def __init__(self) -> None:
        self.m: dict[Any, int] = {}

    def __call__(self, x: Any) -> int:
        return self.m.setdefault(x, len(self.m))
