"""Drives the real `Composite_Hardware` (openpectus/engine/composite_hardware.py) from the op lines of the
Composite model driver (lean/Driver/Composite.lean) and renders the same canonical answer lines.
The underlying layers are fakes with a register memory and a call log.  Used by props/C25.py.
"""
from __future__ import annotations

from typing import Any

NLAYER = 4
NREG = 8


def _v(t: str) -> Any:
    return None if t == "N" else int(t)


def _sv(v: Any) -> str:
    if v is None:
        return "N"
    if isinstance(v, bool) or not isinstance(v, int):
        return f"?{v!r}"
    return str(v)


def _lst(t: str) -> list[str]:
    return [] if t == "-" else t.split(";")


def _sl(xs) -> str:
    xs = list(xs)
    return "-" if not xs else ",".join(xs)


class Impl:
    def __init__(self) -> None:
        from openpectus.engine.composite_hardware import Composite_Hardware
        from openpectus.engine.hardware import HardwareLayerBase, HardwareLayerException, Register, RegisterDirection
        self.Register, self.Both, self.HwExc = Register, RegisterDirection.Both, HardwareLayerException
        impl = self

        class Layer(HardwareLayerBase):
            def __init__(self, idx: int) -> None:
                super().__init__()
                self.idx = idx
                self.mem: dict[str, Any] = {}
                self.failing = False

            def _log(self, regs, vals):
                impl.calls.append((self.idx, [int(r.name[1:]) for r in regs], list(vals)))
                if self.failing:
                    raise HardwareLayerException("scripted layer failure")

            def read(self, r):
                self._log([r], [])
                return self.mem.get(r.name)

            def read_batch(self, registers):
                registers = list(registers)
                self._log(registers, [])
                return [self.mem.get(r.name) for r in registers]

            def write(self, value, r):
                self._log([r], [value])
                self.mem[r.name] = value

            def write_batch(self, values, registers):
                values, registers = list(values), list(registers)
                self._log(registers, values)
                for v, r in zip(values, registers):
                    self.mem[r.name] = v

        self.layers = [Layer(i) for i in range(NLAYER)]
        self.hw = Composite_Hardware()
        self.regs: dict[int, Any] = {}
        self.calls: list[tuple[int, list[int], list[Any]]] = []
        self.layers_op("-")

    def layers_op(self, spec: str) -> None:
        assign = {}
        for p in _lst(spec):
            r, l = p.split(":")
            assign.setdefault(int(r), int(l))      # first entry wins, as `find?` in the driver
        self.regs = {}
        for i in range(NREG):
            if i in assign:
                self.regs[i] = self.Register(f"R{i}", self.Both, hardware=self.layers[assign[i]])
            else:
                self.regs[i] = self.Register(f"R{i}", self.Both)
        table = self.hw.registers          # public property; filled in place, whatever the base class calls its dict
        table.clear()
        table.update({r.name: r for r in self.regs.values()})

    def render(self, res: str, dup: bool = False) -> str:
        """result, per-layer sequence of delivered (register, value) pairs (whatever calls carried them; `~` for a
        batch naming a register twice), per-layer memory.  Read calls are not rendered: the property does not say
        how the layers are to be asked."""
        if dup:
            wlog = "~"
        else:
            per = []
            for l in range(NLAYER):
                ps = [(r, v) for (cl, rs, vs) in self.calls if cl == l for r, v in zip(rs, vs)]
                if ps:
                    per.append(f"{l}[" + ",".join(f"{r}={_sv(v)}" for r, v in ps) + "]")
            wlog = " ".join(per) or "-"
        cells = [f"{l.idx}.{i}={_sv(l.mem[f'R{i}'])}" for l in self.layers for i in range(NREG)
                 if l.mem.get(f"R{i}") is not None]
        return f"{res}\twlog={wlog}\tmem={_sl(cells)}"

    def op(self, line: str) -> str:
        f = line.split("\t")
        self.calls = []
        k = f[0]
        if k == "layers":
            self.layers_op(f[1])
            return "ok"
        if k == "fail":
            self.layers[int(f[1])].failing = f[2] == "1"
            return "ok"
        if k == "poke":
            self.layers[int(f[1])].mem[f"R{int(f[2])}"] = _v(f[3])
            return "ok"
        dup = False
        try:
            if k == "read":
                out = [self.hw.read(self.regs[int(f[1])])]
            elif k == "readb":
                out = self.hw.read_batch([self.regs[int(x)] for x in _lst(f[1])])
            elif k == "readbg":      # generator-typed argument (`registers: Iterable[Register]`)
                out = self.hw.read_batch(self.regs[int(x)] for x in _lst(f[1]))
            elif k == "write":
                out = self.hw.write(_v(f[1]), self.regs[int(f[2])])
            elif k in ("writeb", "writebg"):
                rids = [int(x) for x in _lst(f[2])]
                n = min(len(rids), len(_lst(f[1])))
                dup = len(set(rids[:n])) != n
                if k == "writeb":
                    out = self.hw.write_batch([_v(x) for x in _lst(f[1])], [self.regs[r] for r in rids])
                else:
                    out = self.hw.write_batch((_v(x) for x in _lst(f[1])), (self.regs[r] for r in rids))
            else:
                return "bad-op"
            res = "unit" if out is None else "vals:" + _sl(map(_sv, out))
        except self.HwExc:
            res = "raise:Hw"
        except KeyError:
            res = "raise:Key"
        except Exception as e:
            res = f"raise:{type(e).__name__}"
        return self.render(res, dup)


def run_impl(lines: list[str], observe=None) -> list[str]:
    impl = Impl()
    out = []
    for i, ln in enumerate(lines):
        out.append(impl.op(ln))
        if observe:
            observe(i, ln, impl)
    return out
