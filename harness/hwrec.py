"""Drives the real `ErrorRecoveryDecorator` (openpectus/engine/hardware_recovery.py) from the op lines of
the HwRecovery model driver (lean/Driver/HwRecovery.lean) and renders the same canonical answer lines.

The decorated hardware is a scripted fake: every op line says what the concrete hardware does with the
call(s) the decorator makes.  `time.time` is replaced *inside the hardware_recovery module only* by a
virtual clock (1/8 s resolution, exact in binary floating point).  Used by props/C23.py and props/C24.py.
"""
from __future__ import annotations

import types
from typing import Any

BASE = 1_000_000.0
NREG = 8


class Clock:
    def __init__(self) -> None:
        self.e = 0  # eighths of a second since construction

    def time(self) -> float:
        return BASE + self.e / 8.0


def tok_to_py(t: str) -> Any:
    if t == "N":
        return None
    k, body = t[0], t[1:]
    if k == "n":
        e = int(body)
        return e // 8 if e % 8 == 0 else e / 8.0
    if k == "f":
        return int(body) / 8.0
    if k == "s":
        return chr(int(body))
    raise ValueError(t)


def py_to_tok(v: Any) -> str:
    if v is None:
        return "N"
    if isinstance(v, bool):
        return "?bool"
    if isinstance(v, (int, float)):
        e = v * 8
        if e != int(e):
            return f"?inexact:{v!r}"
        return f"n{int(e)}"
    if isinstance(v, str) and len(v) == 1:
        return f"s{ord(v)}"
    return f"?{type(v).__name__}"


def lst(t: str) -> list[str]:
    return [] if t == "-" else t.split(";")


def _pairs(items) -> str:
    items = list(items)
    return "-" if not items else ";".join(f"{i}:{py_to_tok(v)}" for i, v in items)


def _rid(name: str) -> int:
    return int(name[1:])


def make_fake():
    from openpectus.engine.hardware import HardwareLayerBase, HardwareLayerException, Register, RegisterDirection

    class ScriptHW(HardwareLayerBase):
        """Concrete hardware whose next calls succeed / fail as scripted by the current op."""

        def __init__(self) -> None:
            self.verif_connected = False      # the fake's own connection flag (see `is_connected`)
            super().__init__()
            self.regs: dict[tuple[int, str], Register] = {}
            self.mem: dict[str, Any] = {}
            self.begin()

        def reg(self, tok: str) -> Register:
            i, d = int(tok[:-1]), tok[-1]
            key = (i, d)
            if key not in self.regs:
                direction = {"r": RegisterDirection.Read, "w": RegisterDirection.Write, "b": RegisterDirection.Both}[d]
                self.regs[key] = Register(f"R{i}", direction)
            return self.regs[key]

        def begin(self, main: str = "", read_vals=None, write_ok=True, fail_at=None, flush=(), connect_ok=True):
            self.main = main            # which method is the op's main hardware call
            self.read_vals = read_vals  # None = fail
            self.write_ok = write_ok
            self.fail_at = fail_at
            self.flush = list(flush)
            self.connect_ok = connect_ok
            self.main_seen = False
            self.contact: bool | None = None
            self.reconn: bool | None = None
            self.writes: list[tuple[int, Any]] = []
            self.flush_fail = False      # a pending-flush write was attempted and failed

        def _put(self, v, r):
            self.mem[r.name] = v
            self.writes.append((_rid(r.name), v))

        def read(self, r):
            self.main_seen = True
            if self.read_vals is None:
                self.contact = False
                raise HardwareLayerException("scripted read failure")
            self.contact = True
            return self.read_vals[0]

        def read_batch(self, registers):
            self.main_seen = True
            if self.read_vals is None:
                self.contact = False
                raise HardwareLayerException("scripted read failure")
            self.contact = True
            return list(self.read_vals)

        def write(self, value, r):
            if self.main == "write" and not self.main_seen:
                self.main_seen = True
                if not self.write_ok:
                    self.contact = False
                    raise HardwareLayerException("scripted write failure")
                self.contact = True
                self._put(value, r)
                return
            ok = self.flush.pop(0) if self.flush else True   # a pending-flush write
            if not ok:
                self.flush_fail = True
                raise HardwareLayerException("scripted flush failure")
            self._put(value, r)

        def write_batch(self, values, registers):
            self.main_seen = True
            for i, (v, r) in enumerate(zip(values, registers)):
                if self.fail_at is not None and i >= self.fail_at:
                    break
                self._put(v, r)
            if self.fail_at is not None:
                self.contact = False
                raise HardwareLayerException("scripted batch write failure")
            self.contact = True

        def connect(self):
            if self.main == "tick":
                self.reconn = bool(self.connect_ok)
            if not self.connect_ok:
                raise HardwareLayerException("scripted connect failure")
            self.verif_connected = True

        def disconnect(self):
            self.verif_connected = False

        @property
        def is_connected(self) -> bool:
            # public surface only: nothing here depends on how HardwareLayerBase stores its connection flag
            return self.verif_connected

    return ScriptHW()


class Impl:
    """One decorator instance driven op by op."""

    def __init__(self, init_line: str) -> None:
        import openpectus.engine.hardware_recovery as hr
        from openpectus.engine.hardware import HardwareLayerException
        from openpectus.lang.exec.tags import SystemTagName, create_system_tags
        f = init_line.split("\t")
        assert f[0] == "init", init_line
        self.HwExc = HardwareLayerException
        self.hr = hr
        self.clock = Clock()
        self.full = f[7] == "full"
        self.hw = make_fake()
        self.hw.verif_connected = f[1] == "1"
        cfg = hr.ErrorRecoveryConfig()
        cfg.reconnect_timeout_seconds = int(f[2]) / 8.0
        cfg.error_timeout_seconds = int(f[3]) / 8.0
        self.tag = create_system_tags()[SystemTagName.CONNECTION_STATUS]
        self._with_clock(lambda: setattr(self, "d", hr.ErrorRecoveryDecorator(self.hw, cfg, self.tag)))
        self.d.reconnect_backoff_ticks = [int(x) for x in f[4].split(",")]
        self.last: dict[str, Any] = {}

    def _with_clock(self, fn):
        hr = self.hr
        real = hr.time
        hr.time = types.SimpleNamespace(time=self.clock.time)
        try:
            return fn()
        finally:
            hr.time = real

    def render(self, res: str) -> str:
        d, hw = self.d, self.hw
        t = lambda x: int(round((x - BASE) * 8))
        ob = lambda b: "-" if b is None else ("1" if b else "0")
        disc = self.tag.get_value()
        line = (f"{res}\tc={ob(hw.contact)}\trc={ob(hw.reconn)}\tst={d.state.name} "
                f"disc={'1' if str(disc) == 'Disconnected' else '0' if str(disc) == 'Connected' else '?'} "
                f"now={self.clock.e} ls={t(d.last_success_read_write)} re={t(d.last_state_reconnect_time)} "
                f"rt={d.reconnect_tick + 1}\tlkg={_pairs(sorted((_rid(k), v) for k, v in d.last_known_good_reads.items()))}")
        if self.full:
            line += (f"\tlsw={_pairs(sorted((_rid(k), v) for k, v in d.last_success_writes.items()))}"
                     f"\tpend={_pairs((_rid(r.name), v) for r, v in d.pending_writes.items())}"
                     f"\thw={_pairs(sorted((_rid(k), v) for k, v in hw.mem.items()))}"
                     f"\tw={_pairs(hw.writes)}\tff={'1' if hw.flush_fail else '0'}")
        return line

    def op(self, line: str) -> str:
        f = line.split("\t")
        d, hw = self.d, self.hw
        hw.begin()
        kind = f[0]
        call = None
        if kind == "adv":
            self.clock.e += int(f[1])
            call = lambda: None
        elif kind == "connect":
            hw.begin("connect", connect_ok=f[1] == "1")
            call = d.connect
        elif kind == "tick":
            hw.begin("tick", connect_ok=f[1] == "1")
            call = d.tick
        elif kind == "read":
            hw.begin("read", read_vals=None if f[2] == "F" else [tok_to_py(f[2])])
            r = hw.reg(f[1])
            call = lambda: [d.read(r)]
        elif kind == "readb":
            hw.begin("readb", read_vals=None if f[2] == "F" else [tok_to_py(x) for x in lst(f[2])])
            rs = [hw.reg(x) for x in lst(f[1])]
            call = lambda: d.read_batch(rs)
        elif kind == "write":
            hw.begin("write", write_ok=f[3] == "1", flush=[c == "1" for c in (f[4] if f[4] != "-" else "")])
            r, v = hw.reg(f[1]), tok_to_py(f[2])
            call = lambda: d.write(v, r)
        elif kind == "writeb":
            hw.begin("writeb", fail_at=None if f[3] == "ok" else int(f[3]),
                     flush=[c == "1" for c in (f[4] if f[4] != "-" else "")])
            rs, vs = [hw.reg(x) for x in lst(f[1])], [tok_to_py(x) for x in lst(f[2])]
            call = lambda: d.write_batch(vs, rs)
        else:
            return "bad-op"
        try:
            out = self._with_clock(call)
            if out is None:
                res = "unit"
            else:
                res = "vals:" + ("-" if not out else ";".join(py_to_tok(v) for v in out))
        except self.HwExc:
            res = "raise:Hw"
        except KeyError:
            res = "raise:Key"
        except Exception as e:  # anything else is outside the protocol
            res = f"raise:{type(e).__name__}"
        self.last = {"res": res, "contact": hw.contact, "reconn": hw.reconn, "writes": list(hw.writes),
                     "flush_fail": hw.flush_fail, "state": d.state.name, "status": str(self.tag.get_value()), "mem": dict(hw.mem)}
        return self.render(res)


def run_impl(lines: list[str], observe=None) -> list[str]:
    """Answer lines of the real code for one case (first line = init). `observe(i, line, impl)` is called
    after every op (used by the property oracles)."""
    impl = Impl(lines[0])
    out = [impl.render("unit")]
    if observe:
        observe(0, lines[0], impl)
    for i, ln in enumerate(lines[1:], 1):
        out.append(impl.op(ln))
        if observe:
            observe(i, ln, impl)
    return out
