"""Fault injection into the real `Engine.tick`, phase by phase (C13).

The phases are those of the regenerated table (harness/translators/tick_table.py → `tickPhases`): every
callee of the tick is wrapped; on the ticks / phases named by a fault plan the wrapper raises instead of
calling the original (`h` = HardwareLayerException, `o` = ValueError).  `set_error_state` itself can be made
to fail at its first call (Method Status `set_value`) or at its last (`emit_on_method_error`).

    run = FaultRun()                      # engine with one read and one write register, benign method
    run.user("Start"); run.tick({7: "o"}, "n")  -> answer line (same text as lean/Driver/TickShell.lean)
"""
from __future__ import annotations

from typing import Any, Callable

from harness.engine_run import Clock

METHOD = "Mark: a\nMark: b\nWait: 1000s\nMark: c"


class InjectedFault(ValueError):
    pass


def make_uod():
    from openpectus.engine.hardware import HardwareLayerBase, Register, RegisterDirection
    from openpectus.lang.exec.tags import Tag
    from openpectus.lang.exec.uod import UodBuilder

    class Hw(HardwareLayerBase):
        def __init__(self):
            super().__init__()
            self.written: list = []
            self._is_connected = True

        def connect(self):
            self._is_connected = True

        def disconnect(self):
            self._is_connected = False

        def read(self, r):
            return 3

        def write(self, value, r):
            self.written.append((r.name, value))

    b = (UodBuilder().with_instrument("FaultUod").with_author("v", "v@example.org").with_filename(__file__)
         .with_hardware(Hw()).with_location("loc")
         .with_hardware_register("RIn", RegisterDirection.Read, to_tag=lambda v: v + 1)
         .with_hardware_register("ROut", RegisterDirection.Write, from_tag=lambda v: v, safe_value=0)
         .with_tag(Tag(name="RIn", value=0)).with_tag(Tag(name="ROut", value=5)))
    return b.build()


class FaultRun:
    def __init__(self, pcode: str = METHOD, dt: float = 0.125):
        from openpectus.engine.engine import Engine, EngineTiming
        from openpectus.engine.command_manager import CommandManager
        from openpectus.engine.hardware import HardwareLayerException
        from openpectus.lang.exec.clock import WallClock
        from openpectus.lang.exec.pinterpreter import PInterpreter
        from openpectus.lang.exec.timer import NullTimer
        from openpectus.lang.exec.tracking import Tracking
        from openpectus.lang.exec.tags import SystemTagName
        import openpectus.protocol.models as Mdl
        from harness.translators import tick_table
        self.Mdl = Mdl
        self.HwEx = HardwareLayerException
        self.pcode = pcode
        self.clock = Clock()
        self.clock.install()
        self.dt = dt
        self.uod = make_uod()
        self.engine = Engine(self.uod, EngineTiming(WallClock(), NullTimer(), dt, 1.0))
        self.engine.run(skip_timer_start=True)
        self.engine.set_method(Mdl.Method.from_pcode(pcode))
        self.phases = tick_table.tables()["phases"]
        self.plan: dict[int, str] = {}
        self.hf = "n"
        self.in_tick = False
        self.in_cmd = False
        self._undo: list[Callable[[], None]] = []
        e = self.engine
        hwl = self.uod.hwl
        rin, rout = hwl.registers["RIn"], hwl.registers["ROut"]
        targets: dict[tuple[str, str], tuple[Any, str]] = {
            ("tick", "self._tick_timer.stop"): (e._tick_timer, "stop"),
            ("tick", "self.uod.hwl.tick"): (hwl, "tick"),
            ("read", "self.uod.hwl.read_batch"): (hwl, "read_batch"),
            ("read", "self.uod.tags.get"): (self.uod.tags, "get"),
            ("read", "r.options[]"): (rin.options, "to_tag"),
            ("read", "tag.set_value"): (self.uod.tags["RIn"], "set_value"),
            ("tick", "self.tracking.tick"): (Tracking, "tick"),
            ("tick", "self.interpreter.tick"): (PInterpreter, "tick"),
            ("tick", "self.update_calculated_tags"): (e, "update_calculated_tags"),
            ("tick", "self._command_manager.tick"): (CommandManager, "tick"),
            ("tick", "self.notify_tag_updates"): (e, "notify_tag_updates"),
            ("write", "self._tags[].get_value"): (e._tags["ROut"], "get_value"),
            ("write", "r.options[]"): (rout.options, "from_tag"),
            ("write", "hwl.write_batch"): (hwl, "write_batch"),
        }
        for i, ph in enumerate(self.phases):
            key = (ph["fn"], ph["callee"])
            if key not in targets:
                raise KeyError(f"phase {i} {key}: the harness does not know how to inject a fault there")
            self._wrap(i, *targets[key], is_cmd=ph["callee"] == "self._command_manager.tick")
        # faults inside set_error_state
        ms = e._system_tags[SystemTagName.METHOD_STATUS]
        self._wrap_handler(ms, "set_value", "f")
        self._wrap_handler(e._emitter, "emit_on_method_error", "l")

    # -- wrappers
    def _install(self, owner: Any, attr: str, fn: Callable):
        if isinstance(owner, dict):
            old = owner[attr]
            owner[attr] = fn
            self._undo.append(lambda: owner.__setitem__(attr, old))
        elif isinstance(owner, type):
            old = owner.__dict__[attr]
            setattr(owner, attr, fn)
            self._undo.append(lambda: setattr(owner, attr, old))
        else:
            setattr(owner, attr, fn)
            self._undo.append(lambda: delattr(owner, attr))

    def _wrap(self, index: int, owner: Any, attr: str, is_cmd: bool):
        orig = owner[attr] if isinstance(owner, dict) else getattr(owner, attr)
        run = self

        def wrapper(*a, **kw):
            # only the call made by the tick itself at this phase (the Stop command calls write_process_image, too)
            if run.in_tick and not run.in_cmd:
                k = run.plan.get(index)
                if k == "h":
                    raise run.HwEx("injected hardware fault")
                if k == "o":
                    raise InjectedFault("injected fault")
            if is_cmd:
                run.in_cmd = True
                try:
                    return orig(*a, **kw)
                finally:
                    run.in_cmd = False
            return orig(*a, **kw)
        self._install(owner, attr, wrapper)

    def _wrap_handler(self, owner: Any, attr: str, which: str):
        orig = getattr(owner, attr)
        run = self

        def wrapper(*a, **kw):
            if run.in_tick and not run.in_cmd and run.hf == which and run.in_set_error():
                raise InjectedFault("injected fault in set_error_state")
            return orig(*a, **kw)
        self._install(owner, attr, wrapper)

    @staticmethod
    def in_set_error() -> bool:
        import sys
        f = sys._getframe(2)
        while f is not None:
            if f.f_code.co_name == "set_error_state":
                return True
            f = f.f_back
        return False

    def close(self):
        try:
            for u in reversed(self._undo):
                u()
            self.engine.cleanup()
        finally:
            self.clock.uninstall()

    # -- ops
    def show(self) -> str:
        e = self.engine
        raw = {t.name: t.value for t in e._system_tags}
        cm = e._command_manager
        b = lambda x: "1" if x else "0"   # noqa: E731
        names = ",".join(r.name for r in cm.cmd_executing) or "-"
        q = ",".join(r.name for r in list(cm.cmd_queue.queue)) or "-"
        from harness import runstate as RS      # (the flags by role, whatever the attributes are called on this tree)
        return (f"st={b(RS.flag(e, 'started'))}{b(RS.flag(e, 'paused'))}{b(RS.flag(e, 'holding'))}{b(RS.flag(e, 'stopping'))} "
                f"sys={raw['System State']} ms={raw['Method Status']} le={b(e.has_error_state())} q={q} ex={names}")

    def tick(self, plan: dict[int, str], hf: str = "n") -> str:
        self.clock.now += self.dt
        self.plan, self.hf = dict(plan), hf
        raised = "0"
        self.in_tick = True
        try:
            self.engine.tick(self.clock.now, self.dt)
        except BaseException as ex:
            raised = "1"
            self.last_exception = ex
        finally:
            self.in_tick = False
            self.in_cmd = False
            self.plan, self.hf = {}, "n"
        return f"r={raised} " + self.show()

    def user(self, name: str) -> str:
        try:
            self.engine.execute_control_command_from_user(name)
            return "ok " + self.show()
        except ValueError:
            return "rej " + self.show()

    def fix(self) -> str:
        """A corrected method: same line ids, every line that has neither started nor completed may differ."""
        r = self.engine.set_method(self.Mdl.Method.from_pcode(self.pcode))
        return ("merge " if r == "merge_method" else "set ") + self.show()

    def halt(self) -> str:
        self.engine._running = False
        return "halt " + self.show()
