"""Property oracle for C27 over what the fake aggregator / transport observed of the REAL EngineRunner.
Independent of the Lean model: it reads `Result.produced/attempts/received/buffered_ids/stranded/seqs`
(and token positions only to order "was buffered" against "stop was posted").

Clauses (exactly the property text):
  loss      a message the engine produced while disconnected (runner in Failed/Disconnected/Reconnecting when
            it was created, or one of its send attempts failed with the network error, or it was buffered) is
            received by the aggregator once the runner is back in steady state with nothing buffered / in flight
  stranded  state == Reconnected  =>  buffer empty   (what follows from a stranded message — it is never
            delivered, the stop overtakes it, the runner never reaches an empty buffer — is not reported again)
  dup       a second receipt of a message only after a failed attempt of that message
  seq       one sequence number per message, kept across resends, unique — judged on the serialized message of
            every send attempt (wire level) and on the message object whenever it is buffered
  order     run data of run r that was buffered before the stop notification of r was posted is received
            before that stop notification
"""
from __future__ import annotations

from typing import Any


def _first_pos(tokens: list[str]) -> tuple[dict[int, int], dict[int, int], dict[int, str]]:
    """first buffering position, first posting position (send or buffer), how the first posting happened."""
    buf_at: dict[int, int] = {}
    post_at: dict[int, int] = {}
    post_how: dict[int, str] = {}
    state = "St"
    for pos, t in enumerate(tokens):
        k = t[0]
        if k == "T":
            state = t[1:]
        elif k in "SBQ":
            i = int(t[1:].split(":")[0])
            if k in "BQ":
                buf_at.setdefault(i, pos)
            if i not in post_at:
                post_at[i] = pos
                post_how[i] = k + "@" + state
        elif k == "A":
            for it in t[3:].split(","):
                i = int(it.split(".")[0])
                if t[1] == "b":
                    buf_at.setdefault(i, pos)
    return buf_at, post_at, post_how


def check(res) -> list[tuple[str, str]]:
    """Returns [(key, detail)] — empty when the run satisfies C27."""
    out: list[tuple[str, str]] = []
    prod = res.produced
    recv_ids = [r["id"] for r in res.received]
    first_recv: dict[int, int] = {}
    for idx, i in enumerate(recv_ids):
        first_recv.setdefault(i, idx)

    # --- seq
    seen_seq: dict[int, int] = {}
    for i, l in sorted(res.seqs.items()):
        if len(l) != 1:
            out.append(("sequence-number-reassigned", f"message {i} carried sequence numbers {l}"))
        for s in l:
            if s in seen_seq and seen_seq[s] != i and sum(1 for k, _ in out if k == "sequence-number-shared") < 3:
                out.append(("sequence-number-shared", f"messages {seen_seq[s]} and {i} both carry {s}"))
            seen_seq[s] = i
    for r in res.received:
        if res.seqs.get(r["id"], [r["seq"]])[0] != r["seq"]:
            out.append(("sequence-number-reassigned", f"message {r['id']} received with {r['seq']}"))

    # --- seq on the wire: all attempts of one message carry one number, no number is used by two messages
    wire: dict[int, list[int]] = {}
    owner: dict[int, int] = {}
    for a in res.attempts:
        l = wire.setdefault(a["id"], [])
        if a["seq"] not in l:
            l.append(a["seq"])
        if owner.setdefault(a["seq"], a["id"]) != a["id"] and sum(1 for k, _ in out if k == "sequence-number-shared") < 3:
            out.append(("sequence-number-shared", f"attempts of messages {owner[a['seq']]} and {a['id']} both "
                                                  f"carried {a['seq']}"))
    for i, l in sorted(wire.items()):
        if len(l) != 1 or l[0] < 0:
            out.append(("sequence-number-changed-across-attempts",
                        f"message {i} went over the wire with sequence numbers {l}"))
            break

    # --- dup: every receipt beyond the first needs an earlier failed attempt of the same message
    by_id: dict[int, list[dict]] = {}
    for a in res.attempts:
        by_id.setdefault(a["id"], []).append(a)
    for i, atts in by_id.items():
        got = 0
        failed_before = False
        for a in atts:
            oc = a["outcome"] or ""
            delivered = oc.startswith("ok") or oc.startswith("faild") or oc.startswith("cancel:ok") \
                or oc.startswith("cancel:faild")
            if delivered:
                got += 1
                if got > 1 and not failed_before:
                    out.append(("duplicate-without-failed-attempt", f"message {i} was sent again although no "
                                                                    f"attempt had failed: {atts}"))
            if oc.startswith("fail") or oc.startswith("cancel"):
                failed_before = True

    # --- stranded
    stranded_ids: set[int] = set()
    for s in res.stranded:
        stranded_ids.update(s["ids"])
    if res.stranded:
        s = res.stranded[0]
        # mechanism: were these messages appended, while the state was Reconnected, by a buffer_messages task that
        # had been dropped from `_state_task` alive (the recorded finding) — or were they left in the buffer some
        # other way (e.g. the switch to Reconnected happened with a non-empty buffer)?
        by_orphan = s.get("live_orphans", 0) > 0 and set(s["ids"]) <= set(res.q_in_rd)
        how = "appended-by-orphaned-buffer-task" if by_orphan else "other"
        out.append((f"buffer-not-empty-while-reconnected:{how}",
                    f"t={s['t']}: state Reconnected, buffer {s['ids']} (live orphaned buffer tasks: "
                    f"{s.get('live_orphans', 0)}, appended by a buffer task while Reconnected: "
                    f"{sorted(set(s['ids']) & set(res.q_in_rd))})"))

    # --- loss
    if res.quiescent:
        failed_ids = {a["id"] for a in res.attempts if (a["outcome"] or "").split(":")[0] in ("fail", "faild")}
        for i, p in sorted(prod.items()):
            disconnected = p["state"] in ("Failed", "Disconnected", "Reconnecting") or i in failed_ids \
                or i in res.buffered_ids
            if disconnected and i not in first_recv and i not in stranded_ids:
                if i in failed_ids and i not in res.buffered_ids:
                    if i in res.stuck_ids:
                        how = "handler-waits-for-self-cancelled-state-task"
                    elif i in res.cancelled_after_fail:
                        how = "cancelled-with-state-task-before-handling"
                    else:
                        how = "other"
                    why = f"its send failed and it was never buffered ({how})"
                    key = "failed-send-never-buffered:" + how
                else:
                    why = ("it was buffered" if i in res.buffered_ids else
                           f"it was created while the runner was {p['state']}")
                    key = "buffered-message-never-delivered"
                out.append((key, f"message {i} ({p['kind']}{p['run']}) never reached the aggregator although the "
                                 f"runner is back in {res.final_state} with an empty buffer; {why}"))
                break
    elif not res.errors and not (stranded_ids and res.final_state == "Reconnected"
                                 and set(res.final_buffer) <= stranded_ids):
        out.append(("runner-never-catches-up", f"no steady state with empty buffer before t={res.t_end}; "
                                               f"state {res.final_state}, buffer {res.final_buffer}"))

    # --- order
    buf_at, post_at, post_how = _first_pos(res.tokens)
    stops = {p["run"]: i for i, p in prod.items() if p["kind"] == "s"}
    for run, s in sorted(stops.items()):
        if s not in first_recv or s not in post_at:
            continue
        for d, p in sorted(prod.items()):
            if p["kind"] == "d" and p["run"] == run and d in buf_at and buf_at[d] < post_at[s] \
                    and d not in stranded_ids:
                if d not in first_recv or first_recv[d] > first_recv[s]:
                    # how did the stop get ahead?
                    if post_how[s] == "S@Cu":
                        how = "sent-directly-while-catching-up"
                    elif s in buf_at:
                        how = "reordered-in-buffer"
                    else:
                        how = "sent-directly"
                    out.append((f"stop-overtakes-buffered-run-data:{how}",
                                f"run {run}: data message {d} was buffered (token {buf_at[d]}) before stop message "
                                f"{s} was posted (token {post_at[s]}, {post_how[s]}), but the aggregator received "
                                f"the stop first (receipt {first_recv[s]} vs {first_recv.get(d)})"))
                    break
    return out
