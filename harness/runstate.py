"""Real-code side of model M1 (RunState): drives `openpectus.engine.Engine` deterministically and prints the
same canonical observation line per op as lean/Driver/RunState.lean.

A *case* is a JSON-able dict  {"method": <pcode>, "ops": [op, ...]}  with ops
    ["user", name]              execute_control_command_from_user(name)
    ["tick", adv8, inc8, rf]    Engine.tick(t + adv8/8, inc8/8); rf=1: read_batch raises HardwareLayerException
    ["set", i, v]               output tag i := v  (the effect of a command on an output, between ticks)
    ["errapi"]                  set_error_state (what inject_code / set_method do on failure)
Times are multiples of 1/8 s on an integer epoch, so float arithmetic is exact.

What the interpreter does in its phase of a tick (block/scope events, schedule_execution calls, raising) is
environment for M1: it is recorded from the real interpreter while the tick runs and passed to the model on the
tick line; the model decides independently whether the interpreter phase runs (the gate) and answers
`bad-op gate` if it got interpreter items while it says the interpreter is gated.

No source hooks: instance attributes of one Engine object are wrapped (schedule_execution, set_run_id,
update_calculated_tags, emitter.emit_on_*, interpreter.tick via the method manager's reset handler) and a
recording hardware layer is supplied.
"""
from __future__ import annotations

import re
from typing import Any

EPOCH = 1_000_000.0
REGS = ["A", "B", "C"]
SAFES = [0, 1, None]
INIT = [5, 7, 9]
CMDS = ["Start", "Stop", "Pause", "Unpause", "Hold", "Unhold", "Restart"]
# UOD commands of the harness UOD (used by C08): command j writes its value to output register j // 2 on every
# iteration and completes after n iterations. Argument "v,n"; without argument (user requests never carry one)
# W<k> writes 60+k once, L<k> writes 70+k for three iterations.
UCMDS = [f"{p}{k}" for k in range(3) for p in ("W", "L")]
UDEFAULT = {f"W{k}": (60 + k, 1) for k in range(3)} | {f"L{k}": (70 + k, 3) for k in range(3)}


def parse_uarg(name: str, arg: str | None):
    """(value, iterations) of a harness UOD command request, or None if the argument is rejected."""
    if arg is None or arg.strip() == "":
        return UDEFAULT[name]
    m = re.fullmatch(r"\s*(-?\d+)\s*,\s*(\d+)\s*", arg)
    if m is None:
        return None
    return int(m.group(1)), int(m.group(2))
_UNIT = {"s": 1, "min": 60, "h": 3600}


def _lazy():
    import logging
    logging.disable(logging.CRITICAL)
    from openpectus.engine.engine import Engine, EngineTiming
    from openpectus.engine.hardware import HardwareLayerBase, HardwareLayerException, RegisterDirection
    from openpectus.engine.engine_message_builder import EngineMessageBuilder
    from openpectus.lang.exec.clock import WallClock
    from openpectus.lang.exec.timer import NullTimer
    from openpectus.lang.exec.tags import Tag, TagDirection
    from openpectus.lang.exec.uod import UodBuilder
    import openpectus.protocol.models as Mdl
    return locals()


_L: dict[str, Any] | None = None


def L() -> dict[str, Any]:
    global _L
    if _L is None:
        _L = _lazy()
    return _L


def make_hw():
    base = L()["HardwareLayerBase"]
    exc = L()["HardwareLayerException"]

    class RecHW(base):
        def __init__(self):
            super().__init__()
            self.batches: list[list[Any]] = []
            self.flags: list[tuple[bool, bool]] = []     # (started, paused) of the engine at each write_batch
            self.engine = None
            self.last: list[Any] = [0] * len(REGS)
            self.fail_read = False

        def read(self, r):
            return 0

        def read_batch(self, registers):
            if self.fail_read:
                raise exc("read failed (harness)")
            return [0 for _ in registers]

        def write(self, value, r):
            pass

        def write_batch(self, values, registers):
            by = {r.name: v for v, r in zip(values, registers)}
            row = [by[n] for n in REGS]
            self.batches.append(row)
            e = self.engine
            self.flags.append((flag(e, "started"), flag(e, "paused")) if e is not None else (False, False))
            self.last = row

        def connect(self):
            self._is_connected = True

        def disconnect(self):
            self._is_connected = False

    return RecHW()


def classify_arg(cmd: str, arg: str | None) -> str:
    """'' (no argument), ':<eighths>' (duration accepted by the command's ArgSpec) or ':x' (rejected)."""
    if arg is None or arg == "":
        return ""
    if cmd not in ("Pause", "Hold"):
        return ":x"
    from openpectus.lang.exec.argument_specification import ArgSpec
    from openpectus.lang.exec.regex import REGEX_DURATION_OPTIONAL
    g = ArgSpec.Regex(REGEX_DURATION_OPTIONAL).validate_w_groups(argument=arg)
    if g is None:
        return ":x"
    if g.get("number") is None:
        return ""
    unit = g.get("number_unit")
    if unit not in _UNIT:
        return ":x"
    e = float(g["number"]) * _UNIT[unit] * 8
    if e != int(e):
        raise ValueError(f"harness: duration {arg!r} is not a multiple of 1/8 s")
    return f":{int(e)}"


def t8(x: Any) -> str:
    if isinstance(x, (int, float)):
        e = x * 8
        if e == int(e):
            return str(int(e))
    return "?" + repr(x)


# ---------------------------------------------------------------------------------------
# private engine state, found BY ROLE: the harness observes five private attributes of Engine (the four run
# flags and the pre-pause snapshot). Their current names are the first guess; if one of them is missing the
# attributes are identified once per process by what they do on a scratch engine.

_DEFAULT_ROLES = {"started": "_runstate_started", "paused": "_runstate_paused", "holding": "_runstate_holding",
                  "stopping": "_runstate_stopping", "snapshot": "_prev_state"}
_ROLES: dict[str, str] | None = None
_DISCOVERING = False


class HarnessRoleError(RuntimeError):
    """The harness cannot tell which private Engine attribute plays a role it has to observe."""


# value of each role at the checkpoints: idle, after Start, Hold, Unhold, Pause, Unpause, Stop (first tick),
# Stop (second tick); for `snapshot`: "is not None"
_ROLE_VECTORS = {
    "started":  (False, True, True, True, True, True, True, False),
    "holding":  (False, False, True, False, False, False, False, False),
    "paused":   (False, False, False, False, True, False, False, False),
    "stopping": (False, False, False, False, False, False, True, False),
    "snapshot": (False, False, False, False, True, False, False, False),
}


def _discover_roles() -> dict[str, str]:
    sim = Sim("Mark: a")
    try:
        e = sim.e
        shots: list[dict[str, Any]] = [dict(vars(e))]

        def step(name):
            e.execute_control_command_from_user(name)
            sim.t += 1
            e.tick(sim.t, 1.0)
            shots.append(dict(vars(e)))
        for name in ("Start", "Hold", "Unhold", "Pause", "Unpause", "Stop"):
            step(name)
        sim.t += 1
        e.tick(sim.t, 1.0)
        shots.append(dict(vars(e)))
    finally:
        sim.close()
    names = [k for k in shots[0] if all(k in s for s in shots)]
    found: dict[str, str] = {}
    for role, vec in _ROLE_VECTORS.items():
        if role == "snapshot":
            cands = [k for k in names if not any(isinstance(s[k], bool) for s in shots)
                     and tuple(s[k] is not None for s in shots) == vec]
        else:
            cands = [k for k in names if all(isinstance(s[k], bool) for s in shots)
                     and tuple(s[k] for s in shots) == vec]
        if len(cands) != 1:
            raise HarnessRoleError(
                f"harness/runstate.py: Engine has no attribute {_DEFAULT_ROLES[role]!r} and the attribute playing "
                f"the role {role!r} cannot be identified by behaviour (Start, Hold, Unhold, Pause, Unpause, Stop on "
                f"a scratch engine): {'no candidate' if not cands else 'tie between ' + ', '.join(sorted(cands))}")
        found[role] = cands[0]
    return found


def roles(e=None) -> dict[str, str]:
    """role -> name of the private Engine attribute. `{}` while the discovery itself is running."""
    global _ROLES, _DISCOVERING
    if _ROLES is not None:
        return _ROLES
    if _DISCOVERING:
        return {}
    if e is not None and all(k in vars(e) for k in _DEFAULT_ROLES.values()):
        _ROLES = dict(_DEFAULT_ROLES)
        return _ROLES
    _DISCOVERING = True
    try:
        if e is None:
            probe_sim = Sim("Mark: a")
            try:
                fast = all(k in vars(probe_sim.e) for k in _DEFAULT_ROLES.values())
            finally:
                probe_sim.close()
            _ROLES = dict(_DEFAULT_ROLES) if fast else _discover_roles()
        else:
            _ROLES = _discover_roles()
    finally:
        _DISCOVERING = False
    return _ROLES


def flag(e, role: str) -> bool:
    r = roles(e)
    return bool(getattr(e, r[role])) if role in r else False


def snapshot(e):
    """the pre-pause snapshot of the engine (a TagValueCollection or None)"""
    return getattr(e, roles(e)["snapshot"])


def command_manager(e):
    """the engine's current CommandManager (private attribute, found by type if it is not `_command_manager`)"""
    cm = vars(e).get("_command_manager")
    if cm is None:
        from openpectus.engine.command_manager import CommandManager
        cms = [v for v in vars(e).values() if isinstance(v, CommandManager)]
        if len(cms) != 1:
            raise HarnessRoleError("harness/runstate.py: cannot identify the engine's CommandManager attribute")
        cm = cms[0]
    return cm


class Sim:
    """One engine, one method, instrumented."""

    def __init__(self, method: str):
        m = L()
        self.hw = make_hw()
        b = (m["UodBuilder"]().with_instrument("M1").with_author("a", "a@b.c").with_filename(__file__)
             .with_hardware(self.hw).with_location("x"))
        for name, safe, init in zip(REGS, SAFES, INIT):
            if safe is None:
                b = b.with_hardware_register(name, m["RegisterDirection"].Write)
            else:
                b = b.with_hardware_register(name, m["RegisterDirection"].Write, safe_value=safe)
            b = b.with_tag(m["Tag"](name, value=init, unit=None, direction=m["TagDirection"].Output))
        for cname in UCMDS:
            b = b.with_command(name=cname, exec_fn=self._make_exec(cname), arg_parse_fn=self._make_parse(cname))
        uod = b.build()
        uod.hwl.connect()
        e = m["Engine"](uod, m["EngineTiming"](m["WallClock"](), m["NullTimer"](), 0.1, 1.0))
        self.e = e
        self.hw.engine = e
        self.t = EPOCH
        self.items: list[str] = []          # interpreter items of the running tick
        self.interp_called = False
        self.interp_raised = False
        self.last_interp = False
        self.run_ids: dict[str, int] = {}   # uuid -> allocation ordinal
        self.scope_ids: dict[str, int] = {}
        self.state_at_clock: str | None = None
        self.started_at_clock: bool | None = None
        self.builder = m["EngineMessageBuilder"](e, "", False)
        self._instrument()
        e.run(skip_timer_start=True)
        e.set_method(m["Mdl"].Method.from_pcode(method))

    @staticmethod
    def _make_parse(cname: str):
        def parse(args):
            r = parse_uarg(cname, args)
            return None if r is None else {"v": r[0], "n": r[1]}
        return parse

    @staticmethod
    def _make_exec(cname: str):
        reg = REGS[int(cname[1])]

        def exec_fn(cmd, v, n):
            cmd.context.tags[reg].set_value(v, 0.0)
            if cmd.get_iteration_count() + 1 >= n:
                cmd.set_complete()
        return exec_fn

    # -- instrumentation ---------------------------------------------------------------
    def _instrument(self):
        e = self.e
        sim = self
        orig_sched = e.schedule_execution

        def sched(name, arguments="", instance_id=None):
            if name in CMDS:
                sim.items.append("m." + name.lower() + classify_arg(name, arguments))
            elif name in UCMDS:
                r = parse_uarg(name, arguments)
                sim.items.append(f"u.{UCMDS.index(name)}:" + ("x" if r is None else f"{r[0]}:{r[1]}"))
            else:
                sim.items.append("?" + name)
            return orig_sched(name, arguments, instance_id)
        e.schedule_execution = sched

        orig_rid = e.set_run_id

        def set_run_id():
            r = orig_rid()
            sim.run_ids.setdefault(r, len(sim.run_ids))
            return r
        e.set_run_id = set_run_id

        orig_calc = e.update_calculated_tags

        def calc(tick_time, increment_time):
            sim.state_at_clock = str(e.tags["System State"].get_value())
            sim.started_at_clock = flag(e, "started")
            return orig_calc(tick_time, increment_time)
        e.update_calculated_tags = calc

        em = e.emitter
        o_bs, o_be, o_sa, o_se = (em.emit_on_block_start, em.emit_on_block_end, em.emit_on_scope_activate,
                                  em.emit_on_scope_end)

        def bs(*a, **k):
            sim.items.append("bs")
            return o_bs(*a, **k)

        def be(*a, **k):
            sim.items.append("be")
            return o_be(*a, **k)

        def sa(node_id, *a, **k):
            sim.items.append(f"sa{sim.scope_ids.setdefault(node_id, len(sim.scope_ids))}")
            return o_sa(node_id, *a, **k)

        def se(node_id, *a, **k):
            sim.items.append(f"se{sim.scope_ids.setdefault(node_id, len(sim.scope_ids))}")
            return o_se(node_id, *a, **k)
        em.emit_on_block_start, em.emit_on_block_end = bs, be
        em.emit_on_scope_activate, em.emit_on_scope_end = sa, se

        mm = e.method_manager
        # the callback the method manager calls with every new interpreter: found by value (it is the engine's
        # `on_interpreter_reset`); if it cannot be found the interpreter is (re)wrapped at the start of every op
        hkeys = [k for k, v in vars(mm).items() if callable(v) and v == e.on_interpreter_reset]
        self._wrapped: set[int] = set()

        def wrap_interp(interp):
            if id(interp) in sim._wrapped:
                return
            sim._wrapped = {id(interp)}
            sim._interp_keep = interp          # keeps the id from being reused
            orig_tick = interp.tick

            def tick(tick_time, tick_number):
                sim.interp_called = True
                try:
                    return orig_tick(tick_time, tick_number)
                except BaseException:
                    sim.interp_raised = True
                    raise
            interp.tick = tick

        self._wrap_interp = wrap_interp
        for hk in hkeys[:1]:
            orig_handler = getattr(mm, hk)

            def handler(interp):
                wrap_interp(interp)
                return orig_handler(interp)
            setattr(mm, hk, handler)
        self._ensure_wrapped()

    def _ensure_wrapped(self):
        try:
            interp = self.e.interpreter
        except Exception:  # noqa: BLE001  (no interpreter yet)
            return
        self._wrap_interp(interp)

    # -- observation ---------------------------------------------------------------------
    def obs(self, mode: str, nw0: int) -> str:
        e = self.e
        tg = e.tags
        b = lambda x: "1" if x else "0"  # noqa: E731
        rid = tg["Run Id"].get_value()
        ctl = self.builder.create_control_state_msg().control_state
        base = (f"st={tg['System State'].get_value()} f={b(flag(e, "started"))}{b(flag(e, "paused"))}"
                f"{b(flag(e, "holding"))}{b(flag(e, "stopping"))} "
                f"ctl={b(ctl.is_running)}{b(ctl.is_holding)}{b(ctl.is_paused)} "
                f"rid={'-' if rid is None else self.run_ids.get(rid, '?' + str(rid))} "
                f"ms={b(tg['Method Status'].get_value() == 'Error')} interp={b(self.last_interp)}")
        if mode == "c08":
            prev = snapshot(e)
            ps = "none" if prev is None else ",".join(str(prev.get(n).value) if prev.has(n) else "_" for n in REGS)
            wl = "|".join(",".join(str(v) for v in row) for row in self.hw.batches[nw0:]) or "-"
            ui = sorted((n for n in e.uod.command_instances.keys() if n in UCMDS), key=UCMDS.index)
            ux = [r.name + (".u" if r.source == "user" else ".m") for r in command_manager(e).cmd_executing
                  if r.name in UCMDS]
            return (f"st={tg['System State'].get_value()} f={b(flag(e, "started"))}{b(flag(e, "paused"))}"
                    f"{b(flag(e, "holding"))}{b(flag(e, "stopping"))} "
                    f"rid={'-' if rid is None else self.run_ids.get(rid, '?' + str(rid))} "
                    f"ms={b(tg['Method Status'].get_value() == 'Error')} interp={b(self.last_interp)} "
                    f"out={','.join(str(e.uod.tags[n].get_value()) for n in REGS)} prev={ps} wl={wl} "
                    f"uinst={','.join(ui) or '-'} uex={','.join(ux) or '-'}")
        if mode in ("c06", "all"):
            inst = sorted(e.registry.get_running_command_names())
            ex = [r.name + (".u" if r.source == "user" else ".m") + classify_arg(r.name, r.arguments)
                  for r in command_manager(e).cmd_executing]
            ctrl = f" inst={','.join(inst) or '-'} ex={','.join(ex) or '-'}"
        else:
            ctrl = ""
        if mode in ("c07", "all"):
            clocks = (f" pt={t8(tg['Process Time'].get_value())} rt={t8(tg['Run Time'].get_value())} "
                      f"bt={t8(tg['Block Time'].get_value())} sc={t8(tg['Scope Time'].get_value())}")
        else:
            clocks = ""
        if mode in ("c09", "all"):
            prev = snapshot(e)
            if prev is None:
                ps = "none"
            else:
                ps = ",".join(str(prev.get(n).value) if prev.has(n) else "_" for n in REGS)
            outs = (f" out={','.join(str(e.uod.tags[n].get_value()) for n in REGS)} prev={ps} "
                    f"hw={','.join(str(v) for v in self.hw.last)} w={len(self.hw.batches) - nw0}")
        else:
            outs = ""
        return base + ctrl + clocks + outs

    def raw(self) -> dict[str, Any]:
        """Observations for the property oracles (not compared with the model)."""
        e = self.e
        tg = e.tags
        ctl = self.builder.create_control_state_msg().control_state
        return {
            "state": str(tg["System State"].get_value()),
            "started": flag(e, "started"), "paused": flag(e, "paused"), "holding": flag(e, "holding"),
            "stopping": flag(e, "stopping"),
            "ctl": (ctl.is_running, ctl.is_holding, ctl.is_paused),
            "run_id": tg["Run Id"].get_value(),
            "method_error": tg["Method Status"].get_value() == "Error",
            "pt": tg["Process Time"].get_value(), "rt": tg["Run Time"].get_value(),
            "bt": tg["Block Time"].get_value(), "sc": tg["Scope Time"].get_value(),
            "outs": [e.uod.tags[n].get_value() for n in REGS],
            "n_batches": len(self.hw.batches),
            "has_error": e.has_error_state(),
            "uex": [(r.name, r.source == "user") for r in command_manager(e).cmd_executing if r.name in UCMDS],
            "simulated": [bool(e.uod.tags[n].simulated) for n in REGS],
        }

    # -- ops ---------------------------------------------------------------------------
    def do(self, op: list, mode: str) -> tuple[str, str, dict[str, Any]]:
        """Run one op. Returns (op line for the model, canonical answer line, raw record for oracles)."""
        e = self.e
        self._ensure_wrapped()
        nw0 = len(self.hw.batches)
        rec: dict[str, Any] = {"op": op}
        kind = op[0]
        if kind == "user":
            try:
                e.execute_control_command_from_user(op[1])
                res = "ok"
            except ValueError:
                res = "err:ValueError"
            except Exception as ex:  # noqa: BLE001
                res = "err:" + type(ex).__name__
            line = f"user\t{op[1]}"
        elif kind == "tick":
            adv8, inc8, rf = int(op[1]), int(op[2]), bool(op[3]) if len(op) > 3 else False
            self.items = []
            self.interp_called = self.interp_raised = False
            self.state_at_clock = None
            self.started_at_clock = None
            self.hw.fail_read = rf
            self.t += adv8 / 8
            try:
                e.tick(self.t, inc8 / 8)
                res = "-"
            except Exception as ex:  # noqa: BLE001  (C13 territory; visible as a diff here)
                res = "raised:" + type(ex).__name__
            self.hw.fail_read = False
            self.last_interp = self.interp_called
            rec.update(items=list(self.items), interp=self.interp_called, interp_raised=self.interp_raised,
                       state_at_clock=self.state_at_clock, started_at_clock=self.started_at_clock)
            line = (f"tick\t{adv8}\t{inc8}\t{1 if rf else 0}\t{1 if self.interp_raised else 0}\t"
                    f"{','.join(self.items) or '-'}")
        elif kind == "set":
            e.uod.tags[REGS[int(op[1])]].set_value(int(op[2]), self.t)
            res = "-"
            line = f"set\t{int(op[1])}\t{int(op[2])}"
        elif kind == "errapi":
            e.set_error_state(Exception("harness"))
            res = "-"
            line = "errapi"
        else:
            raise ValueError(f"unknown op {op!r}")
        rec["res"] = res
        rec["writes"] = [(list(v), f[0], f[1]) for v, f in zip(self.hw.batches[nw0:], self.hw.flags[nw0:])]
        rec.update(self.raw())
        return line, res + " " + self.obs(mode, nw0), rec

    def close(self):
        try:
            self.e.cleanup()
        except Exception:  # noqa: BLE001
            pass


FLAGS = ("guard", "clocks", "prev", "start", "gate", "err", "once", "idle", "cancel2", "scope")


def cfg_line(cfg: dict, mode: str) -> str:
    """First line of a case. `cfg`: which repairs the model variant contains (keys FLAGS; missing = False).
    mode c08 addresses Driver/RunStateOut, the other modes Driver/RunState."""
    b = lambda x: "1" if x else "0"  # noqa: E731
    safes = ",".join("_" if s is None else str(s) for s in SAFES)
    fl = "".join(b(cfg.get(k)) for k in FLAGS)
    init = ",".join(str(v) for v in INIT)
    if mode == "c08":
        return f"cfg\t{fl}\t{safes}\t{init}"
    return f"cfg\t{fl}\t{mode}\t{safes}\t{init}"


def execute(case: dict, mode: str, cfg: dict) -> tuple[list[str], list[str], list[dict]]:
    """Run a case on the real engine: (model op lines, canonical answer lines, raw records)."""
    sim = Sim(case.get("method", ""))
    try:
        lines = [cfg_line(cfg, mode)]
        outs = ["init " + sim.obs(mode, 0)]
        recs: list[dict] = [dict(op=["init"], res="init",
                                 writes=[(list(v), f[0], f[1]) for v, f in zip(sim.hw.batches, sim.hw.flags)],
                                 **sim.raw())]
        for op in case["ops"]:
            ln, out, rec = sim.do(op, mode)
            lines.append(ln)
            outs.append(out)
            recs.append(rec)
        return lines, outs, recs
    finally:
        sim.close()


class Runner:
    """Caches executions so that `lines(case)` and `impl(case)` of ctx.correspond share one engine run."""

    def __init__(self, mode: str, cfg: dict):
        self.mode, self.cfg = mode, cfg
        self.cache: dict[int, tuple[list[str], list[str], list[dict]]] = {}

    def get(self, case: dict):
        k = id(case)
        if k not in self.cache:
            self.cache[k] = execute(case, self.mode, self.cfg)
        return self.cache[k]

    def lines(self, case: dict) -> list[str]:
        return self.get(case)[0]

    def impl(self, case: dict) -> list[str]:
        return self.get(case)[1]

    def recs(self, case: dict) -> list[dict]:
        return self.get(case)[2]


# ---------------------------------------------------------------------------------------
# probing which of the three repairs the tree under test contains (used to pick the variant of the
# *other* properties' switches; a check's own switch is always the repaired one)

def probe() -> dict[str, bool]:
    # guard: Stop, then Pause + Stop inside the two-tick stop window
    _, _, r = execute({"method": "Mark: a", "ops": [["user", "Start"], ["tick", 8, 8, 0], ["tick", 8, 8, 0],
                                                     ["user", "Stop"], ["tick", 8, 8, 0], ["user", "Pause"],
                                                     ["user", "Stop"], ["tick", 8, 8, 0]]}, "c06", {})
    guard = r[-1]["state"] == "Stopped"
    # clocks: Block Time during Hold
    _, _, r = execute({"method": "Mark: a", "ops": [["user", "Start"], ["tick", 8, 8, 0], ["tick", 8, 8, 0],
                                                     ["tick", 8, 8, 0], ["user", "Hold"], ["tick", 8, 8, 0],
                                                     ["tick", 8, 8, 0], ["tick", 8, 8, 0]]}, "c07", {})
    clocks = r[-1]["bt"] == r[-2]["bt"]
    # prev: _prev_state after Pause, Stop
    sim = Sim("Mark: a")
    try:
        for op in [["user", "Start"], ["tick", 8, 8, 0], ["user", "Pause"], ["tick", 8, 8, 0], ["user", "Stop"],
                   ["tick", 8, 8, 0], ["tick", 8, 8, 0]]:
            sim.do(op, "c09")
        prev = snapshot(sim.e) is None
    finally:
        sim.close()
    # start: does engine.run() write the safe process image; gate: does an interpreter-sourced UOD command keep
    # writing while paused; err: does an error pause apply the safe state
    _, _, r = execute({"method": "L0: 55,9", "ops": [["user", "Start"], ["tick", 8, 8, 0], ["tick", 8, 8, 0],
                                                      ["tick", 8, 8, 0], ["tick", 8, 8, 0], ["user", "Pause"],
                                                      ["tick", 8, 8, 0], ["tick", 8, 8, 0]]}, "c08", {})
    start = len(r[0]["writes"]) > 0
    gate = r[-1]["writes"][-1][0][0] == SAFES[0]
    _, _, r = execute({"method": "Mark: a", "ops": [["user", "Start"], ["tick", 8, 8, 0], ["user", "W0"],
                                                     ["tick", 8, 8, 0], ["errapi"], ["tick", 8, 8, 0]]}, "c08", {})
    err = r[-1]["writes"][-1][0][0] == SAFES[0]
    # once: does a Pause body that runs while already paused keep the snapshot of the pause onset
    sim = Sim("Mark: a")
    try:
        for op in [["user", "Start"], ["tick", 8, 8, 0], ["set", 0, 33], ["user", "Pause"], ["user", "Pause"],
                   ["tick", 8, 8, 0]]:
            sim.do(op, "c09")
        ps = snapshot(sim.e)
        once = ps is not None and ps.has(REGS[0]) and ps.get(REGS[0]).value == 33
    finally:
        sim.close()
    # idle: does an error with no run active leave System State Stopped
    _, _, r = execute({"method": "Mark: a", "ops": [["errapi"]]}, "c06", {})
    idle = r[-1]["state"] == "Stopped"
    # cancel2: do Stop/Restart cancel once more in their second phase (/repo 90a68ba6) — a long user UOD command
    # requested inside the two-tick stop window leaves no instance behind
    sim = Sim("Mark: a")
    try:
        for op in [["user", "Start"], ["tick", 8, 8, 0], ["tick", 8, 8, 0], ["user", "Stop"], ["tick", 8, 8, 0],
                   ["user", "L0"], ["tick", 8, 8, 0]]:
            sim.do(op, "c08")
        cancel2 = len(sim.e.uod.command_instances) == 0
    finally:
        sim.close()
    # scope: does a run start clear the Scope Time timers / stack (/repo 29706dcf) - a scope left open by Stop
    _, _, r = execute({"method": "Watch: Run Counter >= 0\n    Wait: 20s",
                       "ops": [["user", "Start"]] + [["tick", 8, 8, 0]] * 4 + [["user", "Stop"], ["tick", 8, 8, 0],
                                                                             ["tick", 8, 8, 0], ["user", "Start"],
                                                                             ["tick", 8, 8, 0]]}, "c07", {})
    scope = r[-1]["sc"] == 0
    return {"guard": guard, "clocks": clocks, "prev": prev, "start": start, "gate": gate, "err": err,
            "once": once, "idle": idle, "cancel2": cancel2, "scope": scope}


# ---------------------------------------------------------------------------------------
# generators

METHODS_SMALL = [
    "Mark: a",
    "Pause",
    "Hold",
    "Pause: 0.5s\nMark: b",
    "Hold: 0.5s\nMark: b",
    "Stop",
    "Restart",
    "Mark: a\nPause: 1s\nHold: 1s\nStop",
]

_LINES_OK = ["Mark: a", "Mark: b", "Wait: 0.25s", "Wait: 0.5s", "Pause", "Hold", "Pause: 0.25s", "Pause: 0.5s",
             "Pause: 1s", "Pause: 1.5s", "Hold: 0.25s", "Hold: 0.5s", "Hold: 1s", "Hold: 0.125 s", "Stop",
             "Restart", "Unpause", "Unhold", "Pause: 0s", "Hold: 0 s"]
_LINES_MAL = ["Pause: abc", "Hold: 3 kg", "Stop: 1s", "Restart: x", "Unpause: 1s", "Pause: -1s", "Hold: 1",
              "Pause: 1 sec", "pause", "Foo", "Base: xyz"]


def gen_method(rng, malformed: bool = False, blocks: bool = True) -> str:
    n = rng.randrange(1, 7)
    lines: list[str] = []
    depth = 0
    for _ in range(n):
        r = rng.random()
        pool = _LINES_OK
        if malformed and r < 0.3:
            pool = _LINES_MAL
        if blocks and r > 0.88 and depth < 2:
            lines.append("    " * depth + f"Block: B{len(lines)}")
            depth += 1
            continue
        if blocks and depth and r > 0.8:
            lines.append("    " * depth + "End block")
            depth -= 1
            continue
        if blocks and r > 0.78 and depth < 2:
            lines.append("    " * depth + "Watch: Run Counter >= 0")
            lines.append("    " * (depth + 1) + rng.choice(pool))
            continue
        lines.append("    " * depth + rng.choice(pool))
    return "\n".join(lines)


def valid_now(raw: dict, name: str) -> bool:
    st = raw["state"]
    act = st not in ("Stopped", "Restarting")
    return {"Start": st == "Stopped", "Stop": act, "Restart": act,
            "Pause": act and not raw["paused"], "Unpause": act and raw["paused"],
            "Hold": act and not raw["holding"], "Unhold": act and raw["holding"]}[name]


def gen_overlap(rng) -> dict:
    """Pause and Hold overlapping, in either order, with the Hold (or the Pause) ending first: by the user, by the
    timer of a timed method Hold / Pause that expires while an operator pause / error pause / operator hold
    arrived during its duration; ticks with varied increments after every step, so that a System State that
    no longer follows the flags, or a clock that moves while the run is still paused / on hold, shows."""
    T = ["tick", 8, 8, 0]

    def ticks(lo, hi):
        return [list(rng.choice([T, T, ["tick", 4, 4, 0], ["tick", 2, 16, 0], ["tick", 8, 4, 0]]))
                for _ in range(rng.randrange(lo, hi + 1))]
    if rng.random() < 0.45:
        # a timed command of the method is in effect; the other kind of stop arrives during its duration and the
        # duration runs out first
        d = rng.choice([2, 3, 4])
        cmd = rng.choice(["Hold", "Hold", "Pause"])
        method = rng.choice([f"{cmd}: {d}s\nMark: b", f"Wait: 0.5s\n{cmd}: {d}s\nMark: b",
                             f"Block: B\n    {cmd}: {d}s\n    Wait: 30s\n    End block"])
        ops = [["user", "Start"]] + [list(T) for _ in range(rng.randrange(2, 4))]
        other = {"Hold": rng.choice(["Pause", "Pause", "errapi"]), "Pause": "Hold"}[cmd]
        ops += [["errapi"]] if other == "errapi" else [["user", other]]
        ops += [list(T) for _ in range(d + rng.randrange(1, 4))]      # the duration expires
        ops += ticks(0, 2)
        if rng.random() < 0.6:
            ops += [["user", {"Pause": "Unpause", "errapi": "Unpause", "Hold": "Unhold"}[other]]] + ticks(1, 3)
        if rng.random() < 0.25:
            ops += [["user", rng.choice(["Stop", "Restart"])]] + ticks(2, 4)
        return {"method": method, "ops": ops}
    method = rng.choice(["Mark: a", "Block: B\n    Mark: x\n    Wait: 30s\n    End block\nMark: y",
                         "Watch: Run Counter >= 0\n    Wait: 30s", "Wait: 1s\nHold: 2s\nMark: z",
                         "Wait: 1s\nHold: 3s\nWait: 30s", "Wait: 1s\nPause: 2s\nMark: z",
                         "Block: B\n    Wait: 1s\n    Hold: 2s\n    Wait: 30s\n    End block"])
    ops = [["user", "Start"]] + ticks(2, 4)
    first = rng.choice(["Pause", "Hold", "errapi"])
    second = {"Pause": "Hold", "Hold": "Pause", "errapi": "Hold"}[first]
    ops += ([["errapi"]] if first == "errapi" else [["user", first]]) + ticks(1, 3)
    ops += [["user", second]] + ticks(1, 3)
    ends = ["Unhold", "Unpause"]
    if rng.random() < 0.25:
        ends.reverse()
    ops += [["user", ends[0]]] + ticks(2, 5)
    if rng.random() < 0.7:
        ops += [["user", ends[1]]] + ticks(1, 3)
    if rng.random() < 0.3:
        ops += [["user", rng.choice(["Stop", "Restart"])]] + ticks(2, 4)
    return {"method": method, "ops": ops}


def gen_session(rng, length: int, malformed: bool = False, errors: bool = False, sets: bool = True,
                method: str | None = None, blocks: bool = True) -> dict:
    """Adaptive random session: mostly commands that are valid in the current state, ticks with varied
    increments, output changes; recorded as a plain op list."""
    if method is None:
        method = gen_method(rng, malformed, blocks)
    sim = Sim(method)
    ops: list[list] = []
    try:
        raw = sim.raw()
        for _ in range(length):
            r = rng.random()
            if r < 0.45:
                k = rng.random()
                if k < 0.55:
                    adv = inc = rng.choice([1, 2, 4, 8, 8, 8, 16])
                elif k < 0.7:
                    adv, inc = rng.choice([1, 4, 8]), 0
                elif k < 0.85:
                    adv = rng.choice([1, 4, 8, 32])
                    inc = rng.choice([1, 3, 8, 24])
                else:
                    adv = inc = rng.choice([0, 3, 5, 40])
                rf = 1 if errors and rng.random() < 0.06 else 0
                op = ["tick", adv, inc, rf]
            elif r < 0.85:
                names = [c for c in CMDS if valid_now(raw, c)]
                if rng.random() < (0.35 if malformed else 0.15) or not names:
                    name = rng.choice(CMDS + (["start", "Foo", "PAUSE", "", "Stop "] if malformed else []))
                else:
                    name = rng.choice(names)
                op = ["user", name]
            elif r < 0.97 and sets:
                op = ["set", rng.randrange(0, 3), rng.randrange(0, 6) * 10 + rng.randrange(0, 3)]
            elif errors and r >= 0.97:
                op = ["errapi"]
            else:
                op = ["tick", 8, 8, 0]
            _, _, raw = sim.do(op, "c06")
            ops.append(op)
    finally:
        sim.close()
    return {"method": method, "ops": ops}


def enumerate_sessions(alphabet: list[list], maxlen: int, prefix: list[list], methods: list[str]) -> list[dict]:
    import itertools
    out = []
    for m in methods:
        for n in range(0, maxlen + 1):
            for seq in itertools.product(alphabet, repeat=n):
                out.append({"method": m, "ops": [list(o) for o in prefix] + [list(o) for o in seq]})
    return out


WORD = re.compile(r"(\w+)=(\S+)")


def parse_obs(line: str) -> dict[str, str]:
    return dict(WORD.findall(line))
