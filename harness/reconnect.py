"""Drive the real aggregator through engine registrations, disconnects, graceful aggregator restarts, crashes of the
aggregator process and run messages (property C28).  The engine under observation has a configurable name (engine id),
log interval and clock epoch; a second engine with its own runs can be interleaved as noise (`o-*` ops) — everything
observed is filtered to the first engine's id.  One `ReconnHarness` = one in-memory SQLite database that survives `restart()`, and the current
`Aggregator` + `AggregatorMessageHandlers` working on it.  Everything goes through the public message handlers exactly
as the dispatcher calls them; publishers are mocks.  Nothing in /repo is touched or monkey-patched.
"""
from __future__ import annotations

import asyncio
from typing import Any
from unittest.mock import AsyncMock, MagicMock

_loop: asyncio.AbstractEventLoop | None = None
TAG = "X"
SYS = "System State"
STATES = ["Stopped", "Running", "Paused"]     # wire code 0/1/2 of the System State value


def loop() -> asyncio.AbstractEventLoop:
    global _loop
    if _loop is None or _loop.is_closed():
        _loop = asyncio.new_event_loop()
        asyncio.set_event_loop(_loop)
    return _loop


def run(coro):
    return loop().run_until_complete(coro)


def _rid(k: int) -> str:
    return f"run-{k}"


class ReconnHarness:
    COMPUTER = "pc"
    UOD = "uod"
    # (observed engine, second engine): engine ids with the separator and url-quoted characters, and pairs whose ids
    # match each other when an id is (mis)used as a case-insensitive / LIKE pattern: `_` = any character, `%` = any
    # string, upper = lower case
    NAMES = [(("pc", "uod"), ("other-pc", "other")),
             (("lab_pc 7", "uod_A"), ("lab-pc 7", "uod-A")),
             (("pc", "uod/ü"), ("PC", "UOD/Ü")),
             (("LAB-PC", "Pump-A"), ("LAB-PC", "Pump_A")),       # the other's `_` covers our `-`
             (("lab-pc", "pumpXa"), ("LAB-PC", "PUMP_A")),       # wildcard + case
             (("pc", "u25"), ("pc", "u%"))]                      # the other's quoted `%` (u%25) covers our id
    OTHER = ("other-pc", "other")

    def __init__(self) -> None:
        self.interval = 0          # data_log_interval_seconds the engine reports
        self.epoch = 0             # added to every tick time sent (the engine's clock)
        import openpectus.aggregator.data.models as DMdl
        from openpectus.aggregator.data import database
        loop()
        database.configure_db("sqlite:///:memory:")
        DMdl.DBModel.metadata.create_all(database._engine)  # type: ignore[arg-type]
        self.database = database
        self.DMdl = DMdl
        self._new_process()

    def _new_process(self) -> None:
        """A fresh aggregator process on the existing database."""
        from openpectus.aggregator.aggregator import Aggregator
        from openpectus.aggregator.aggregator_message_handlers import AggregatorMessageHandlers
        from openpectus.protocol.aggregator_dispatcher import AggregatorDispatcher
        if not hasattr(self, "_mocks"):
            publisher = MagicMock()
            for name in ("publish_process_units_changed", "publish_control_state_changed",
                         "publish_method_state_changed", "publish_run_log_changed", "publish_error_log_changed",
                         "publish_method_changed", "publish_active_users_changed"):
                setattr(publisher, name, AsyncMock())
            webpush = MagicMock()
            webpush.publish_message = AsyncMock()
            self._mocks = (publisher, webpush)      # the mocks carry no state the aggregator reads
        publisher, webpush = self._mocks
        self.agg = Aggregator(AggregatorDispatcher(), publisher, webpush)
        self.handlers = AggregatorMessageHandlers(self.agg)
        self.engine_id = self.agg.create_engine_id(self._register_msg())
        self.other_id = self.agg.create_engine_id(self._register_msg(other=True))

    def configure(self, name: int = 0, interval: int = 0, epoch: int = 0) -> None:
        """Per case: which engine (name), its log interval, its clock epoch.  Call right after `wipe()`."""
        (self.COMPUTER, self.UOD), self.OTHER = self.NAMES[name % len(self.NAMES)]
        self.interval, self.epoch = interval, epoch
        self.engine_id = self.agg.create_engine_id(self._register_msg())
        self.other_id = self.agg.create_engine_id(self._register_msg(other=True))

    def wipe(self) -> None:
        """Empty every table and start a fresh process (cheaper than a new database per case)."""
        with self.database.create_scope():
            s = self.database.scoped_session()
            for table in reversed(self.DMdl.DBModel.metadata.sorted_tables):
                s.execute(table.delete())
            s.commit()
        self._new_process()

    # -- ops -----------------------------------------------------------------------------------
    def _register_msg(self, other: bool = False):
        import openpectus.protocol.engine_messages as EM
        from openpectus import __version__
        if other:
            return EM.RegisterEngineMsg(computer_name=self.OTHER[0], uod_name=self.OTHER[1], uod_author_name="",
                                        uod_author_email="", uod_filename="", location="", engine_version=__version__)
        return EM.RegisterEngineMsg(computer_name=self.COMPUTER, uod_name=self.UOD, uod_author_name="",
                                    uod_author_email="", uod_filename="", location="", engine_version=__version__)

    def register(self, other: bool = False) -> str:
        """RegisterEngineMsg, then the UodInfoMsg the engine sends right after it (one reading, its log interval)."""
        import openpectus.protocol.engine_messages as EM
        import openpectus.protocol.models as PM
        rep = run(self.handlers.handle_RegisterEngineMsg(self._register_msg(other)))
        if not rep.success:
            return "refused"
        readings = [PM.ReadingInfo(discriminator="reading", tag_name=TAG, valid_value_units=None, entry_data_type=None,
                                   commands=[], command_options=None)]
        msg = EM.UodInfoMsg(engine_id=self.other_id if other else self.engine_id, readings=readings, commands=[],
                            uod_definition=PM.UodDefinition(commands=[], system_commands=[], tags=[]),
                            plot_configuration=PM.PlotConfiguration.empty(), hardware_str="hw", required_roles=set(),
                            data_log_interval_seconds=0.0 if other else float(self.interval))
        return self._reply(run(self.handlers.handle_UodInfoMsg(msg)))

    def disconnect(self, other: bool = False) -> str:
        run(self.handlers.handle_EngineDisconnected(self.other_id if other else self.engine_id))
        return "ok"

    def restart(self, graceful: bool = True) -> str:
        """Graceful restart: `Aggregator.shutdown()` as the server's lifespan does, then a new process, same database."""
        if graceful:
            self.agg.shutdown()
        self._new_process()
        return "ok"

    def start(self, k: int, other: bool = False) -> str:
        import openpectus.protocol.engine_messages as EM
        return self._reply(run(self.handlers.handle_RunStartedMsg(
            EM.RunStartedMsg(engine_id=self.other_id if other else self.engine_id,
                             run_id=f"orun-{k}" if other else _rid(k), started_tick=float(self.epoch + 1000)))))

    def stop(self, k: int, other: bool = False) -> str:
        import openpectus.protocol.engine_messages as EM
        import openpectus.protocol.models as PM
        return self._reply(run(self.handlers.handle_RunStoppedMsg(
            EM.RunStoppedMsg(engine_id=self.other_id if other else self.engine_id,
                             run_id=f"orun-{k}" if other else _rid(k), runlog=PM.RunLog.empty(),
                             method_state=PM.MethodState.empty(), archive=None, archive_filename=None))))

    def tags(self, k: int | None, t: int, state: int | None = None) -> str:
        """TagsUpdatedMsg with X @ t and, if `state` is given, System State = STATES[state] @ t."""
        import openpectus.protocol.engine_messages as EM
        import openpectus.protocol.models as PM
        tick = float(self.epoch + t)
        tvs = [PM.TagValue(name=TAG, tick_time=tick, value=t, value_unit=None)]
        if state is not None:
            tvs.append(PM.TagValue(name=SYS, tick_time=tick, value=STATES[state], value_unit=None))
        return self._reply(run(self.handlers.handle_TagsUpdatedMsg(
            EM.TagsUpdatedMsg(engine_id=self.engine_id, tags=tvs, run_id=None if k is None else _rid(k)))))

    def other_tags(self, k: int | None, t: int) -> str:
        import openpectus.protocol.engine_messages as EM
        import openpectus.protocol.models as PM
        tvs = [PM.TagValue(name=TAG, tick_time=float(t), value=t, value_unit=None)]
        return self._reply(run(self.handlers.handle_TagsUpdatedMsg(
            EM.TagsUpdatedMsg(engine_id=self.other_id, tags=tvs, run_id=None if k is None else f"orun-{k}"))))

    @staticmethod
    def _reply(msg) -> str:
        import openpectus.protocol.messages as M
        if isinstance(msg, M.ErrorMessage):
            return "notreg" if "No engine registered" in (msg.message or "") else "error"
        return "ok"

    def apply(self, op: list) -> str:
        kind = op[0]
        if kind == "register":
            return self.register()
        if kind == "disconnect":
            return self.disconnect()
        if kind == "restart":
            return self.restart()
        if kind == "crash":
            return self.restart(graceful=False)
        if kind.startswith("o-"):           # the other engine: whatever it is answered, it must not affect ours
            k = kind[2:]
            if k == "register":
                self.register(other=True)
            elif k == "disconnect":
                self.disconnect(other=True)
            elif k == "start":
                self.start(op[1], other=True)
            elif k == "stop":
                self.stop(op[1], other=True)
            elif k == "tags":
                self.other_tags(op[1], op[2])
            return "ok"
        if kind == "start":
            return self.start(op[1])
        if kind == "stop":
            return self.stop(op[1])
        if kind == "tags":
            return self.tags(op[1], op[2], op[3] if len(op) > 3 else None)
        raise ValueError(op)

    # -- observations ----------------------------------------------------------------------------
    @staticmethod
    def _k(run_id: str | None) -> str:
        return "-" if run_id is None else run_id.split("-")[1]

    def facts(self) -> dict[str, Any]:
        """Everything the property speaks about, read from the engine data and the database rows."""
        from sqlalchemy import select
        D = self.DMdl
        ed = self.agg.get_registered_engine_data(self.engine_id)
        f: dict[str, Any] = {"registered": ed is not None, "run": None, "lp": None, "tt": None, "ss": None, "st": None}
        oed = self.agg.get_registered_engine_data(self.other_id)
        f["other_run"] = oed.run_data.run_id if oed is not None and oed.has_run() else None
        if ed is not None:
            if ed.has_run():
                f["run"] = ed.run_data.run_id
                lp = ed.run_data.latest_persisted_tick_time
                f["lp"] = None if lp is None else lp - self.epoch
            tv = ed.tags_info.get(TAG)
            f["tt"] = None if tv is None else tv.tick_time - self.epoch
            sv = ed.tags_info.get(SYS)
            if sv is not None:
                f["ss"], f["st"] = sv.value, sv.tick_time - self.epoch
        with self.database.create_scope():
            s = self.database.scoped_session()
            rows = s.execute(select(D.RecentEngine.run_id, D.RecentEngine.system_state)
                             .where(D.RecentEngine.engine_id == self.engine_id)).all()
            f["row"] = "none" if not rows else rows[0][0]
            f["row_state"] = None if not rows else rows[0][1]
            f["row_count"] = len(rows)
            logs = s.execute(select(D.PlotLog.id, D.PlotLog.run_id).where(D.PlotLog.engine_id == self.engine_id)
                             .order_by(D.PlotLog.id)).all()
            f["logs"] = [r for (_, r) in logs]
            pos = {i: n for n, (i, _) in enumerate(logs)}
            q = (select(D.PlotLogEntryValue.id, D.PlotLogEntry.plot_log_id, D.PlotLogEntryValue.tick_time,
                        D.PlotLogEntryValue.value_int)
                 .join(D.PlotLogEntry, D.PlotLogEntryValue.plot_log_entry_id == D.PlotLogEntry.id)
                 .order_by(D.PlotLogEntryValue.id))
            f["values"] = [(pos[pl], tick - self.epoch, v) for (_, pl, tick, v) in s.execute(q).all() if pl in pos]
            f["recent"] = list(s.scalars(select(D.RecentRun.run_id).where(D.RecentRun.engine_id == self.engine_id)
                                         .order_by(D.RecentRun.id)).all())
        return f

    @classmethod
    def canonical(cls, f: dict[str, Any]) -> str:
        def num(x):
            if x is None:
                return "-"
            assert float(x) == int(x)
            return str(int(x))

        def nl(xs):
            return ",".join(xs) if xs else "-"
        def state(x):
            return "-" if x in (None, "") else str(STATES.index(str(x)))
        mem = (f"reg=1 run={cls._k(f['run'])} lp={num(f['lp'])} tt={num(f['tt'])} ss={state(f['ss'])}@{num(f['st'])}"
               if f["registered"] else "reg=0 run=- lp=- tt=- ss=-@-")
        row = "none" if f["row"] == "none" else cls._k(f["row"]) + "/" + state(f["row_state"])
        vals = ";".join(f"{i}:{num(t)}" for (i, t, _) in f["values"]) or "-"
        return (f"{mem} row={row} logs={nl([cls._k(r) for r in f['logs']])} vals={vals} "
                f"recent={nl([cls._k(r) for r in f['recent']])}")


def op_line(op: list) -> str:
    if op[0] in ("start", "stop"):
        return f"{op[0]}\t{op[1]}"
    if op[0] == "crash":
        return "crash"
    if op[0].startswith("o-"):
        return "noop"
    if op[0] == "tags":
        st = op[3] if len(op) > 3 and op[3] is not None else "-"
        return f"tags\t{'-' if op[1] is None else op[1]}\t{op[2]}\t{st}"
    return op[0]


def probe_persist() -> bool:
    """Does the code write the RecentEngines row with the run messages (so that a run survives a crash of the
    aggregator process)?"""
    h = ReconnHarness()
    h.register()
    h.start(1)
    h.restart(graceful=False)
    h.register()
    return h.facts()["run"] == _rid(1)


def probe_guarded() -> tuple[bool, bool]:
    """Measure which repository variant the code is: does a second create_plot_log / store_recent_run for a run id
    that already has a row add another row?  -> (plot log guarded, recent run guarded)"""
    h = ReconnHarness()
    h.register()
    h.start(1)
    h.start(1)                      # duplicate RunStartedMsg falls through to create_plot_log
    plot_guarded = h.facts()["logs"].count(_rid(1)) == 1
    h.stop(1)
    h.start(1)
    h.stop(1)                       # the same run id stopped a second time
    recent_guarded = h.facts()["recent"].count(_rid(1)) == 1
    return plot_guarded, recent_guarded
