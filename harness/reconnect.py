"""Drive the real aggregator through engine registrations, disconnects, graceful aggregator restarts and run messages
(property C28).  One `ReconnHarness` = one in-memory SQLite database that survives `restart()`, and the current
`Aggregator` + `AggregatorMessageHandlers` working on it.  Everything goes through the public message handlers exactly
as the dispatcher calls them; publishers are mocks.  Nothing in /repo is touched or monkey-patched.
"""
from __future__ import annotations

import asyncio
from typing import Any
from unittest.mock import AsyncMock, MagicMock

_loop: asyncio.AbstractEventLoop | None = None
TAG = "X"
SYS = "System State"
STATES = ["Stopped", "Running", "Paused"]     # wire code 0/1/2 of the System State value


def loop() -> asyncio.AbstractEventLoop:
    global _loop
    if _loop is None or _loop.is_closed():
        _loop = asyncio.new_event_loop()
        asyncio.set_event_loop(_loop)
    return _loop


def run(coro):
    return loop().run_until_complete(coro)


def _rid(k: int) -> str:
    return f"run-{k}"


class ReconnHarness:
    COMPUTER = "pc"
    UOD = "uod"

    def __init__(self) -> None:
        import openpectus.aggregator.data.models as DMdl
        from openpectus.aggregator.data import database
        loop()
        database.configure_db("sqlite:///:memory:")
        DMdl.DBModel.metadata.create_all(database._engine)  # type: ignore[arg-type]
        self.database = database
        self.DMdl = DMdl
        self._new_process()

    def _new_process(self) -> None:
        """A fresh aggregator process on the existing database."""
        from openpectus.aggregator.aggregator import Aggregator
        from openpectus.aggregator.aggregator_message_handlers import AggregatorMessageHandlers
        from openpectus.protocol.aggregator_dispatcher import AggregatorDispatcher
        if not hasattr(self, "_mocks"):
            publisher = MagicMock()
            for name in ("publish_process_units_changed", "publish_control_state_changed",
                         "publish_method_state_changed", "publish_run_log_changed", "publish_error_log_changed",
                         "publish_method_changed", "publish_active_users_changed"):
                setattr(publisher, name, AsyncMock())
            webpush = MagicMock()
            webpush.publish_message = AsyncMock()
            self._mocks = (publisher, webpush)      # the mocks carry no state the aggregator reads
        publisher, webpush = self._mocks
        self.agg = Aggregator(AggregatorDispatcher(), publisher, webpush)
        self.handlers = AggregatorMessageHandlers(self.agg)
        self.engine_id = self.agg.create_engine_id(self._register_msg())

    def wipe(self) -> None:
        """Empty every table and start a fresh process (cheaper than a new database per case)."""
        with self.database.create_scope():
            s = self.database.scoped_session()
            for table in reversed(self.DMdl.DBModel.metadata.sorted_tables):
                s.execute(table.delete())
            s.commit()
        self._new_process()

    # -- ops -----------------------------------------------------------------------------------
    def _register_msg(self):
        import openpectus.protocol.engine_messages as EM
        from openpectus import __version__
        return EM.RegisterEngineMsg(computer_name=self.COMPUTER, uod_name=self.UOD, uod_author_name="",
                                    uod_author_email="", uod_filename="", location="", engine_version=__version__)

    def register(self) -> str:
        """RegisterEngineMsg, then the UodInfoMsg the engine sends right after it (one reading, interval 0)."""
        import openpectus.protocol.engine_messages as EM
        import openpectus.protocol.models as PM
        rep = run(self.handlers.handle_RegisterEngineMsg(self._register_msg()))
        if not rep.success:
            return "refused"
        readings = [PM.ReadingInfo(discriminator="reading", tag_name=TAG, valid_value_units=None, entry_data_type=None,
                                   commands=[], command_options=None)]
        msg = EM.UodInfoMsg(engine_id=self.engine_id, readings=readings, commands=[],
                            uod_definition=PM.UodDefinition(commands=[], system_commands=[], tags=[]),
                            plot_configuration=PM.PlotConfiguration.empty(), hardware_str="hw", required_roles=set(),
                            data_log_interval_seconds=0.0)
        return self._reply(run(self.handlers.handle_UodInfoMsg(msg)))

    def disconnect(self) -> str:
        run(self.handlers.handle_EngineDisconnected(self.engine_id))
        return "ok"

    def restart(self, graceful: bool = True) -> str:
        """Graceful restart: `Aggregator.shutdown()` as the server's lifespan does, then a new process, same database."""
        if graceful:
            self.agg.shutdown()
        self._new_process()
        return "ok"

    def start(self, k: int) -> str:
        import openpectus.protocol.engine_messages as EM
        return self._reply(run(self.handlers.handle_RunStartedMsg(
            EM.RunStartedMsg(engine_id=self.engine_id, run_id=_rid(k), started_tick=1000.0))))

    def stop(self, k: int) -> str:
        import openpectus.protocol.engine_messages as EM
        import openpectus.protocol.models as PM
        return self._reply(run(self.handlers.handle_RunStoppedMsg(
            EM.RunStoppedMsg(engine_id=self.engine_id, run_id=_rid(k), runlog=PM.RunLog.empty(),
                             method_state=PM.MethodState.empty(), archive=None, archive_filename=None))))

    def tags(self, k: int | None, t: int, state: int | None = None) -> str:
        """TagsUpdatedMsg with X @ t and, if `state` is given, System State = STATES[state] @ t."""
        import openpectus.protocol.engine_messages as EM
        import openpectus.protocol.models as PM
        tvs = [PM.TagValue(name=TAG, tick_time=float(t), value=t, value_unit=None)]
        if state is not None:
            tvs.append(PM.TagValue(name=SYS, tick_time=float(t), value=STATES[state], value_unit=None))
        return self._reply(run(self.handlers.handle_TagsUpdatedMsg(
            EM.TagsUpdatedMsg(engine_id=self.engine_id, tags=tvs, run_id=None if k is None else _rid(k)))))

    @staticmethod
    def _reply(msg) -> str:
        import openpectus.protocol.messages as M
        if isinstance(msg, M.ErrorMessage):
            return "notreg" if "No engine registered" in (msg.message or "") else "error"
        return "ok"

    def apply(self, op: list) -> str:
        kind = op[0]
        if kind == "register":
            return self.register()
        if kind == "disconnect":
            return self.disconnect()
        if kind == "restart":
            return self.restart()
        if kind == "start":
            return self.start(op[1])
        if kind == "stop":
            return self.stop(op[1])
        if kind == "tags":
            return self.tags(op[1], op[2], op[3] if len(op) > 3 else None)
        raise ValueError(op)

    # -- observations ----------------------------------------------------------------------------
    @staticmethod
    def _k(run_id: str | None) -> str:
        return "-" if run_id is None else run_id.split("-")[1]

    def facts(self) -> dict[str, Any]:
        """Everything the property speaks about, read from the engine data and the database rows."""
        from sqlalchemy import select
        D = self.DMdl
        ed = self.agg.get_registered_engine_data(self.engine_id)
        f: dict[str, Any] = {"registered": ed is not None, "run": None, "lp": None, "tt": None, "ss": None, "st": None}
        if ed is not None:
            if ed.has_run():
                f["run"] = ed.run_data.run_id
                f["lp"] = ed.run_data.latest_persisted_tick_time
            tv = ed.tags_info.get(TAG)
            f["tt"] = None if tv is None else tv.tick_time
            sv = ed.tags_info.get(SYS)
            if sv is not None:
                f["ss"], f["st"] = sv.value, sv.tick_time
        with self.database.create_scope():
            s = self.database.scoped_session()
            rows = s.execute(select(D.RecentEngine.run_id, D.RecentEngine.system_state)
                             .where(D.RecentEngine.engine_id == self.engine_id)).all()
            f["row"] = "none" if not rows else rows[0][0]
            f["row_state"] = None if not rows else rows[0][1]
            f["row_count"] = len(rows)
            logs = s.execute(select(D.PlotLog.id, D.PlotLog.run_id).order_by(D.PlotLog.id)).all()
            f["logs"] = [r for (_, r) in logs]
            pos = {i: n for n, (i, _) in enumerate(logs)}
            q = (select(D.PlotLogEntryValue.id, D.PlotLogEntry.plot_log_id, D.PlotLogEntryValue.tick_time,
                        D.PlotLogEntryValue.value_int)
                 .join(D.PlotLogEntry, D.PlotLogEntryValue.plot_log_entry_id == D.PlotLogEntry.id)
                 .order_by(D.PlotLogEntryValue.id))
            f["values"] = [(pos[pl], tick, v) for (_, pl, tick, v) in s.execute(q).all()]
            f["recent"] = list(s.scalars(select(D.RecentRun.run_id).order_by(D.RecentRun.id)).all())
        return f

    @classmethod
    def canonical(cls, f: dict[str, Any]) -> str:
        def num(x):
            if x is None:
                return "-"
            assert float(x) == int(x)
            return str(int(x))

        def nl(xs):
            return ",".join(xs) if xs else "-"
        def state(x):
            return "-" if x in (None, "") else str(STATES.index(str(x)))
        mem = (f"reg=1 run={cls._k(f['run'])} lp={num(f['lp'])} tt={num(f['tt'])} ss={state(f['ss'])}@{num(f['st'])}"
               if f["registered"] else "reg=0 run=- lp=- tt=- ss=-@-")
        row = "none" if f["row"] == "none" else cls._k(f["row"]) + "/" + state(f["row_state"])
        vals = ";".join(f"{i}:{num(t)}" for (i, t, _) in f["values"]) or "-"
        return (f"{mem} row={row} logs={nl([cls._k(r) for r in f['logs']])} vals={vals} "
                f"recent={nl([cls._k(r) for r in f['recent']])}")


def op_line(op: list) -> str:
    if op[0] in ("start", "stop"):
        return f"{op[0]}\t{op[1]}"
    if op[0] == "tags":
        st = op[3] if len(op) > 3 and op[3] is not None else "-"
        return f"tags\t{'-' if op[1] is None else op[1]}\t{op[2]}\t{st}"
    return op[0]


def probe_guarded() -> tuple[bool, bool]:
    """Measure which repository variant the code is: does a second create_plot_log / store_recent_run for a run id
    that already has a row add another row?  -> (plot log guarded, recent run guarded)"""
    h = ReconnHarness()
    h.register()
    h.start(1)
    h.start(1)                      # duplicate RunStartedMsg falls through to create_plot_log
    plot_guarded = h.facts()["logs"].count(_rid(1)) == 1
    h.stop(1)
    h.start(1)
    h.stop(1)                       # the same run id stopped a second time
    recent_guarded = h.facts()["recent"].count(_rid(1)) == 1
    return plot_guarded, recent_guarded
