"""Generators and reference semantics for the macro properties (C41, and the macro part of C02).

* `gen_acyclic(rng)`      macro-heavy methods (definitions, redefinitions, nested calls, calls before the
                          definition) whose Mark trace is computable by plain inline expansion;
* `gen_recursive(rng)`    methods in which some call would make a macro call itself: directly, after another
                          call, through other macros, through a call nested in a Watch / Alarm / Block of a body;
* `expand(items)`         the reference: inline expansion with the latest definition at call time; reports
                          the Mark trace up to the first call that must fail (undefined name / would recurse);
* `enumerate_graphs(k, slots)`  every call graph over k macros with `slots` call slots per body
                          (each slot: nothing, a plain call, or a call nested in a Watch) for the function-level
                          correspondence of `macro_calling_macro`;
* `call_graph(program)` / `has_call_cycle(pcode)` on the real parser's tree.

Everything random comes from the `random.Random` passed in.
"""
from __future__ import annotations

import itertools
import random
from typing import Any, Iterator

NAMES = ["A", "B", "C", "D", "E"]
Item = tuple  # ("mark", text) | ("wait", "0.25s") | ("cmd", name) | ("call", name) | ("macro", name, [items])
#               | ("watch"|"alarm", cond, [items]) | ("block", name, [items]) | ("blank",)


def render(items: list[Item], depth: int = 0) -> list[str]:
    out: list[str] = []
    ind = "    " * depth
    for it in items:
        k = it[0]
        if k == "mark":
            out.append(f"{ind}Mark: {it[1]}")
        elif k == "wait":
            out.append(f"{ind}Wait: {it[1]}")
        elif k == "cmd":
            out.append(f"{ind}{it[1]}")
        elif k == "call":
            out.append(f"{ind}Call macro: {it[1]}")
        elif k == "blank":
            out.append("")
        elif k == "endblock":
            out.append(f"{ind}End block")
        elif k == "comment":
            out.append(f"{ind}# a comment")
        elif k == "macro":
            out.append(f"{ind}Macro: {it[1]}")
            out += render(it[2], depth + 1)
        elif k in ("watch", "alarm"):
            out.append(f"{ind}{k.capitalize()}: {it[1]}")
            out += render(it[2], depth + 1)
        elif k == "block":
            out.append(f"{ind}Block: {it[1]}")
            out += render(it[2], depth + 1)
        else:
            raise ValueError(k)
    return out


def pcode_of(items: list[Item]) -> str:
    return "\n".join(render(items))


# ------------------------------------------------------------------------------------------
# reference semantics (independent of the Lean model and of the implementation)

def exec_calls(body: list[Item]) -> list[str]:
    """Names called when a body runs: all calls in source order, also inside Watch/Alarm/Block, not inside
    nested macro definitions."""
    out: list[str] = []
    for it in body:
        if it[0] == "call":
            out.append(it[1])
        elif it[0] in ("watch", "alarm", "block"):
            out += exec_calls(it[2])
    return out


def reaches(table: dict[str, list[Item]], start: str, target: str) -> bool:
    """Running the body registered under `start` gets to execute `Call macro: target`."""
    seen: set[str] = set()
    todo = [start]
    while todo:
        x = todo.pop()
        if x in seen or x not in table:
            continue
        seen.add(x)
        for cn in exec_calls(table[x]):
            if cn == target:
                return True
            todo.append(cn)
    return False


class Stop(Exception):
    def __init__(self, reason: str, name: str):
        self.reason = reason
        self.name = name


def expand(items: list[Item]) -> dict[str, Any]:
    """Mark trace of the method by inline expansion; stops at the first call that must fail."""
    table: dict[str, list[Item]] = {}
    marks: list[str] = []
    calls = {"n": 0}

    def run(body: list[Item], top: bool):
        for it in body:
            k = it[0]
            if k == "mark":
                marks.append(it[1])
            elif k == "macro":
                table[it[1]] = it[2]          # the definition line registers the body (latest wins)
            elif k == "call":
                name = it[1]
                if name not in table:
                    raise Stop("undefined", name)
                if reaches(table, name, name):
                    raise Stop("recursive", name)
                calls["n"] += 1
                run(table[name], False)
            elif k == "block":
                run(it[2], False)             # a Block whose last line is End block: its lines, then on
            elif k in ("watch", "alarm"):
                raise AssertionError("reference expansion covers straight-line bodies and Blocks only")
    try:
        run(items, True)
        return {"marks": marks, "stop": None, "name": None, "calls": calls["n"]}
    except Stop as s:
        return {"marks": marks, "stop": s.reason, "name": s.name, "calls": calls["n"]}


# ------------------------------------------------------------------------------------------
# generators

def _simple(rng: random.Random, mark_no: list[int]) -> Item:
    x = rng.random()
    if x < 0.6:
        mark_no[0] += 1
        return ("mark", f"m{mark_no[0]}")
    if x < 0.8:
        return ("wait", rng.choice(["0.25s", "0.5s", "1s"]))
    return ("cmd", rng.choice(["CmdA", "CmdB"]))


def gen_block(rng: random.Random, mark_no: list[int], block_no: list[int], depth: int = 0) -> Item:
    """`Block: Kn` with 1-3 simple lines, possibly one nested Block, closed by `End block` as its last line."""
    block_no[0] += 1
    name = f"K{block_no[0]}"
    body: list[Item] = []
    for _ in range(rng.randrange(1, 4)):
        body.append(_simple(rng, mark_no))
    if depth == 0 and rng.random() < 0.25:
        body.insert(rng.randrange(len(body) + 1), gen_block(rng, mark_no, block_no, depth + 1))
    mark_no[0] += 1
    body.insert(rng.randrange(len(body) + 1), ("mark", f"m{mark_no[0]}"))
    body.append(("endblock",))
    return ("block", name, body)


def body_marks(items: list[Item]) -> list[str]:
    """Marks of a straight-line body with Blocks, in execution order."""
    out: list[str] = []
    for it in items:
        if it[0] == "mark":
            out.append(it[1])
        elif it[0] == "block":
            out += body_marks(it[2])
    return out


def gen_alarm_repeat(rng: random.Random) -> list[Item]:
    """`Alarm` with an always-true condition whose body is straight-line with Blocks: it fires again and again."""
    mark_no, block_no = [0], [0]
    body: list[Item] = []
    for _ in range(rng.randrange(2, 5)):
        body.append(gen_block(rng, mark_no, block_no) if rng.random() < 0.5 else _simple(rng, mark_no))
    if not any(i[0] == "block" for i in body):
        body.insert(rng.randrange(len(body) + 1), gen_block(rng, mark_no, block_no))
    if not body_marks([i for i in body if i[0] == "mark"]):
        mark_no[0] += 1
        body.append(("mark", f"m{mark_no[0]}"))
    pre: list[Item] = [("mark", "p0")] if rng.random() < 0.5 else []
    return pre + [("alarm", "T0 >= 0", body)]


def gen_empty_openers(rng: random.Random) -> list[Item]:
    """Nested scopes whose LAST line is an opener with an empty body (Watch / Alarm / Macro definition),
    followed by lines at a smaller indentation: the source text's indentation decides the scope."""
    mark_no, block_no = [0], [0]

    def mk() -> Item:
        mark_no[0] += 1
        return ("mark", f"m{mark_no[0]}")

    def empty() -> Item:
        k = rng.choice(["watch", "watch", "alarm", "macro"])
        return ("macro", "E", []) if k == "macro" else (k, f"T{rng.randrange(3)} >= {rng.randrange(0, 3)}", [])

    def scope(depth: int) -> Item:
        kind = rng.choice(["watch", "block"] if depth < 2 else ["watch"])
        body: list[Item] = [mk() for _ in range(rng.randrange(0, 3))]
        if depth < 2 and rng.random() < 0.6:
            body.append(scope(depth + 1))
            body += [mk() for _ in range(rng.randrange(0, 2))]
        if rng.random() < 0.75:
            body.append(empty())                      # the empty opener is the last line of this scope
        elif not body:
            body.append(mk())
        if kind == "block":
            block_no[0] += 1
            if rng.random() < 0.8 and body[-1][0] in ("watch", "alarm", "macro"):
                # lines after the nested scope, at the Block's level, then End block
                return ("block", f"K{block_no[0]}", [("watch", "T0 >= 0", body), mk(), ("endblock",)])
            return ("block", f"K{block_no[0]}", body + [("endblock",)])
        return (kind, f"T{rng.randrange(3)} >= 0", body)
    items: list[Item] = [mk()] if rng.random() < 0.5 else []
    for _ in range(rng.randrange(1, 3)):
        items.append(scope(0))
        items.append(mk())
    return items


def gen_acyclic(rng: random.Random, max_top: int = 9, blocks: bool = False) -> list[Item]:
    """Definitions / redefinitions / calls / marks at top level; the body of a macro of rank r calls only
    names of lower rank, so no table that can arise is cyclic.  Some calls come before the definition."""
    k = rng.randrange(1, 5)
    names = NAMES[:k]
    mark_no = [0]
    items: list[Item] = []

    block_no = [0]

    def body(rank: int) -> list[Item]:
        b: list[Item] = []
        for _ in range(rng.randrange(1, 5)):
            if rank > 0 and rng.random() < 0.4:
                b.append(("call", names[rng.randrange(rank)]))
            elif blocks and rng.random() < 0.45:
                b.append(gen_block(rng, mark_no, block_no))
            else:
                b.append(_simple(rng, mark_no))
        if not any(i[0] == "mark" for i in b):
            mark_no[0] += 1
            b.append(("mark", f"m{mark_no[0]}"))
        return b
    defined: list[int] = []
    n_top = rng.randrange(3, max_top + 1)
    for _ in range(n_top):
        x = rng.random()
        if x < 0.35 or not defined:
            r = rng.randrange(k)
            items.append(("macro", names[r], body(r)))
            defined.append(r)
        elif x < 0.8:
            # mostly defined names; now and then a name whose callees are not all defined yet / undefined itself
            r = rng.choice(defined) if rng.random() < 0.93 else rng.randrange(k)
            items.append(("call", names[r]))
        else:
            items.append(_simple(rng, mark_no))
    if not any(i[0] == "call" for i in items):
        items.append(("call", names[defined[-1]]))
    if rng.random() < 0.3:
        items.append(("blank",))
    return items


def gen_redefined_between_calls(rng: random.Random) -> list[Item]:
    """The same `Call macro: B` LINE runs more than once (it sits in macro A, which is called repeatedly, possibly
    through a further macro C) and B is re-defined in the main flow between two of those runs: every run must use
    the definition that is current when it happens.  Straight-line, acyclic: `expand` gives the Mark trace."""
    n = [0]

    def mk(pfx: str) -> Item:
        n[0] += 1
        return ("mark", f"{pfx}{n[0]}")

    def bdef() -> Item:
        b: list[Item] = [mk("b")]
        if rng.random() < 0.5:
            b.append(rng.choice([("wait", "0.25s"), ("cmd", "CmdA"), mk("b")]))
        return ("macro", "B", b)
    a_body: list[Item] = [mk("a")]
    if rng.random() < 0.4:
        a_body.append(("wait", "0.25s"))
    a_body.append(("call", "B"))
    if rng.random() < 0.5:
        a_body.append(mk("a"))
    items: list[Item] = [bdef(), ("macro", "A", a_body)]
    outer = "A"
    if rng.random() < 0.3:
        items.append(("macro", "C", [mk("c"), ("call", "A")]))
        outer = "C"
    items.append(("call", outer))
    for _ in range(rng.randrange(1, 4)):
        if rng.random() < 0.3:
            items.append(mk("s"))
        if rng.random() < 0.8:
            items.append(bdef())                       # B re-defined between two runs of the call line inside A
        items.append(("call", rng.choice([outer, "A"])))
    items.append(mk("e"))
    return items


def gen_alarm_redefine(rng: random.Random) -> list[Item]:
    """`Call macro: B` inside an Alarm that fires again and again; the main flow re-defines B while the Alarm
    keeps firing and then sets the Mark `redefined`."""
    first = [("mark", "old1"), ("mark", "old2")] if rng.random() < 0.5 else [("mark", "old1")]
    second = [("mark", "new1"), ("mark", "new2")] if rng.random() < 0.5 else [("mark", "new1")]
    alarm_body: list[Item] = [("mark", "x")]
    if rng.random() < 0.5:
        alarm_body.append(("wait", "0.25s"))
    alarm_body.append(("call", "B"))
    return [("macro", "B", first), ("alarm", "T0 >= 0", alarm_body), ("wait", rng.choice(["2s", "3s"])),
            ("macro", "B", second), ("mark", "redefined"), ("wait", "6s"), ("mark", "end")]


SHAPES = ["direct-first", "after-other-call", "in-watch", "in-alarm", "in-block", "indirect", "indirect-after-call",
          "indirect-in-watch", "foreign-cycle",
          # a container (whose own lines do not close the cycle) BEFORE the call that does
          "after-block", "after-watch", "after-alarm", "indirect-after-block", "indirect-after-watch",
          "indirect-after-alarm", "after-nested-containers",
          # both macros have been called (and have run) before A is redefined so that A -> B -> A
          "redefined-into-cycle"]


def _container(kind: str, body: list) -> tuple:
    return ("block", "K", body) if kind == "block" else (kind, "T0 >= 0", body)


def gen_recursive(rng: random.Random, shape: str | None = None) -> tuple[list[Item], str]:
    """A method whose last top-level call (or a call inside it) must be refused.  All definitions first, no
    redefinitions, so the table at every call is the full one.  Returns (items, shape)."""
    shape = shape or rng.choice(SHAPES)
    mark_no = [0]

    def mk() -> Item:
        mark_no[0] += 1
        return ("mark", f"m{mark_no[0]}")
    helper = ("macro", "H", [mk()])                       # a harmless macro
    pre: list[Item] = [mk()]
    if shape == "direct-first":
        defs = [("macro", "A", [mk(), ("call", "A"), mk()])]
    elif shape == "after-other-call":
        defs = [helper, ("macro", "A", [mk(), ("call", "H"), ("call", "A")])]
    elif shape in ("in-watch", "in-alarm"):
        defs = [("macro", "A", [mk(), (shape[3:], "T0 >= 0", [mk(), ("call", "A")])])]
    elif shape == "in-block":
        defs = [("macro", "A", [mk(), ("block", "K", [mk(), ("call", "A")])])]
    elif shape == "indirect":
        defs = [("macro", "A", [mk(), ("call", "B")]), ("macro", "B", [mk(), ("call", "A")])]
    elif shape == "indirect-after-call":
        defs = [helper, ("macro", "A", [mk(), ("call", "H"), ("call", "B")]),
                ("macro", "B", [mk(), ("call", "H"), ("call", "A")])]
    elif shape == "indirect-in-watch":
        defs = [("macro", "A", [mk(), ("call", "B")]),
                ("macro", "B", [mk(), ("watch", "T0 >= 0", [("call", "A")])])]
    elif shape in ("after-block", "after-watch", "after-alarm"):
        defs = [("macro", "A", [mk(), _container(shape[6:], [mk()]), ("call", "A")])]
    elif shape in ("indirect-after-block", "indirect-after-watch", "indirect-after-alarm"):
        k = shape[len("indirect-after-"):]
        defs = [helper, ("macro", "A", [mk(), _container(k, [mk(), ("call", "H")]), ("call", "B")]),
                ("macro", "B", [_container(k, [mk()]), mk(), ("call", "A")])]
    elif shape == "after-nested-containers":
        defs = [("macro", "A", [mk(), ("watch", "T0 >= 0", [mk(), ("block", "K", [mk()]), mk()]),
                                ("alarm", "T1 >= 0", [mk()]), mk(), ("call", "A")])]
    elif shape == "redefined-into-cycle":
        # A and B (B calls A) are both called and run to their ends; then A is redefined to call B: the call of A
        # after that must be refused however often the old A and B were called before
        a1, b1, a2, x = mk(), mk(), mk(), mk()
        items = pre + [("macro", "A", [a1]), ("macro", "B", [b1, ("call", "A")]), ("call", "A"), ("call", "B"),
                       ("macro", "A", [a2, ("call", "B")]), x, ("call", "A"), mk()]
        return items, shape
    elif shape == "foreign-cycle":
        # A does not call itself; B and C call each other: the call of A runs, the call of B inside it is refused
        defs = [("macro", "B", [mk(), ("call", "C")]), ("macro", "C", [mk(), ("call", "B")]),
                ("macro", "A", [mk(), ("call", "B")])]
    else:
        raise ValueError(shape)
    rng.shuffle(defs) if shape not in ("foreign-cycle",) and rng.random() < 0.5 else None
    items = pre + defs + [("call", "A"), mk()]
    return items, shape


def expected_recursive(items: list[Item], shape: str) -> dict[str, Any]:
    """Reference outcome for `gen_recursive` methods: marks before the refused call, which call is refused."""
    marks = [it[1] for it in items if it[0] == "mark"][:1]          # the leading mark; definitions do not run bodies
    if shape == "redefined-into-cycle":
        first_a = next(it[2] for it in items if it[0] == "macro" and it[1] == "A")
        body_b = next(it[2] for it in items if it[0] == "macro" and it[1] == "B")
        a1, b1 = first_a[0][1], body_b[0][1]
        x = [it[1] for it in items if it[0] == "mark"][1]
        return {"marks": marks + [a1, b1, a1, x], "refused": "A"}
    if shape == "foreign-cycle":
        body_a = next(it[2] for it in items if it[0] == "macro" and it[1] == "A")
        marks += [i[1] for i in body_a if i[0] == "mark"]            # A's lines up to its call of B
        return {"marks": marks, "refused": "B"}
    return {"marks": marks, "refused": "A"}


# ------------------------------------------------------------------------------------------
# exhaustive small call graphs for the function-level stream

def enumerate_graphs(k: int, slots: int) -> Iterator[list[Item]]:
    names = NAMES[:k]
    options: list[Any] = [None] + [("plain", n) for n in names] + [("watch", n) for n in names]
    per_macro = list(itertools.product(options, repeat=slots))
    for combo in itertools.product(per_macro, repeat=k):
        items: list[Item] = []
        for name, sl in zip(names, combo):
            body: list[Item] = [("mark", "x" + name)]
            for o in sl:
                if o is None:
                    continue
                if o[0] == "plain":
                    body.append(("call", o[1]))
                else:
                    body.append(("watch", "T0 >= 0", [("call", o[1])]))
            items.append(("macro", name, body))
        yield items


def gen_graph(rng: random.Random) -> list[Item]:
    """A random, deeper macro text for the function-level stream: nested containers, nested macro
    definitions, undefined callees, redefinitions."""
    k = rng.randrange(1, 6)
    names = NAMES[:k]

    def body(depth: int, in_macro: bool) -> list[Item]:
        b: list[Item] = []
        for _ in range(rng.randrange(0, 4)):
            x = rng.random()
            if x < 0.45:
                b.append(("call", rng.choice(names + ["Z"])))
            elif x < 0.6:
                b.append(("mark", "q"))
            elif x < 0.9 and depth < 3:
                kind = rng.choice(["watch", "alarm", "block"])
                inner = body(depth + 1, in_macro) or [("mark", "q")]
                b.append((kind, "T0 >= 0", inner) if kind != "block" else ("block", "K", inner))
            elif depth < 2:
                b.append(("macro", rng.choice(names), body(depth + 1, True) or [("mark", "q")]))
        return b
    items: list[Item] = []
    for _ in range(rng.randrange(1, k + 3)):
        items.append(("macro", rng.choice(names), body(1, True) or [("mark", "q")]))
    return items


# ------------------------------------------------------------------------------------------
# the real parser's tree

def parse(pcode: str):
    from openpectus.lang.model.parser import ParserMethod, create_method_parser
    method = ParserMethod.from_pcode(pcode)
    return create_method_parser(method, ["CmdA", "CmdB", "CmdC"]).parse_method(method)


def macro_defs(program) -> list:
    import openpectus.lang.model.ast as p
    return [n for n in program.get_all_nodes() if isinstance(n, p.MacroNode)]


def tree_calls(node) -> list[str]:
    """Calls a run of `node`'s body can execute, on the parser's tree (reference for the filter below)."""
    import openpectus.lang.model.ast as p
    out: list[str] = []
    for c in node.children:
        if isinstance(c, p.CallMacroNode):
            out.append(c.name)
        elif isinstance(c, p.NodeWithChildren) and not isinstance(c, p.MacroNode):
            out += tree_calls(c)
    return out


def has_call_cycle(pcode: str) -> bool:
    """Some definition of a name can reach a call of a name that can reach it (name-level graph over all
    definitions, redefinitions merged): the methods on which the as-is and the repaired check may differ."""
    prog = parse(pcode)
    graph: dict[str, set[str]] = {}
    for m in macro_defs(prog):
        graph.setdefault(m.name, set()).update(tree_calls(m))
    for start in graph:
        seen: set[str] = set()
        todo = list(graph[start])
        while todo:
            x = todo.pop()
            if x == start:
                return True
            if x in seen:
                continue
            seen.add(x)
            todo += list(graph.get(x, ()))
    return False
