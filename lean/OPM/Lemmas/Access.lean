import OPM.Model.Access
/-! Helper lemmas for C32. -/
namespace OPM.Access

theorem hasAccess_iff (required user : List String) :
    hasAccess required user = true ↔ required = [] ∨ ∃ r, r ∈ required ∧ r ∈ user := by
  unfold hasAccess
  cases required with
  | nil => simp
  | cons a rest => simp [List.any_eq_true]

theorem nonEmpty_filter_eq_any (l user : List String) :
    (!(l.filter (fun x => user.contains x)).isEmpty) = l.any (fun r => user.contains r) := by
  induction l with
  | nil => simp
  | cons a rest ih =>
    by_cases h : a ∈ user
    · simp [List.filter_cons, h]
    · simp only [List.contains_eq_mem] at ih
      simp [List.filter_cons, h, ih]

theorem eval_eq_evalAbs (e : AccExpr) (required user : List String) :
    e.eval required user =
      e.evalAbs required.isEmpty user.isEmpty (!(required.filter (fun x => user.contains x)).isEmpty) := by
  induction e with
  | isEmpty s => cases s <;> simp [AccExpr.eval, AccExpr.evalAbs, SetExpr.eval, SetExpr.emptyAbs]
  | nonEmpty s => cases s <;> simp [AccExpr.eval, AccExpr.evalAbs, SetExpr.eval, SetExpr.emptyAbs]
  | const b => rfl
  | or a b iha ihb => simp [AccExpr.eval, AccExpr.evalAbs, iha, ihb]
  | and a b iha ihb => simp [AccExpr.eval, AccExpr.evalAbs, iha, ihb]
  | not a iha => simp [AccExpr.eval, AccExpr.evalAbs, iha]
  | unknown s => rfl

/-- a non-empty intersection needs both sets non-empty -/
theorem both_nonEmpty_consistent (required user : List String) :
    (!(required.filter (fun x => user.contains x)).isEmpty) = true →
      required.isEmpty = false ∧ user.isEmpty = false := by
  intro h
  cases required with
  | nil => simp at h
  | cons a rest =>
    cases user with
    | nil => simp at h
    | cons b r => simp

theorem hasAccess_nil (user : List String) : hasAccess [] user = true := by simp [hasAccess]

theorem hasAccess_false_of_disjoint (required user : List String) (hne : required ≠ [])
    (hd : ∀ r, r ∈ required → r ∉ user) : hasAccess required user = false := by
  cases h : hasAccess required user with
  | false => rfl
  | true =>
    rcases (hasAccess_iff required user).mp h with e | ⟨r, hr, hu⟩
    · exact absurd e hne
    · exact absurd hu (hd r hr)

theorem guarded_forbidden (l : List Res) (id : String) (user : List String) (res : Res)
    (hf : find l id = some res) (ha : hasAccess res.required user = false) :
    guarded l id user = .forbidden res.required := by
  simp [guarded, hf, ha]

theorem guarded_pass (l : List Res) (id : String) (user : List String) (res : Res)
    (hf : find l id = some res) (ha : hasAccess res.required user = true) :
    guarded l id user = .pass := by
  simp [guarded, hf, ha]

theorem guarded_notFound (l : List Res) (id : String) (user : List String)
    (hf : find l id = none) : guarded l id user = .notFound := by
  simp [guarded, hf]

theorem mem_visible (user : List String) (l : List Res) (r : Res) :
    r ∈ visible user l ↔ r ∈ l ∧ hasAccess r.required user = true := by
  simp [visible]

/-! ### histories -/


def rolesOf (s : AState) (u : String) : Option (List String) := (findU s.online u).map (·.roles)

theorem findU_setRoles (u : String) (roles : List String) (l : List UnitSt) (v : String) :
    (findU (setRoles u roles l) v).map (·.roles) =
      if v = u then (findU l v).map (fun _ => roles) else (findU l v).map (·.roles) := by
  induction l with
  | nil => simp [findU, setRoles]
  | cons x rest ih =>
    simp only [setRoles, List.map_cons] at ih ⊢
    by_cases hx : x.id = u
    · by_cases hv : v = u
      · subst hv; simp [findU, hx]
      · have : ¬ u = v := fun e => hv e.symm
        have hxv : ¬ x.id = v := fun e => hv (e ▸ hx)
        simp only [hx, if_true, findU, this, hxv, if_false, hv] at ih ⊢
        exact ih
    · by_cases hxv : x.id = v
      · have hv : ¬ v = u := fun e => hx (hxv.trans e)
        simp [findU, hx, hxv, hv]
      · simp only [hx, if_false, findU, hxv]
        exact ih

theorem findU_setRun (u : String) (run : Option String) (l : List UnitSt) (v : String) :
    (findU (setRun u run l) v).map (·.roles) = (findU l v).map (·.roles) := by
  induction l with
  | nil => simp [findU, setRun]
  | cons x rest ih =>
    simp only [setRun, List.map_cons] at ih ⊢
    by_cases hx : x.id = u
    · by_cases hxv : x.id = v
      · have : u = v := hx ▸ hxv
        simp [findU, hx, hxv, this]
      · have : ¬ u = v := fun e => hxv (hx.trans e)
        simp only [hx, if_true, findU, this, hxv, if_false]
        exact ih
    · by_cases hxv : x.id = v
      · have hvu : ¬ v = u := fun e => hx (hxv.trans e)
        simp [findU, hxv, hvu]
      · simp only [hx, if_false, findU, hxv]
        exact ih

theorem findU_append (l : List UnitSt) (x : UnitSt) (v : String) :
    findU (l ++ [x]) v = (findU l v).or (if x.id = v then some x else none) := by
  induction l with
  | nil => simp [findU]
  | cons y rest ih =>
    simp only [List.cons_append, findU]
    by_cases hy : y.id = v
    · simp [hy]
    · simp [hy, ih]

theorem findU_filter (l : List UnitSt) (u v : String) :
    findU (l.filter (fun y => y.id ≠ u)) v = if v = u then none else findU l v := by
  induction l with
  | nil => simp [findU]
  | cons x rest ih =>
    simp only [List.filter_cons]
    by_cases hx : x.id = u
    · simp only [hx, ne_eq, not_true_eq_false, decide_false, Bool.false_eq_true, if_false, findU]
      by_cases hv : v = u
      · simpa [hv] using ih
      · have : ¬ u = v := fun e => hv e.symm
        simp only [hv, if_false, this] at ih ⊢
        exact ih
    · simp only [ne_eq, hx, not_false_eq_true, decide_true, if_true, findU]
      by_cases hxv : x.id = v
      · have hv : ¬ v = u := fun e => hx (hxv.trans e)
        simp [hxv, hv]
      · simp only [hxv, if_false]
        exact ih

/-- one step keeps the model's roles in line with the specification -/
theorem step_agrees (s : AState) (m : String → Option (List String)) (e : Event)
    (h : ∀ v, rolesOf s v = m v) : ∀ v, rolesOf (step s e) v = specStep m e v := by
  intro v
  cases e with
  | connect u roles =>
    simp only [step, specStep]
    cases hf : findU s.online u with
    | some x =>
      simp only [rolesOf, findU_setRoles]
      by_cases hv : v = u
      · subst hv; simp [hf]
      · simp [hv, ← h v, rolesOf]
    | none =>
      simp only [rolesOf, findU_append]
      by_cases hv : v = u
      · subst hv; simp [hf]
      · have : ¬ u = v := fun e => hv e.symm
        simp [hv, this, ← h v, rolesOf]
  | uodInfo u roles =>
    simp only [step, specStep, rolesOf, findU_setRoles]
    by_cases hv : v = u
    · subst hv
      have := h v
      simp only [rolesOf] at this
      cases hf : findU s.online v with
      | some x => simp [hf] at this; simp [hf, ← this]
      | none => simp [hf] at this; simp [hf, ← this]
    · simp [hv, ← h v, rolesOf]
  | runStarted u r =>
    simp only [step, specStep]
    split
    · exact h v
    · split
      · simp only [rolesOf, findU_setRun]; exact h v
      · split
        · exact h v
        · simp only [rolesOf, findU_setRun]; exact h v
  | runStopped u r =>
    simp only [step, specStep]
    split
    · exact h v
    · split
      · exact h v
      · simp only [rolesOf, findU_setRun]; exact h v
  | disconnect u =>
    simp only [step, specStep]
    cases hf : findU s.online u with
    | none =>
      by_cases hv : v = u
      · subst hv; simp [rolesOf, hf]
      · simp [hv, ← h v]
    | some x =>
      simp only [rolesOf, findU_filter]
      by_cases hv : v = u
      · simp [hv]
      · simp [hv, ← h v, rolesOf]

theorem foldl_agrees (h : List Event) : ∀ (s : AState) (m : String → Option (List String)),
    (∀ v, rolesOf s v = m v) → ∀ v, rolesOf (h.foldl step s) v = h.foldl specStep m v := by
  induction h with
  | nil => intro s m hm; exact hm
  | cons e rest ih => intro s m hm; exact ih (step s e) (specStep m e) (step_agrees s m e hm)

theorem find_worldOf_units (s : AState) (u : String) :
    find (worldOf s).units u = (findU s.online u).map (fun x => ⟨x.id, x.roles⟩) := by
  simp only [worldOf]
  induction s.online with
  | nil => simp [find, findU]
  | cons x rest ih =>
    simp only [List.map_cons, find, findU]
    by_cases hx : x.id = u <;> simp [hx, ih]


theorem findU_id (l : List UnitSt) (u : String) (x : UnitSt) (h : findU l u = some x) : x.id = u := by
  induction l with
  | nil => simp [findU] at h
  | cons y rest ih =>
    simp only [findU] at h
    by_cases hy : y.id = u
    · simp [hy] at h; rw [← h]; exact hy
    · simp [hy] at h; exact ih h

end OPM.Access
