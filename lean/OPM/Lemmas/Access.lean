import OPM.Model.Access
/-! Helper lemmas for C32. -/
namespace OPM.Access

theorem hasAccess_iff (required user : List String) :
    hasAccess required user = true ↔ required = [] ∨ ∃ r, r ∈ required ∧ r ∈ user := by
  unfold hasAccess
  cases required with
  | nil => simp
  | cons a rest => simp [List.any_eq_true]

theorem hasAccess_nil (user : List String) : hasAccess [] user = true := by simp [hasAccess]

theorem hasAccess_false_of_disjoint (required user : List String) (hne : required ≠ [])
    (hd : ∀ r, r ∈ required → r ∉ user) : hasAccess required user = false := by
  cases h : hasAccess required user with
  | false => rfl
  | true =>
    rcases (hasAccess_iff required user).mp h with e | ⟨r, hr, hu⟩
    · exact absurd e hne
    · exact absurd hu (hd r hr)

theorem guarded_forbidden (l : List Res) (id : String) (user : List String) (res : Res)
    (hf : find l id = some res) (ha : hasAccess res.required user = false) :
    guarded l id user = .forbidden res.required := by
  simp [guarded, hf, ha]

theorem guarded_pass (l : List Res) (id : String) (user : List String) (res : Res)
    (hf : find l id = some res) (ha : hasAccess res.required user = true) :
    guarded l id user = .pass := by
  simp [guarded, hf, ha]

theorem guarded_notFound (l : List Res) (id : String) (user : List String)
    (hf : find l id = none) : guarded l id user = .notFound := by
  simp [guarded, hf]

theorem mem_visible (user : List String) (l : List Res) (r : Res) :
    r ∈ visible user l ↔ r ∈ l ∧ hasAccess r.required user = true := by
  simp [visible]

end OPM.Access
