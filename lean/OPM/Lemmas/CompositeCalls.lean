import OPM.Model.Composite
import OPM.Lemmas.Composite
/-!
Implementation notes for C25 — HOW `Composite_Hardware` calls its layers (one `read_batch` / `write_batch`
per layer, layers in first-appearance order, a duplicated register asked/written twice).  The property does
not demand this call pattern; the statements here describe the code as it is and are used to derive the
property statements in `OPM.Properties.C25` (same values, same per-layer order of written values).
-/
namespace OPM.Composite

variable {V : Type}

/-- facts about the grouping used by both batch operations -/
theorem grouping (cfg : Cfg) (lay : RegId → Layer) (regs : List RegId)
    (hl : ∀ r ∈ regs, cfg.layerOf r = some (lay r)) :
    ∃ gs, groupsFrom cfg [] regs = some gs ∧ (layers gs).Nodup ∧
      (∀ g ∈ gs, g.2 = regs.filter (fun r => lay r = g.1) ∧ g.2 ≠ []) ∧
      (∀ r ∈ regs, ∃ g ∈ gs, g.1 = lay r ∧ r ∈ g.2) := by
  obtain ⟨gs, h1, h2, h3⟩ := groupsFrom_spec cfg lay regs hl [] ⟨by simp [layers], by simp⟩
  refine ⟨gs, h1, h2.1, ?_, ?_⟩
  · intro g hg
    have := mem_find gs h2.1 g hg
    rw [h3 g.1] at this
    exact ⟨by simpa [find] using this.symm, h2.2 g hg⟩
  · intro r hr
    have hne : find gs (lay r) ≠ [] := by
      rw [h3]; simp only [find, List.nil_append]
      intro h
      have : r ∈ regs.filter (fun r' => lay r' = lay r) := by simp [hr]
      rw [h] at this; cases this
    refine ⟨(lay r, find gs (lay r)), find_mem gs (lay r) hne, rfl, ?_⟩
    rw [h3]; simp [find, hr]


/-- … and each layer involved is asked exactly once, for exactly its registers, in request order. -/
theorem readBatch_calls (cfg : Cfg) (m : Mem V) (lay : RegId → Layer) (regs : List RegId)
    (hl : ∀ r ∈ regs, cfg.layerOf r = some (lay r)) (hf : ∀ r ∈ regs, cfg.failing (lay r) = false) :
    ((readBatch cfg m regs).calls.map (·.layer)).Nodup ∧
    (∀ c ∈ (readBatch cfg m regs).calls, c.regs = regs.filter (fun r => lay r = c.layer) ∧ c.regs ≠ []) ∧
    (∀ r ∈ regs, lay r ∈ (readBatch cfg m regs).calls.map (·.layer)) := by
  obtain ⟨gs, h1, h2, h3, h4⟩ := grouping cfg lay regs hl
  have hmem : ∀ g ∈ gs, ∀ r ∈ g.2, r ∈ regs ∧ lay r = g.1 := by
    intro g hg r hr
    rw [(h3 g hg).1] at hr
    simpa using hr
  have hfg : ∀ g ∈ gs, cfg.failing g.1 = false := by
    intro g hg
    obtain ⟨r, hr⟩ := List.exists_mem_of_ne_nil _ (h3 g hg).2
    have := hmem g hg r hr
    rw [← this.2]; exact hf r this.1
  obtain ⟨d', hd1, hd2⟩ := readGo_spec cfg m lay gs hfg (fun g hg r hr => (hmem g hg r hr).2) (fun _ => none) []
  have hseq : sequence (regs.map d') = some (regs.map (fun r => m (lay r) r)) := by
    apply sequence_map_some
    intro r hr
    obtain ⟨g, hg, _, hrg⟩ := h4 r hr
    rw [hd2 r, if_pos ⟨g, hg, hrg⟩]
  have hc : (readBatch cfg m regs).calls = gs.map callOfRead := by simp [readBatch, h1, hd1, hseq]
  rw [hc]
  refine ⟨?_, ?_, ?_⟩
  · simpa [layers, callOfRead, Function.comp_def] using h2
  · intro c hc
    obtain ⟨g, hg, rfl⟩ := List.mem_map.mp hc
    exact h3 g hg
  · intro r hr
    obtain ⟨g, hg, hgl, _⟩ := h4 r hr
    exact List.mem_map.mpr ⟨callOfRead g, List.mem_map_of_mem hg, by simp [callOfRead, hgl]⟩


/-- what the write loop leaves in memory, in terms of the last value per register -/
theorem writeBatch_mem (cfg : Cfg) (m : Mem V) (lay : RegId → Layer) (vals : List V) (regs : List RegId)
    (hl : ∀ e ∈ pairs vals regs, cfg.layerOf e.1 = some (lay e.1))
    (hf : ∀ e ∈ pairs vals regs, cfg.failing (lay e.1) = false) :
    (writeBatch cfg m vals regs).res = .unit ∧
    (∀ l r, (writeBatch cfg m vals regs).mem l r =
      match lastV (pairs vals regs) r with
      | some v => if lay r = l then v else m l r
      | none => m l r) ∧
    ((writeBatch cfg m vals regs).calls.map (·.layer)).Nodup ∧
    (∀ c ∈ (writeBatch cfg m vals regs).calls,
      c.regs = ((pairs vals regs).map (·.1)).filter (fun r => lay r = c.layer) ∧ c.regs ≠ [] ∧
      c.vals.map some = c.regs.map (lastV (pairs vals regs))) ∧
    (∀ e ∈ pairs vals regs, lay e.1 ∈ (writeBatch cfg m vals regs).calls.map (·.layer)) := by
  generalize hps : pairs vals regs = ps at hl hf
  cases ps with
  | nil => simp [writeBatch, hps, groupsFrom, writeGo, lastV]
  | cons p0 ps' =>
    let ps := p0 :: ps'
    let f : RegId → V := fun r => (lastV ps r).getD p0.2
    have hl' : ∀ r ∈ ps.map (·.1), cfg.layerOf r = some (lay r) := by
      intro r hr; obtain ⟨e, he, rfl⟩ := List.mem_map.mp hr; exact hl e he
    obtain ⟨gs, h1, hnd, h3, h4⟩ := grouping cfg lay (ps.map (·.1)) hl'
    have hmem : ∀ g ∈ gs, ∀ r ∈ g.2, r ∈ ps.map (·.1) ∧ lay r = g.1 := by
      intro g hg r hr
      rw [(h3 g hg).1] at hr
      simpa using hr
    have hfg : ∀ g ∈ gs, cfg.failing g.1 = false := by
      intro g hg
      obtain ⟨r, hr⟩ := List.exists_mem_of_ne_nil _ (h3 g hg).2
      have := hmem g hg r hr
      obtain ⟨e, he, hre⟩ := List.mem_map.mp this.1
      rw [← this.2, ← hre]; exact hf e he
    have hwv : ∀ k, (ps.foldl (fun d e => dset d e.1 e.2) (fun _ => none)) k = lastV ps k := by
      intro k; rw [wv_fold]; cases lastV ps k <;> rfl
    have hv : ∀ g ∈ gs, ∀ r ∈ g.2, (ps.foldl (fun d e => dset d e.1 e.2) (fun _ => none)) r = some (f r) := by
      intro g hg r hr
      rw [hwv]
      have := (lastV_isSome ps r).mpr (hmem g hg r hr).1
      cases h : lastV ps r with
      | none => rw [h] at this; cases this
      | some v => simp [f, h]
    obtain ⟨m', hm1, hm2⟩ := writeGo_spec cfg _ f gs hfg hv m []
    have hres : writeBatch cfg m vals regs = ⟨.unit, [] ++ gs.map (callOfWrite f), m'⟩ := by
      simp only [writeBatch, hps]
      rw [h1]; simp only; rw [hm1]
    rw [hres]
    refine ⟨rfl, ?mem, ?nd, ?calls, ?cover⟩
    case nd => simpa [layers, callOfWrite, Function.comp_def] using hnd
    case cover =>
      intro e he
      obtain ⟨g, hg, hgl, _⟩ := h4 e.1 (List.mem_map_of_mem (f := fun e => e.1) he)
      exact List.mem_map.mpr ⟨callOfWrite f g, List.mem_map_of_mem hg, by simp [callOfWrite, hgl]⟩
    case calls =>
      intro c hc
      obtain ⟨g, hg, rfl⟩ := List.mem_map.mp hc
      refine ⟨(h3 g hg).1, (h3 g hg).2, ?_⟩
      simp only [callOfWrite, List.map_map]
      apply List.map_congr_left
      intro r hr
      have := hv g hg r hr
      rw [hwv] at this
      exact this.symm
    intro l r
    simp only
    rw [hm2 l r]
    cases h : lastV ps r with
    | none =>
      have hnot : ¬ r ∈ ps.map (·.1) := by
        intro hr; have := (lastV_isSome ps r).mpr hr; rw [h] at this; cases this
      have : ¬ ∃ g ∈ gs, g.1 = l ∧ r ∈ g.2 := by
        rintro ⟨g, hg, _, hr⟩; exact hnot (hmem g hg r hr).1
      rw [if_neg this]
    | some v =>
      have hr : r ∈ ps.map (·.1) := (lastV_isSome ps r).mp (by rw [h]; rfl)
      have hfr : f r = v := by simp [f, h]
      simp only
      by_cases hlr : lay r = l
      · obtain ⟨g, hg, hgl, hrg⟩ := h4 r hr
        rw [if_pos ⟨g, hg, hgl.trans hlr, hrg⟩, if_pos hlr, hfr]
      · have : ¬ ∃ g ∈ gs, g.1 = l ∧ r ∈ g.2 := by
          rintro ⟨g, hg, hgl, hr'⟩; exact hlr ((hmem g hg r hr').2.trans hgl)
        rw [if_neg this, if_neg hlr]


theorem map_some_inj : ∀ (a b : List V), a.map some = b.map some → a = b
  | [], [], _ => rfl
  | [], _ :: _, h => by simp at h
  | _ :: _, [], h => by simp at h
  | x :: a, y :: b, h => by
    simp only [List.map_cons, List.cons.injEq, Option.some.injEq] at h
    rw [h.1, map_some_inj a b h.2]

theorem lastV_nodup (ps : List (RegId × V)) (hnd : (ps.map (·.1)).Nodup) : ∀ e ∈ ps, lastV ps e.1 = some e.2 := by
  induction ps with
  | nil => intro e he; cases he
  | cons a ps ih =>
    simp only [List.map_cons, List.nodup_cons] at hnd
    intro e he
    rcases List.mem_cons.mp he with h | h
    · have hn : lastV ps a.1 = none := by
        cases hx : lastV ps a.1 with
        | none => rfl
        | some v => exact absurd ((lastV_isSome ps a.1).mp (by rw [hx]; rfl)) hnd.1
      rw [h]; simp [lastV, hn]
    · simp [lastV, ih hnd.2 e h]

/-- … and, when a batch names each register once, every layer receives exactly one batch: its own
    registers with their values, in request order — the same sequence single writes would deliver to it. -/
theorem writeBatch_calls (cfg : Cfg) (m : Mem V) (lay : RegId → Layer) (vals : List V) (regs : List RegId)
    (hl : ∀ e ∈ pairs vals regs, cfg.layerOf e.1 = some (lay e.1))
    (hf : ∀ e ∈ pairs vals regs, cfg.failing (lay e.1) = false)
    (hnd : ((pairs vals regs).map (·.1)).Nodup) :
    ((writeBatch cfg m vals regs).calls.map (·.layer)).Nodup ∧
    (∀ e ∈ pairs vals regs, lay e.1 ∈ (writeBatch cfg m vals regs).calls.map (·.layer)) ∧
    ∀ c ∈ (writeBatch cfg m vals regs).calls,
      c.regs = ((pairs vals regs).filter (fun e => lay e.1 = c.layer)).map (·.1) ∧
      c.vals = ((pairs vals regs).filter (fun e => lay e.1 = c.layer)).map (·.2) := by
  obtain ⟨_, _, h3, h4, h5⟩ := writeBatch_mem cfg m lay vals regs hl hf
  refine ⟨h3, h5, ?_⟩
  · intro c hc
    obtain ⟨hr, _, hv⟩ := h4 c hc
    have hregs : c.regs = ((pairs vals regs).filter (fun e => lay e.1 = c.layer)).map (·.1) := by
      rw [hr, List.filter_map]; rfl
    refine ⟨hregs, ?_⟩
    apply map_some_inj
    rw [hv, hregs, List.map_map, List.map_map]
    apply List.map_congr_left
    intro e he
    exact lastV_nodup _ hnd e ((List.mem_filter.mp he).1)

end OPM.Composite
