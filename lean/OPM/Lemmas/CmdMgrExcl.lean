import OPM.Lemmas.CmdMgrTick
/-!
Exclusivity of the exec callbacks of one whole tick (UOD requests before and after the lifecycle request).
-/
namespace OPM.CmdMgr

@[simp] theorem finish_events (s : State) (b : Bool) : (finish s b).events = s.events := by
  unfold finish
  cases s.resetTo <;> cases b <;> simp [commit]

theorem exclP_of_noexec (cfg : Cfg) (evs : List Ev) (h : execsOf evs = []) : ExclP cfg evs := by
  intro a ha; rw [h] at ha; cases ha

/-- Events of the lifecycle step and of the loop over the rest of the snapshot. -/
theorem life_events {s0 s1 : State} {pre post : List Req} {l : Req} (p : PreLife s0 s1 pre post l)
    (ns : List Nat)
    (hguard : ∀ n ∈ ns, ∀ c ∈ post, c.id ∉ s1.done → ∀ j, c.name = .uod j → conflict s0.cfg j n = false) :
    ∃ evs, (loop post (executeLife s1 l)).1.events = s1.events ++ evs ∧ ExclP s0.cfg evs ∧
      (∀ q ∈ execsOf evs, ∀ n ∈ ns, conflict s0.cfg q.2 n = false) := by
  obtain ⟨v1, v2, v3, v4, v5, v6, v7, v8, v9, v10, v11, v12, v13, v14, v15, v16, v17⟩ := view_eq p.view
  -- (a) the command ends at once: the loop goes on over `post`
  have noop : ∀ sN : State, sN.objs = s1.objs → sN.events = s1.events → sN.executing = s1.executing →
      sN.done = s1.done → sN.cfg = s1.cfg → sN.track = s1.track → sN.tracking = s1.tracking →
      ∃ evs, (loop post (markDone sN l)).1.events = s1.events ++ evs ∧ ExclP s0.cfg evs ∧
        (∀ q ∈ execsOf evs, ∀ n ∈ ns, conflict s0.cfg q.2 n = false) := by
    intro sN h1 h2 h3 h4 h5 h6 h7
    have hcoreN : Core (markDone sN l) := by
      apply p.core.congr (by simp [h1]) (by simp [h2]) (by simp [h3]) (by simp [h5])
      intro r hr hu hd
      rw [markDone_done_mem, h4] at hd
      rcases hd with hd | ⟨e, _⟩
      · exact hd
      · have : r = l := req_id_inj p.core.ids hr (by rw [p.ex1]; exact p.lmem) e
        subst this
        rw [p.lu] at hu; cases hu
    have htrN : TrackEx (markDone sN l) := by
      intro ht r hr hu
      simp only [markDone_tracking, markDone_executing, markDone_track] at ht hr ⊢
      rw [h6]; exact p.trackEx1 (by rw [← h7]; exact ht) r (by rw [← h3]; exact hr) hu
    have q := loop_uod_spec post ns hcoreN (by simp [h5, p.fix1]) htrN
      (fun r hr => ⟨by simp [h3, p.ex1, p.postmem r hr], p.upost r hr⟩) p.postNodup
      (by
        intro n hn c hc hcd j hj
        simp only [markDone_cfg, h5, p.cfg1]
        apply hguard n hn c hc _ j hj
        intro hh; apply hcd; rw [markDone_done_mem, h4]; exact Or.inl hh)
    obtain ⟨evs, e1, e2, e3, _⟩ := q.evs
    simp only [markDone_cfg, h5, p.cfg1, markDone_events, h2] at e1 e2 e3
    exact ⟨evs, e1, e2, e3⟩
  -- (b) first phase of Stop / Restart: finalize callbacks only
  have cancelA : ∀ (n : Name) (sA : State), l.name = n → (n = .stop ∨ n = .restart) → sA.objs = s1.objs →
      sA.events = s1.events → sA.executing = s1.executing → sA.done = s1.done → sA.cfg = s1.cfg →
      sA.track = s1.track → sA.tracking = s1.tracking →
      ∃ evs, (loop post { cancelAll n sA.executing sA with resident := some ⟨n, 1⟩ }).1.events = s1.events ++ evs ∧
        ExclP s0.cfg evs ∧ (∀ q ∈ execsOf evs, ∀ n ∈ ns, conflict s0.cfg q.2 n = false) := by
    intro n sA hn hn' hobjs hev hex hdone hcfg htr htk
    have hcoreA : Core sA := p.core.congr hobjs hev hex hcfg (fun _ _ _ hd => by rw [hdone] at hd; exact hd)
    have htrA : TrackEx sA := by
      intro ht r hr hu
      rw [htr]; exact p.trackEx1 (by rw [← htk]; exact ht) r (by rw [← hex]; exact hr) hu
    have pp := cancelWhere_spec (fun c => !(c.name == n)) false sA.executing hcoreA (by rw [hcfg]; exact p.fix1) htrA
      (fun c hc => hc)
    rw [← cancelAll_eq] at pp
    generalize cancelAll n sA.executing sA = sC at *
    have hnlife : ∀ c : Req, c.isUod = true → (!(c.name == n)) = true := by
      intro c hc
      rcases hn' with rfl | rfl <;> cases hcn : c.name <;> simp_all [Req.isUod]
    have hall : ∀ c ∈ s0.executing, c.isUod = true → c.id ∈ sC.done :=
      fun c hc hu => pp.allDone c (by rw [hex, v2]; exact hc) (hnlife c hu) hu
    have hloop : loop post { sC with resident := some ⟨n, 1⟩ } = ({ sC with resident := some ⟨n, 1⟩ }, false) :=
      loop_all_done _ _ (fun r hr => hall r (p.postmem r hr) (p.upost r hr))
    rw [hloop]
    obtain ⟨evs, e1, e2⟩ := pp.evs
    have hx := execsOf_finals evs e2
    refine ⟨evs, by show sC.events = _; rw [e1, hev], exclP_of_noexec _ _ hx, ?_⟩
    intro q hq; rw [hx] at hq; cases hq
  -- (c) the snapshot is the lifecycle request alone: no callback at all
  have alone : ∀ X : State, X.events = s1.events → post = [] →
      ∃ evs, (loop post X).1.events = s1.events ++ evs ∧ ExclP s0.cfg evs ∧
        (∀ q ∈ execsOf evs, ∀ n ∈ ns, conflict s0.cfg q.2 n = false) := by
    intro X hX hp
    subst hp
    exact ⟨[], by simp [loop, hX], exclP_of_noexec _ _ rfl, by intro q hq; cases hq⟩
  cases hres : s0.resident with
  | none =>
    have hres1 : s1.resident = none := by rw [v4]; exact hres
    cases hn : l.name with
    | uod k => have := p.lu; simp [Req.isUod, hn] at this
    | start =>
      cases hst : s1.started with
      | true => rw [executeLife_start_started hres1 hn hst]; exact noop s1 rfl rfl rfl rfl rfl rfl rfl
      | false =>
        rw [executeLife_start_fresh hres1 hn hst]
        obtain ⟨_, hp2⟩ := p.alone (fun r hr => p.g0.life.idle (by rw [← v7]; exact hst) r
          (List.mem_append_right _ hr))
        exact alone _ (by simp [lifeDone, beginRun]) hp2
    | stop =>
      by_cases hsys : s1.sys = .running
      · rw [executeLife_stop_run hres1 hn hsys]
        exact cancelA .stop { s1 with resident := some ⟨.stop, 0⟩, stopping := true } hn (Or.inl rfl)
          rfl rfl rfl rfl rfl rfl rfl
      · rw [executeLife_stop_idle hres1 hn hsys]; exact noop s1 rfl rfl rfl rfl rfl rfl rfl
    | restart =>
      by_cases hsys : s1.sys = .running
      · rw [executeLife_restart_run hres1 hn hsys]
        exact cancelA .restart
          { s1 with restartPending := some l, resident := some ⟨.restart, 0⟩, stopping := true, sys := .restarting }
          hn (Or.inr rfl) rfl rfl rfl rfl rfl rfl rfl
      · rw [executeLife_restart_idle hres1 hn hsys]; exact noop _ rfl rfl rfl rfl rfl rfl rfl
  | some ρ =>
    have hr := p.g0.life.res
    rw [hres] at hr
    obtain ⟨hcases, _, ⟨r, hrm, hrn⟩, h1, h2⟩ := hr
    have hru : r.isUod = false := by rcases hcases with rfl | rfl | rfl <;> simp_all [Req.isUod]
    have hrl : r = l := p.life_unique r hrm hru
    subst hrl
    have hno : noUod s0.executing := by
      rcases hcases with rfl | rfl | rfl
      · exact (h1 rfl).2.1
      · exact (h1 rfl).2.1
      · exact fun x hx => p.g0.life.idle (h2 rfl).2 x (List.mem_append_right _ hx)
    obtain ⟨hp1, hp2⟩ := p.alone hno
    have hres1 : s1.resident = some ρ := by rw [v4]; exact hres
    have hex1 : s1.executing = [r] := by rw [p.ex1, p.ex, hp1, hp2]; rfl
    rcases hcases with rfl | rfl | rfl
    · rw [executeLife_stop_end hres1 hrn hex1]; exact alone _ (by simp [lifeDone, endRun]) hp2
    · rw [executeLife_restart_end hres1 hrn hex1]; exact alone _ (by simp [endRun]) hp2
    · rw [executeLife_restart_begin hres1 hrn]; exact alone _ (by simp [lifeDone, beginRun]) hp2

theorem exclP_append {cfg : Cfg} {a b : List Ev} (ha : ExclP cfg a) (hb : ExclP cfg b)
    (hab : ∀ q ∈ execsOf b, ∀ p ∈ execsOf a, conflict cfg q.2 p.2 = false) : ExclP cfg (a ++ b) := by
  intro x hx y hy
  rw [execsOf_append] at hx hy
  rcases List.mem_append.mp hx with hx | hx <;> rcases List.mem_append.mp hy with hy | hy
  · exact ha x hx y hy
  · right; rw [conflict_symm]; exact hab y hy x hx
  · right; exact hab x hx y hy
  · exact hb x hx y hy

/-- In one tick no two different instances with the same or overlapping names execute. -/
theorem tick_exclusive {s : State} (g : Good s) :
    ∃ evs, (tick s).1.events = s.events ++ evs ∧ ExclP s.cfg evs := by
  have g0 := good_merged g
  unfold tick
  simp only [finish_events]
  have hev0 : (merged s).events = s.events := rfl
  have hcfg0 : (merged s).cfg = s.cfg := rfl
  rw [← hev0, ← hcfg0]
  generalize hs0 : merged s = s0 at *
  have hd0 : s0.done = [] := by rw [← hs0]; rfl
  have hq0 : s0.queue = [] := by rw [← hs0]; rfl
  rcases split_life g0 with hall | ⟨pre, l, post, he, hlu, hpre, hpost⟩
  · have q := loop_uod_spec s0.executing [] g0.core g0.fix g0.trackEx (fun r hr => ⟨hr, hall r hr⟩) g0.core.ids
      (by simp)
    obtain ⟨evs, e1, e2, _, _⟩ := q.evs
    exact ⟨evs, e1, e2⟩
  · rw [he, loop_append]
    have hnd := g0.core.ids
    rw [he] at hnd
    simp only [List.map_append, List.map_cons] at hnd
    rw [List.nodup_append] at hnd
    have q1 := loop_uod_spec pre [] g0.core g0.fix g0.trackEx
      (fun r hr => ⟨by rw [he]; exact List.mem_append_left _ hr, hpre r hr⟩) hnd.1 (by simp)
    have hdo : ∀ i, i ∈ (loop pre s0).1.done → ∃ c ∈ s0.executing, c.isUod = true ∧ c.id = i := by
      intro i hi
      rcases q1.doneOnly i hi with h0 | h1
      · rw [hd0] at h0; cases h0
      · exact h1
    have p : PreLife s0 (loop pre s0).1 pre post l :=
      ⟨g0, hq0, hd0, he, hlu, hpre, hpost, q1.core, q1.view, hdo⟩
    obtain ⟨e1, he1, hx1, _, hout⟩ := q1.evs
    cases hl1 : loop pre s0 with
    | mk s1 r1 =>
      rw [hl1] at p he1 hout
      simp only at p he1 hout
      cases r1 with
      | true => exact ⟨e1, he1, hx1⟩
      | false =>
        simp only [loop]
        rw [if_neg (by rw [isDone_iff]; exact p.lnotdone)]
        have hx : executeReq s1 l = (executeLife s1 l, false) := by
          unfold executeReq
          cases hn : l.name with
          | uod k => have := hlu; simp [Req.isUod, hn] at this
          | start => rfl
          | stop => rfl
          | restart => rfl
        rw [hx]
        simp only
        -- requests after the lifecycle request do not conflict with what executed before it
        have hpostnot : ∀ c ∈ post, c ∉ pre := by
          intro c hc hcp
          have := hnd.2.2 c.id (List.mem_map_of_mem hcp) c.id (List.mem_cons_of_mem _ (List.mem_map_of_mem hc))
          exact this rfl
        obtain ⟨e2, he2, hx2, hcross⟩ := life_events p ((execsOf e1).map (·.2)) (by
          intro n hn c hc hcd j hj
          obtain ⟨q, hq, rfl⟩ := List.mem_map.mp hn
          exact hout q hq c (p.postmem c hc) (hpostnot c hc) hcd j hj)
        refine ⟨e1 ++ e2, by rw [he2, he1, List.append_assoc], exclP_append hx1 hx2 ?_⟩
        intro q hq p' hp'
        exact hcross q hq p'.2 (List.mem_map_of_mem hp')

end OPM.CmdMgr
