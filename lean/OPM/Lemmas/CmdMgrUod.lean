import OPM.Lemmas.CmdMgrExec
/-!
`_execute_uod_command` under the object invariant: what one request does in one tick (`executeUod_spec`).
-/
namespace OPM.CmdMgr

theorem execsOf_append (a b : List Ev) : execsOf (a ++ b) = execsOf a ++ execsOf b := by
  simp [execsOf, List.filterMap_append]

theorem execsOf_finals (evs : List Ev) (h : ∀ e ∈ evs, ∃ ser, e = Ev.final ser) : execsOf evs = [] := by
  simp only [execsOf, List.filterMap_eq_nil_iff]
  intro e he
  obtain ⟨ser, rfl⟩ := h e he
  rfl

/-- What the clean-up of a live instance (failure path or completion) leaves behind. -/
structure TailPost (s s' : State) (r : Req) : Prop where
  core : Core s'
  view : view s' = view s
  done : ∀ i, i ∈ s'.done ↔ i ∈ s.done ∨ i = r.id
  evs : ∃ evs, s'.events = s.events ++ evs ∧ execsOf evs = []

theorem execFailed_spec {s : State} (h : Core s) (hfix : s.cfg.fixCancel = true) (htr : TrackEx s)
    {r : Req} {k : Nat} (hr : r ∈ s.executing) (hk : r.name = .uod k) {o : Cmd} (ho : o ∈ s.objs)
    (_hm : o.inMap = true) (hcan : o.cancelled = false) :
    TailPost s (execFailed s r k o.serial) r := by
  unfold execFailed
  rw [getObj_of_mem h.serials ho]
  simp only [hcan, Bool.not_false, if_true]
  have q := cancelCommand_spec h hfix hr hk (fun ht => htr ht r hr (by simp [Req.isUod, hk]))
  obtain ⟨evs, he1, he2⟩ := q.evs
  cases hmf : markFailed (cancelCommand s r) r.id with
  | none =>
    simp only [Option.getD_none]
    exact ⟨q.core, q.view, q.done, evs, he1, execsOf_finals evs he2⟩
  | some s2 =>
    simp only [Option.getD_some]
    obtain ⟨hv, hobjs, hev, hdone⟩ := markFailed_frame _ s2 r.id hmf
    obtain ⟨_, hex, _, _, _, _, _, _, _, _, _, _, _, _, _, hcfg, _⟩ := view_eq hv
    refine ⟨?_, by rw [hv, q.view], ?_, evs, by rw [hev, he1], execsOf_finals evs he2⟩
    · apply q.core.congr hobjs hev hex hcfg
      intro o' ho' hm'
      rw [hdone]
      obtain ⟨_, _, _, q', _, h1, _, h3⟩ := q.core.live o' ho' hm'
      rw [← h1]; exact h3
    · intro i; rw [hdone]; exact q.done i

theorem complete_spec {s s4 : State} (h : Core s) {r : Req} {k : Nat} (hr : r ∈ s.executing)
    (hk : r.name = .uod k) {o : Cmd} (ho : o ∈ s.objs) (hm : o.inMap = true) (hn : o.name = k)
    (hmk : markCompleted s r.id = some s4) :
    TailPost s (finalizeCommand s4 r o) r := by
  obtain ⟨hv, hobjs, hev, hdone⟩ := markCompleted_frame _ s4 r.id hmk
  obtain ⟨_, hex, _, _, _, _, _, _, _, _, _, _, _, _, _, hcfg, _⟩ := view_eq hv
  refine ⟨h.kill false ho hm hr (by rw [hk, hn]) (by rw [hobjs]; simp [modObj]) hev hex hdone hcfg,
    by rw [view_finalizeCommand, hv], ?_, [.final o.serial], by simp [finalizeCommand, hev], rfl⟩
  intro i
  simp only [finalizeCommand]
  rw [markDone_done_mem]
  simp only [finalizeObj_done, finalizeObj_executing, hdone, hex]
  constructor
  · rintro (hd | ⟨e, _⟩)
    · exact Or.inl hd
    · exact Or.inr e
  · rintro (hd | e)
    · exact Or.inl hd
    · exact Or.inr ⟨e, r, hr, rfl⟩



/-- Result of the steps that follow the look-up of the instance. -/
structure RunPost (s s' : State) (r : Req) (k : Nat) : Prop where
  core : Core s'
  view : view s' = view s
  doneGrow : ∀ i, i ∈ s.done → i ∈ s'.done
  doneOnly : ∀ i, i ∈ s'.done → i ∈ s.done ∨ i = r.id
  evs : ∃ evs, s'.events = s.events ++ evs ∧ (execsOf evs = [] ∨ ∃ ser, execsOf evs = [(ser, k)])

/-- The same without an exec callback. -/
structure QuietPost (s s' : State) (r : Req) : Prop where
  core : Core s'
  view : view s' = view s
  doneGrow : ∀ i, i ∈ s.done → i ∈ s'.done
  doneOnly : ∀ i, i ∈ s'.done → i ∈ s.done ∨ i = r.id
  evs : ∃ evs, s'.events = s.events ++ evs ∧ execsOf evs = []

theorem QuietPost.toRun {s s' : State} {r : Req} (k : Nat) (t : QuietPost s s' r) : RunPost s s' r k :=
  ⟨t.core, t.view, t.doneGrow, t.doneOnly, by obtain ⟨evs, h1, h2⟩ := t.evs; exact ⟨evs, h1, Or.inl h2⟩⟩

theorem TailPost.toQuiet {s s' : State} {r : Req} (t : TailPost s s' r) : QuietPost s s' r :=
  ⟨t.core, t.view, fun i hi => (t.done i).mpr (Or.inl hi), fun i hi => (t.done i).mp hi, t.evs⟩

theorem QuietPost.refl {s : State} (h : Core s) (r : Req) : QuietPost s s r :=
  ⟨h, rfl, fun _ hi => hi, fun _ hi => Or.inl hi, [], by simp, rfl⟩

theorem finishCmd_spec {s : State} (h : Core s) (hfix : s.cfg.fixCancel = true) (htr : TrackEx s)
    {r : Req} {k : Nat} (hr : r ∈ s.executing) (hk : r.name = .uod k) {o : Cmd} (ho : o ∈ s.objs)
    (hm : o.inMap = true) (hn : o.name = k) (hcan : o.cancelled = false) :
    QuietPost s (finishCmd s r k o.serial).1 r := by
  unfold finishCmd
  rw [getObj_of_mem h.serials ho]
  simp only
  split
  · cases hmk : markCompleted s r.id with
    | none => exact (execFailed_spec h hfix htr hr hk ho hm hcan).toQuiet
    | some s4 => exact (complete_spec h hr hk ho hm hn hmk).toQuiet
  · exact QuietPost.refl h r

/-- The events `execObj` adds: one exec callback of this instance. -/
theorem execObj_facts (s : State) (c : Cmd) :
    view (execObj s c).1 = view s ∧ (execObj s c).1.done = s.done ∧
    (execObj s c).1.events = s.events ++ [.exec c.serial c.name c.iters] ∧
    (execObj s c).1.objs.length = s.objs.length := by
  simp [execObj, view, modObj]

theorem execObj_mem {s : State} (_h : Core s) {c : Cmd} (hc : c ∈ s.objs) (hm : c.inMap = true) :
    ∃ o ∈ (execObj s c).1.objs, o.serial = c.serial ∧ o.inMap = true ∧ o.name = c.name ∧
      o.cancelled = c.cancelled := by
  refine ⟨_, List.mem_map.mpr ⟨c, hc, rfl⟩, ?_⟩
  simp [hm]

/-- Case A of `runCmd`: the instance exists and is live. -/
theorem runCmd_live {s : State} (h : Core s) (hfix : s.cfg.fixCancel = true) (htr : TrackEx s)
    {r : Req} {k : Nat} (hr : r ∈ s.executing) (hk : r.name = .uod k) {c : Cmd} (hc : c ∈ s.objs)
    (hm : c.inMap = true) (hn : c.name = k) :
    RunPost s (runCmd s r k c).1 r k := by
  obtain ⟨hfin, hini, hit, _⟩ := h.live c hc hm
  unfold runCmd
  have hit' : (c.iters == 0) = false := by simpa using hit
  by_cases hcan : c.cancelled = true
  · -- a cancelled instance that is still in the map: it is finalized now
    simp only [hcan, hfin, ↓reduceIte, Bool.not_false]
    have hcore : Core (finalizeCommand s r c) :=
      h.kill false hc hm hr (by rw [hk, hn]) (by simp [modObj]) rfl rfl rfl rfl
    refine ⟨hcore, by simp, ?_, ?_, [.final c.serial], by simp [finalizeCommand], Or.inl rfl⟩
    · intro i hi
      simp only [finalizeCommand]; rw [markDone_done_mem]; exact Or.inl hi
    · intro i hi
      simp only [finalizeCommand] at hi; rw [markDone_done_mem] at hi
      rcases hi with hi | ⟨e, _⟩
      · exact Or.inl hi
      · exact Or.inr e
  have hcan : c.cancelled = false := by simpa using hcan
  simp only [hcan, hini, hit', Bool.false_eq_true, ↓reduceIte, Bool.not_true]
  by_cases hcomp : c.complete = true
  · simp only [hcomp, Bool.not_true, Bool.false_eq_true, ↓reduceIte]
    exact (finishCmd_spec h hfix htr hr hk hc hm hn hcan).toRun k
  · have hcomp : c.complete = false := by simpa using hcomp
    simp only [hcomp, Bool.not_false, ↓reduceIte]
    have h3 := h.exec hc hm
    obtain ⟨hv, hd, hev, _⟩ := execObj_facts s c
    obtain ⟨o, ho, hos, hom, hon, hoc⟩ := execObj_mem h hc hm
    obtain ⟨_, hex, _, _, _, _, _, _, _, _, _, _, _, _, _, hcfg, _⟩ := view_eq hv
    have hr3 : r ∈ (execObj s c).1.executing := by rw [hex]; exact hr
    have post : ∀ s', QuietPost (execObj s c).1 s' r → RunPost s s' r k := by
      intro s' p
      refine ⟨p.core, by rw [p.view, hv], fun i hi => p.doneGrow i (by rw [hd]; exact hi),
        fun i hi => by rw [← hd]; exact p.doneOnly i hi, ?_⟩
      obtain ⟨evs, h1, hx⟩ := p.evs
      refine ⟨.exec c.serial c.name c.iters :: evs, by rw [h1, hev]; simp, ?_⟩
      right
      exact ⟨c.serial, by simp [execsOf, hn] at hx ⊢; exact hx⟩
    cases hf : (execObj s c).2 with
    | true =>
      have : execObj s c = ((execObj s c).1, true) := by rw [← hf]
      rw [this]
      simp only
      rw [← hos]
      exact post _ (execFailed_spec h3 (by rw [hcfg]; exact hfix) (htr.of_view hv) hr3 hk ho hom (by rw [hoc, hcan])).toQuiet
    | false =>
      have : execObj s c = ((execObj s c).1, false) := by rw [← hf]
      rw [this]
      simp only
      rw [← hos]
      exact post _ (finishCmd_spec h3 (by rw [hcfg]; exact hfix) (htr.of_view hv) hr3 hk ho hom (by rw [hon, hn]) (by rw [hoc, hcan]))



theorem markUodStarted_isSome (s : State) (i ser : Nat) (ht : s.tracking = true → i ∈ s.track.map (·.id)) :
    (markUodStarted s i ser).isSome = true := by
  unfold markUodStarted
  split
  · rfl
  · rename_i htr
    have htr : s.tracking = true := by simpa using htr
    have := (getTrack_isSome i s.track).mpr (ht htr)
    split
    · rename_i hn; rw [hn] at this; cases this
    · rfl

/-- Case B of `runCmd`: no instance of the name exists; a new one is created, initialized and executed. -/
theorem runCmd_fresh {s : State} (h : Core s) (hfix : s.cfg.fixCancel = true) (htr : TrackEx s)
    {r : Req} {k : Nat} (hr : r ∈ s.executing) (hk : r.name = .uod k) (hrd : r.id ∉ s.done)
    (hnc : ∀ o ∈ s.objs, o.inMap = true → conflict s.cfg o.name k = false) :
    RunPost s (runCmd { s with objs := s.objs ++ [{ name := k, serial := s.objs.length, owner := r.id }] } r k
      { name := k, serial := s.objs.length, owner := r.id }).1 r k := by
  unfold runCmd
  simp only [Bool.false_eq_true, ↓reduceIte, Bool.not_false, beq_self_eq_true]
  -- the state after `initialize()`
  let c0 : Cmd := { name := k, serial := s.objs.length, owner := r.id }
  let sI : State := { s with objs := modObj (s.objs ++ [c0]) c0.serial (fun o => { o with initialized := true }),
                             events := s.events ++ [.init c0.serial] }
  have hsome := markUodStarted_isSome sI r.id c0.serial (fun ht => htr ht r hr (by simp [Req.isUod, hk]))
  show RunPost s (match (match markUodStarted sI r.id c0.serial with
      | none => none
      | some s => some (execObj s c0)) with
    | none => (execFailed sI r k c0.serial, true)
    | some (s, true) => (execFailed s r k c0.serial, true)
    | some (s, false) => finishCmd s r k c0.serial).1 r k
  cases hmk : markUodStarted sI r.id c0.serial with
  | none => rw [hmk] at hsome; cases hsome
  | some sM =>
    obtain ⟨hv, hobjs, hev, hdone⟩ := markUodStarted_frame sI sM r.id c0.serial hmk
    simp only
    let c1 : Cmd := { c0 with initialized := true, iters := 1, complete := false ||
        (!((specOf sM.cfg k).failAt == some 0) && (specOf sM.cfg k).dur != 0 && decide (0 + 1 ≥ (specOf sM.cfg k).dur)) }
    obtain ⟨hv5, hd5, hev5, _⟩ := execObj_facts sM c0
    have hvs : view (execObj sM c0).1 = view s := by rw [hv5, hv]; rfl
    obtain ⟨_, hex, _, _, _, _, _, _, _, _, _, _, _, _, _, hcfg, _⟩ := view_eq hvs
    have hobjs5 : (execObj sM c0).1.objs = s.objs ++ [c1] := by
      have e1 : sM.objs = s.objs ++ [{ c0 with initialized := true }] := by
        rw [hobjs]
        exact modObj_append_new s.objs c0 _ h.serials rfl
      simp only [execObj, e1]
      exact modObj_append_new s.objs { c0 with initialized := true } _ h.serials rfl
    have hev5' : (execObj sM c0).1.events = s.events ++ [.init c0.serial, .exec c0.serial k 0] := by
      rw [hev5, hev]; simp [sI, c0]
    have h5 : Core (execObj sM c0).1 :=
      h.spawn (c := c1) (r := r) hobjs5 rfl rfl rfl rfl rfl rfl hr hk hrd hev5' hex hcfg
        (by rw [hd5, hdone]) hnc
    have hc1 : c1 ∈ (execObj sM c0).1.objs := by rw [hobjs5]; simp
    have hr5 : r ∈ (execObj sM c0).1.executing := by rw [hex]; exact hr
    have post : ∀ s', QuietPost (execObj sM c0).1 s' r → RunPost s s' r k := by
      intro s' p
      refine ⟨p.core, by rw [p.view, hvs], fun i hi => p.doneGrow i (by rw [hd5, hdone]; exact hi),
        fun i hi => by have := p.doneOnly i hi; rwa [hd5, hdone] at this, ?_⟩
      obtain ⟨evs, g1, hx⟩ := p.evs
      refine ⟨[.init c0.serial, .exec c0.serial k 0] ++ evs, by rw [g1, hev5']; simp, ?_⟩
      right
      exact ⟨c0.serial, by rw [execsOf_append, hx]; rfl⟩
    cases hf : (execObj sM c0).2 with
    | true =>
      have : execObj sM c0 = ((execObj sM c0).1, true) := by rw [← hf]
      rw [this]
      simp only
      exact post _ (execFailed_spec (o := c1) h5 (by rw [hcfg]; exact hfix) (htr.of_view hvs) hr5 hk hc1 rfl rfl).toQuiet
    | false =>
      have : execObj sM c0 = ((execObj sM c0).1, false) := by rw [← hf]
      rw [this]
      simp only
      exact post _ (finishCmd_spec (o := c1) h5 (by rw [hcfg]; exact hfix) (htr.of_view hvs) hr5 hk hc1 rfl rfl rfl)



structure ExecPost (s s' : State) (r : Req) (k : Nat) : Prop where
  core : Core s'
  view : view s' = view s
  doneGrow : ∀ i, i ∈ s.done → i ∈ s'.done
  doneOnly : ∀ i, i ∈ s'.done → i ∈ s.done ∨ ∃ c ∈ s.executing, c.isUod = true ∧ c.id = i
  conflDone : ∀ c ∈ s.executing, c.id ≠ r.id → ∀ j, c.name = .uod j → conflict s.cfg j k = true →
    c.id ∈ s'.done
  evs : ∃ evs, s'.events = s.events ++ evs ∧ (execsOf evs = [] ∨ ∃ ser, execsOf evs = [(ser, k)])

theorem selSame_uod {r : Req} {k : Nat} {c : Req} (h : selSame r k c = true) : c.isUod = true ∧ c.id ≠ r.id := by
  simp [selSame] at h
  exact ⟨by simp [Req.isUod, h.1], h.2⟩

theorem selOverlap_uod {cfg : Cfg} {r : Req} {k : Nat} {c : Req} (h : selOverlap cfg r k c = true) :
    c.isUod = true ∧ c.id ≠ r.id := by
  simp only [selOverlap, Bool.and_eq_true, bne_iff_ne, ne_eq] at h
  refine ⟨?_, h.1⟩
  cases hn : c.name <;> simp_all [Req.isUod]

theorem executeUod_spec {s : State} (h : Core s) (hfix : s.cfg.fixCancel = true) (htr : TrackEx s)
    {r : Req} {k : Nat} (hr : r ∈ s.executing) (hk : r.name = .uod k) (hrd : r.id ∉ s.done)
    (hp : s.paused = false) :
    ExecPost s (executeUod s r k).1 r k := by
  unfold executeUod
  simp only [hp, Bool.false_eq_true, ↓reduceIte]
  rw [cancelSame_eq]
  have p1 := cancelWhere_spec (selSame r k) true s.executing h hfix htr (fun c hc => hc)
  obtain ⟨_, hex1, _, _, _, _, _, _, _, _, _, _, _, _, _, hcfg1, _⟩ := view_eq p1.view
  rw [cancelOverlap_eq, hex1, hcfg1]
  generalize cancelWhere (selSame r k) true s.executing s = s1 at *
  have p2 := cancelWhere_spec (selOverlap s.cfg r k) true s.executing p1.core (by rw [hcfg1]; exact hfix)
    (htr.of_view p1.view) (fun c hc => by rw [hex1]; exact hc)
  generalize cancelWhere (selOverlap s.cfg r k) true s.executing s1 = s2 at *
  have hv2 : view s2 = view s := by rw [p2.view, p1.view]
  obtain ⟨_, hex2, _, _, _, _, _, _, _, _, _, _, _, _, _, hcfg2, _⟩ := view_eq hv2
  have hr2 : r ∈ s2.executing := by rw [hex2]; exact hr
  have hfix2 : s2.cfg.fixCancel = true := by rw [hcfg2]; exact hfix
  have htr2 : TrackEx s2 := htr.of_view hv2
  -- the request itself survived both loops
  have hrd2 : r.id ∉ s2.done := by
    intro hi
    rcases p2.doneOnly _ hi with h1 | ⟨c, _, hs, e⟩
    · rcases p1.doneOnly _ h1 with h0 | ⟨c, _, hs, e⟩
      · exact hrd h0
      · exact (selSame_uod hs).2 e
    · exact (selOverlap_uod hs).2 e
  -- every conflicting request is done
  have hconf : ∀ c ∈ s.executing, c.id ≠ r.id → ∀ j, c.name = .uod j → conflict s.cfg j k = true → c.id ∈ s2.done := by
    intro c hc hne j hj hcf
    have hu : c.isUod = true := by simp [Req.isUod, hj]
    by_cases hjk : j = k
    · exact p2.doneGrow _ (p1.allDone c hc (by simp [selSame, hj, hjk, hne]) hu)
    · apply p2.allDone c hc _ hu
      simp only [conflict, Bool.or_eq_true, beq_iff_eq, hjk, false_or] at hcf
      simp [selOverlap, hne, hj, hcf]
  have hdoneOnly : ∀ i, i ∈ s2.done → i ∈ s.done ∨ ∃ c ∈ s.executing, c.isUod = true ∧ c.id = i := by
    intro i hi
    rcases p2.doneOnly _ hi with h1 | ⟨c, hc, hs, e⟩
    · rcases p1.doneOnly _ h1 with h0 | ⟨c, hc, hs, e⟩
      · exact Or.inl h0
      · exact Or.inr ⟨c, hc, (selSame_uod hs).1, e⟩
    · exact Or.inr ⟨c, hc, (selOverlap_uod hs).1, e⟩
  -- events of the two loops: finalize callbacks only
  obtain ⟨e1, he1, hf1⟩ := p1.evs
  obtain ⟨e2, he2, hf2⟩ := p2.evs
  have wrap : ∀ s', RunPost s2 s' r k → ExecPost s s' r k := by
    intro s' p
    refine ⟨p.core, by rw [p.view, hv2], fun i hi => p.doneGrow i (p2.doneGrow i (p1.doneGrow i hi)), ?_, ?_, ?_⟩
    · intro i hi
      rcases p.doneOnly i hi with h2 | rfl
      · exact hdoneOnly i h2
      · exact Or.inr ⟨r, hr, by simp [Req.isUod, hk], rfl⟩
    · intro c hc hne j hj hcf
      exact p.doneGrow _ (hconf c hc hne j hj hcf)
    · obtain ⟨e3, he3, hx⟩ := p.evs
      refine ⟨e1 ++ e2 ++ e3, by rw [he3, he2, he1]; simp, ?_⟩
      rw [execsOf_append, execsOf_append, execsOf_finals e1 hf1, execsOf_finals e2 hf2]
      simpa using hx
  -- live instances that remain do not conflict with `k`, unless the instance is the request's own
  have hown : ∀ o ∈ s2.objs, o.inMap = true → conflict s.cfg o.name k = true → o.owner = r.id := by
    intro o ho hm hcf
    obtain ⟨_, _, _, q, hq, h1, h2, h3⟩ := p2.core.live o ho hm
    rw [← h1]
    false_or_by_contra
    rename_i hne
    exact h3 (hconf q (by rw [← hex2]; exact hq) hne o.name h2 hcf)
  unfold obtainCmd
  cases hfl : findLive s2.objs k with
  | some c =>
    obtain ⟨hc, hm, hn⟩ := findLive_some hfl
    exact wrap _ (runCmd_live p2.core hfix2 htr2 hr2 hk hc hm hn)
  | none =>
    have hnone := findLive_none hfl
    simp only
    apply wrap
    apply runCmd_fresh p2.core hfix2 htr2 hr2 hk hrd2
    intro o ho hm
    cases hcf : conflict s2.cfg o.name k with
    | false => rfl
    | true =>
      rw [hcfg2] at hcf
      have ho' := hown o ho hm hcf
      obtain ⟨_, _, _, q, hq, h1, h2, _⟩ := p2.core.live o ho hm
      have : q = r := req_id_inj p2.core.ids hq hr2 (by rw [h1, ho'])
      subst this
      rw [hk] at h2
      injection h2 with h2
      exact absurd h2.symm (hnone o ho hm)

/-- While the run is paused an interpreter-sourced request is not executed at all. -/
theorem executeUod_paused {s : State} (r : Req) (k : Nat) (hp : s.paused = true) :
    executeUod s r k = (s, false) := by
  unfold executeUod; simp [hp]

end OPM.CmdMgr
