import OPM.Lemmas.CmdMgrExec
/-!
`_execute_uod_command` under the object invariant: what one request does in one tick (`executeUod_spec`).
-/
namespace OPM.CmdMgr

theorem execsOf_append (a b : List Ev) : execsOf (a ++ b) = execsOf a ++ execsOf b := by
  simp [execsOf, List.filterMap_append]

theorem execsOf_finals (evs : List Ev) (h : ∀ e ∈ evs, ∃ ser, e = Ev.final ser) : execsOf evs = [] := by
  simp only [execsOf, List.filterMap_eq_nil_iff]
  intro e he
  obtain ⟨ser, rfl⟩ := h e he
  rfl

/-- What the clean-up of a live instance (failure path or completion) leaves behind. -/
structure TailPost (s s' : State) (r : Req) : Prop where
  core : Core s'
  view : view s' = view s
  done : ∀ i, i ∈ s'.done ↔ i ∈ s.done ∨ i = r.id
  evs : ∃ evs, s'.events = s.events ++ evs ∧ execsOf evs = []

theorem execFailed_spec {s : State} (h : Core s) (hfix : s.cfg.fixCancel = true) (htr : TrackEx s)
    {r : Req} {k : Nat} (hr : r ∈ s.executing) (hk : r.name = .uod k) {o : Cmd} (ho : o ∈ s.objs)
    (_hm : o.inMap = true) (hcan : o.cancelled = false) :
    TailPost s (execFailed s r k o.serial) r := by
  unfold execFailed
  rw [getObj_of_mem h.serials ho]
  simp only [hcan, Bool.not_false, if_true]
  have q := cancelCommand_spec h hfix hr hk (fun ht => htr ht r hr (by simp [Req.isUod, hk]))
  obtain ⟨evs, he1, he2⟩ := q.evs
  cases hmf : markFailed (cancelCommand s r) r.id with
  | none =>
    simp only [Option.getD_none]
    exact ⟨q.core, q.view, q.done, evs, he1, execsOf_finals evs he2⟩
  | some s2 =>
    simp only [Option.getD_some]
    obtain ⟨hv, hobjs, hev, hdone⟩ := markFailed_frame _ s2 r.id hmf
    obtain ⟨_, hex, _, _, _, _, _, _, _, _, _, _, _, _, _, hcfg, _⟩ := view_eq hv
    refine ⟨?_, by rw [hv, q.view], ?_, evs, by rw [hev, he1], execsOf_finals evs he2⟩
    · exact q.core.congr hobjs hev hex hcfg (fun _ _ _ hd => by rw [hdone] at hd; exact hd)
    · intro i; rw [hdone]; exact q.done i

theorem complete_spec {s s4 : State} (h : Core s) {r : Req} {k : Nat} (hr : r ∈ s.executing)
    (hk : r.name = .uod k) {o : Cmd} (ho : o ∈ s.objs) (hm : o.inMap = true) (hn : o.name = k)
    (hmk : markCompleted s r.id = some s4) :
    TailPost s (finalizeCommand s4 r o) r := by
  obtain ⟨hv, hobjs, hev, hdone⟩ := markCompleted_frame _ s4 r.id hmk
  obtain ⟨_, hex, _, _, _, _, _, _, _, _, _, _, _, _, _, hcfg, _⟩ := view_eq hv
  refine ⟨h.kill false ho hm hr (by rw [hk, hn]) (by rw [hobjs]; simp [modObj]) hev hex hdone hcfg,
    by rw [view_finalizeCommand, hv], ?_, [.final o.serial], by simp [finalizeCommand, hev], rfl⟩
  intro i
  simp only [finalizeCommand]
  rw [markDone_done_mem]
  simp only [finalizeObj_done, finalizeObj_executing, hdone, hex]
  constructor
  · rintro (hd | ⟨e, _⟩)
    · exact Or.inl hd
    · exact Or.inr e
  · rintro (hd | e)
    · exact Or.inl hd
    · exact Or.inr ⟨e, r, hr, rfl⟩



/-- Result of the steps that follow the look-up of the instance. -/
structure RunPost (s s' : State) (r : Req) (k : Nat) : Prop where
  core : Core s'
  view : view s' = view s
  doneGrow : ∀ i, i ∈ s.done → i ∈ s'.done
  doneOnly : ∀ i, i ∈ s'.done → i ∈ s.done ∨ i = r.id
  evs : ∃ evs, s'.events = s.events ++ evs ∧ (execsOf evs = [] ∨ ∃ ser, execsOf evs = [(ser, k)])

/-- The same without an exec callback. -/
structure QuietPost (s s' : State) (r : Req) : Prop where
  core : Core s'
  view : view s' = view s
  doneGrow : ∀ i, i ∈ s.done → i ∈ s'.done
  doneOnly : ∀ i, i ∈ s'.done → i ∈ s.done ∨ i = r.id
  evs : ∃ evs, s'.events = s.events ++ evs ∧ execsOf evs = []

theorem QuietPost.toRun {s s' : State} {r : Req} (k : Nat) (t : QuietPost s s' r) : RunPost s s' r k :=
  ⟨t.core, t.view, t.doneGrow, t.doneOnly, by obtain ⟨evs, h1, h2⟩ := t.evs; exact ⟨evs, h1, Or.inl h2⟩⟩

theorem TailPost.toQuiet {s s' : State} {r : Req} (t : TailPost s s' r) : QuietPost s s' r :=
  ⟨t.core, t.view, fun i hi => (t.done i).mpr (Or.inl hi), fun i hi => (t.done i).mp hi, t.evs⟩

theorem QuietPost.refl {s : State} (h : Core s) (r : Req) : QuietPost s s r :=
  ⟨h, rfl, fun _ hi => hi, fun _ hi => Or.inl hi, [], by simp, rfl⟩

theorem finishCmd_spec {s : State} (h : Core s) (hfix : s.cfg.fixCancel = true) (htr : TrackEx s)
    {r : Req} {k : Nat} (hr : r ∈ s.executing) (hk : r.name = .uod k) {o : Cmd} (ho : o ∈ s.objs)
    (hm : o.inMap = true) (hn : o.name = k) (hcan : o.cancelled = false) :
    QuietPost s (finishCmd s r k o.serial).1 r := by
  unfold finishCmd
  rw [getObj_of_mem h.serials ho]
  simp only
  split
  · cases hmk : markCompleted s r.id with
    | none => exact (execFailed_spec h hfix htr hr hk ho hm hcan).toQuiet
    | some s4 => exact (complete_spec h hr hk ho hm hn hmk).toQuiet
  · exact QuietPost.refl h r

/-- The events `execObj` adds: one exec callback of this instance. -/
theorem execObj_facts (s : State) (c : Cmd) :
    view (execObj s c).1 = view s ∧ (execObj s c).1.done = s.done ∧
    (execObj s c).1.events = s.events ++ [.exec c.serial c.name c.iters] ∧
    (execObj s c).1.objs.length = s.objs.length := by
  simp [execObj, view, modObj]

theorem execObj_mem {s : State} (_h : Core s) {c : Cmd} (hc : c ∈ s.objs) (hm : c.inMap = true) :
    ∃ o ∈ (execObj s c).1.objs, o.serial = c.serial ∧ o.inMap = true ∧ o.name = c.name ∧
      o.cancelled = c.cancelled := by
  refine ⟨_, List.mem_map.mpr ⟨c, hc, rfl⟩, ?_⟩
  simp [hm]

/-- One call of `execute` on a live instance, and what follows it. -/
theorem afterExec_spec {s : State} (h : Core s) (hfix : s.cfg.fixCancel = true) (htr : TrackEx s)
    {r : Req} {k : Nat} (hr : r ∈ s.executing) (hk : r.name = .uod k) {c : Cmd} (hc : c ∈ s.objs)
    (hm : c.inMap = true) (hn : c.name = k) (hcan : c.cancelled = false) :
    RunPost s (afterExec (execObj s c) r k c.serial).1 r k := by
  have h3 := h.exec hc hm
  obtain ⟨hv, hd, hev, _⟩ := execObj_facts s c
  obtain ⟨o, ho, hos, hom, hon, hoc⟩ := execObj_mem h hc hm
  obtain ⟨_, hex, _, _, _, _, _, _, _, _, _, _, _, _, _, hcfg, _⟩ := view_eq hv
  have hr3 : r ∈ (execObj s c).1.executing := by rw [hex]; exact hr
  have post : ∀ s', QuietPost (execObj s c).1 s' r → RunPost s s' r k := by
    intro s' p
    refine ⟨p.core, by rw [p.view, hv], fun i hi => p.doneGrow i (by rw [hd]; exact hi),
      fun i hi => by rw [← hd]; exact p.doneOnly i hi, ?_⟩
    obtain ⟨evs, h1, hx⟩ := p.evs
    refine ⟨.exec c.serial c.name c.iters :: evs, by rw [h1, hev]; simp, ?_⟩
    right
    exact ⟨c.serial, by simp [execsOf, hn] at hx ⊢; exact hx⟩
  cases hf : (execObj s c).2 with
  | true =>
    have : execObj s c = ((execObj s c).1, true) := by rw [← hf]
    rw [this]
    simp only [afterExec]
    rw [← hos]
    exact post _ (execFailed_spec h3 (by rw [hcfg]; exact hfix) (htr.of_view hv) hr3 hk ho hom (by rw [hoc, hcan])).toQuiet
  | false =>
    have : execObj s c = ((execObj s c).1, false) := by rw [← hf]
    rw [this]
    simp only [afterExec]
    rw [← hos]
    exact post _ (finishCmd_spec h3 (by rw [hcfg]; exact hfix) (htr.of_view hv) hr3 hk ho hom (by rw [hon, hn]) (by rw [hoc, hcan]))

/-- `runCmd` on an initialised instance that is in the map. -/
theorem runCmd_live {s : State} (h : Core s) (hfix : s.cfg.fixCancel = true) (htr : TrackEx s)
    {r : Req} {k : Nat} (hr : r ∈ s.executing) (hk : r.name = .uod k) {c : Cmd} (hc : c ∈ s.objs)
    (hm : c.inMap = true) (hn : c.name = k) :
    RunPost s (runCmd s r k c).1 r k := by
  obtain ⟨hfin, hini, _⟩ := h.live c hc hm
  unfold runCmd
  by_cases hcan : c.cancelled = true
  · -- a cancelled instance that is still in the map: it is finalized now
    simp only [hcan, hfin, ↓reduceIte, Bool.not_false]
    have hcore : Core (finalizeCommand s r c) :=
      h.kill false hc hm hr (by rw [hk, hn]) (by simp [modObj]) rfl rfl rfl rfl
    refine ⟨hcore, by simp, ?_, ?_, [.final c.serial], by simp [finalizeCommand], Or.inl rfl⟩
    · intro i hi
      simp only [finalizeCommand]; rw [markDone_done_mem]; exact Or.inl hi
    · intro i hi
      simp only [finalizeCommand] at hi; rw [markDone_done_mem] at hi
      rcases hi with hi | ⟨e, _⟩
      · exact Or.inl hi
      · exact Or.inr e
  have hcan : c.cancelled = false := by simpa using hcan
  simp only [hcan, Bool.false_eq_true, ↓reduceIte]
  by_cases hit : (c.iters == 0) = true
  · -- first execution: `mark_uod_command_started`, which raises if the instance's record is gone
    simp only [hit, ↓reduceIte]
    cases hmk : markUodStarted s c.owner c.serial with
    | none => exact (execFailed_spec h hfix htr hr hk hc hm hcan).toQuiet.toRun k
    | some sM =>
      obtain ⟨hv, hobjs, hev, hdone⟩ := markUodStarted_frame s sM c.owner c.serial hmk
      obtain ⟨_, hex, _, _, _, _, _, _, _, _, _, _, _, _, _, hcfg, _⟩ := view_eq hv
      have hM : Core sM := h.congr hobjs hev hex hcfg (fun q _ _ hd => by rw [← hdone]; exact hd)
      have p := afterExec_spec hM (by rw [hcfg]; exact hfix) (htr.of_view hv) (by rw [hex]; exact hr) hk
        (by rw [hobjs]; exact hc) hm hn hcan
      simp only
      obtain ⟨evs, e1, e2⟩ := p.evs
      exact ⟨p.core, by rw [p.view, hv], fun i hi => p.doneGrow i (by rw [hdone]; exact hi),
        fun i hi => by rw [← hdone]; exact p.doneOnly i hi, evs, by rw [e1, hev], e2⟩
  · simp only [hit, Bool.false_eq_true, ↓reduceIte]
    by_cases hcomp : c.complete = true
    · simp only [hcomp, Bool.not_true, Bool.false_eq_true, ↓reduceIte]
      exact (finishCmd_spec h hfix htr hr hk hc hm hn hcan).toRun k
    · have hcomp : c.complete = false := by simpa using hcomp
      simp only [hcomp, Bool.not_false, ↓reduceIte]
      exact afterExec_spec h hfix htr hr hk hc hm hn hcan

structure ExecPost (s s' : State) (r : Req) (k : Nat) : Prop where
  core : Core s'
  view : view s' = view s
  doneGrow : ∀ i, i ∈ s.done → i ∈ s'.done
  doneOnly : ∀ i, i ∈ s'.done → i ∈ s.done ∨ ∃ c ∈ s.executing, c.isUod = true ∧ c.id = i
  conflDone : ∀ c ∈ s.executing, c.id ≠ r.id → ∀ j, c.name = .uod j → conflict s.cfg j k = true →
    c.id ∈ s'.done
  evs : ∃ evs, s'.events = s.events ++ evs ∧ (execsOf evs = [] ∨ ∃ ser, execsOf evs = [(ser, k)])

theorem selSame_uod {r : Req} {k : Nat} {c : Req} (h : selSame r k c = true) : c.isUod = true ∧ c.id ≠ r.id := by
  simp [selSame] at h
  exact ⟨by simp [Req.isUod, h.1], h.2⟩

theorem selOverlap_uod {cfg : Cfg} {r : Req} {k : Nat} {c : Req} (h : selOverlap cfg r k c = true) :
    c.isUod = true ∧ c.id ≠ r.id := by
  simp only [selOverlap, Bool.and_eq_true, bne_iff_ne, ne_eq] at h
  refine ⟨?_, h.1⟩
  cases hn : c.name <;> simp_all [Req.isUod]

theorem executeUod_spec {s : State} (h : Core s) (hfix : s.cfg.fixCancel = true) (htr : TrackEx s)
    {r : Req} {k : Nat} (hr : r ∈ s.executing) (hk : r.name = .uod k) (hrd : r.id ∉ s.done)
    (hp : s.paused = false) :
    ExecPost s (executeUod s r k).1 r k := by
  unfold executeUod
  simp only [hp, Bool.false_eq_true, ↓reduceIte]
  rw [cancelSame_eq]
  have p1 := cancelWhere_spec (selSame r k) true s.executing h hfix htr (fun c hc => hc)
  obtain ⟨_, hex1, _, _, _, _, _, _, _, _, _, _, _, _, _, hcfg1, _⟩ := view_eq p1.view
  rw [cancelOverlap_eq, hex1, hcfg1]
  generalize cancelWhere (selSame r k) true s.executing s = s1 at *
  have p2 := cancelWhere_spec (selOverlap s.cfg r k) true s.executing p1.core (by rw [hcfg1]; exact hfix)
    (htr.of_view p1.view) (fun c hc => by rw [hex1]; exact hc)
  generalize cancelWhere (selOverlap s.cfg r k) true s.executing s1 = s2 at *
  have hv2 : view s2 = view s := by rw [p2.view, p1.view]
  obtain ⟨_, hex2, _, _, _, _, _, _, _, _, _, _, _, _, _, hcfg2, _⟩ := view_eq hv2
  have hr2 : r ∈ s2.executing := by rw [hex2]; exact hr
  have hfix2 : s2.cfg.fixCancel = true := by rw [hcfg2]; exact hfix
  have htr2 : TrackEx s2 := htr.of_view hv2
  -- the request itself survived both loops
  have hrd2 : r.id ∉ s2.done := by
    intro hi
    rcases p2.doneOnly _ hi with h1 | ⟨c, _, hs, e⟩
    · rcases p1.doneOnly _ h1 with h0 | ⟨c, _, hs, e⟩
      · exact hrd h0
      · exact (selSame_uod hs).2 e
    · exact (selOverlap_uod hs).2 e
  -- every conflicting request is done
  have hconf : ∀ c ∈ s.executing, c.id ≠ r.id → ∀ j, c.name = .uod j → conflict s.cfg j k = true → c.id ∈ s2.done := by
    intro c hc hne j hj hcf
    have hu : c.isUod = true := by simp [Req.isUod, hj]
    by_cases hjk : j = k
    · exact p2.doneGrow _ (p1.allDone c hc (by simp [selSame, hj, hjk, hne]) hu)
    · apply p2.allDone c hc _ hu
      simp only [conflict, Bool.or_eq_true, beq_iff_eq, hjk, false_or] at hcf
      simp [selOverlap, hne, hj, hcf]
  have hdoneOnly : ∀ i, i ∈ s2.done → i ∈ s.done ∨ ∃ c ∈ s.executing, c.isUod = true ∧ c.id = i := by
    intro i hi
    rcases p2.doneOnly _ hi with h1 | ⟨c, hc, hs, e⟩
    · rcases p1.doneOnly _ h1 with h0 | ⟨c, hc, hs, e⟩
      · exact Or.inl h0
      · exact Or.inr ⟨c, hc, (selSame_uod hs).1, e⟩
    · exact Or.inr ⟨c, hc, (selOverlap_uod hs).1, e⟩
  -- events of the two loops: finalize callbacks only
  obtain ⟨e1, he1, hf1⟩ := p1.evs
  obtain ⟨e2, he2, hf2⟩ := p2.evs
  have wrap : ∀ s', RunPost s2 s' r k → ExecPost s s' r k := by
    intro s' p
    refine ⟨p.core, by rw [p.view, hv2], fun i hi => p.doneGrow i (p2.doneGrow i (p1.doneGrow i hi)), ?_, ?_, ?_⟩
    · intro i hi
      rcases p.doneOnly i hi with h2 | rfl
      · exact hdoneOnly i h2
      · exact Or.inr ⟨r, hr, by simp [Req.isUod, hk], rfl⟩
    · intro c hc hne j hj hcf
      exact p.doneGrow _ (hconf c hc hne j hj hcf)
    · obtain ⟨e3, he3, hx⟩ := p.evs
      refine ⟨e1 ++ e2 ++ e3, by rw [he3, he2, he1]; simp, ?_⟩
      rw [execsOf_append, execsOf_append, execsOf_finals e1 hf1, execsOf_finals e2 hf2]
      simpa using hx
  -- an initialised instance that remains and conflicts with `k` is held by `r` itself
  have hhold : ∀ o ∈ s2.objs, o.inMap = true → conflict s.cfg o.name k = true → o.name = k ∧ r.bad = false := by
    intro o ho hm hcf
    obtain ⟨_, _, q, hq, h1, h2, h3⟩ := p2.core.live o ho hm
    have hqr : q.id = r.id := by
      false_or_by_contra
      rename_i hne
      exact h3 (hconf q (by rw [← hex2]; exact hq) hne o.name h1 hcf)
    have : q = r := req_id_inj p2.core.ids hq hr2 hqr
    subst this
    rw [hk] at h1
    injection h1 with h1
    exact ⟨h1.symm, h2⟩
  cases hfl : findLive s2.objs k with
  | some c =>
    obtain ⟨hc, hm, hn⟩ := findLive_some hfl
    have hb := (hhold c hc hm (by rw [hn]; exact conflict_self _ _)).2
    simp only [hb, Bool.false_eq_true, ↓reduceIte]
    exact wrap _ (runCmd_live p2.core hfix2 htr2 hr2 hk hc hm hn)
  | none =>
    have hnone := findLive_none hfl
    simp only
    cases hb : r.bad with
    | true =>
      -- the parser rejects the arguments: the request is done and fails; nothing is initialised
      simp only [↓reduceIte]
      apply wrap
      generalize hS : rejectInst s2 k r.id = sS
      have hSo : sS.objs = s2.objs := by rw [← hS]; unfold rejectInst; split <;> rfl
      have hSe : sS.events = s2.events := by rw [← hS]; unfold rejectInst; split <;> rfl
      have hSx : sS.executing = s2.executing := by rw [← hS]; unfold rejectInst; split <;> rfl
      have hSd : sS.done = s2.done := by rw [← hS]; unfold rejectInst; split <;> rfl
      have hSc : sS.cfg = s2.cfg := by rw [← hS]; unfold rejectInst; split <;> rfl
      have hSv : view sS = view s2 := by rw [← hS]; unfold rejectInst; split <;> rfl
      have hdn : ∀ i, i ∈ (markDone sS r).done ↔ i ∈ s2.done ∨ i = r.id := by
        intro i
        rw [markDone_done_mem, hSd, hSx]
        constructor
        · rintro (hh | ⟨e, _⟩)
          · exact Or.inl hh
          · exact Or.inr e
        · rintro (hh | e)
          · exact Or.inl hh
          · exact Or.inr ⟨e, r, hr2, rfl⟩
      have hcD : Core (markDone sS r) := by
        apply p2.core.congr_done (by simp [hSo]) (by simp [hSe]) (by simp [hSx]) (by simp [hSc]) r hr2
        · intro _ _ _ _; exact hb
        · intro i hi; exact (hdn i).mp hi
      unfold failParse
      cases hmf : markFailed (markDone sS r) r.id with
      | none =>
        simp only [Option.getD_none]
        exact ⟨hcD, by rw [view_markDone, hSv], fun i hi => (hdn i).mpr (Or.inl hi), fun i hi => (hdn i).mp hi,
          [], by simp [hSe], Or.inl rfl⟩
      | some sF =>
        simp only [Option.getD_some]
        obtain ⟨hv, hobjs, hev, hdone⟩ := markFailed_frame _ sF r.id hmf
        obtain ⟨_, hexF, _, _, _, _, _, _, _, _, _, _, _, _, _, hcfgF, _⟩ := view_eq hv
        exact ⟨hcD.congr hobjs hev hexF hcfgF (fun _ _ _ hd => by rw [hdone] at hd; exact hd),
          by rw [hv, view_markDone, hSv], fun i hi => by rw [hdone]; exact (hdn i).mpr (Or.inl hi),
          fun i hi => by rw [hdone] at hi; exact (hdn i).mp hi, [], by simp [hev, hSe], Or.inl rfl⟩
    | false =>
      -- the instance (new, or created earlier and never initialised) is initialised now
      simp only [Bool.false_eq_true, ↓reduceIte]
      apply wrap
      have hser : (initNew s2 k r.id).2.serial = s2.objs.length := rfl
      have hNo : (initNew s2 k r.id).1.objs = s2.objs ++ [(initNew s2 k r.id).2] := rfl
      have hNe : (initNew s2 k r.id).1.events = s2.events ++ [.init (initNew s2 k r.id).2.serial] := rfl
      have hNx : (initNew s2 k r.id).1.executing = s2.executing := rfl
      have hNd : (initNew s2 k r.id).1.done = s2.done := rfl
      have hNc : (initNew s2 k r.id).1.cfg = s2.cfg := rfl
      have hNv : view (initNew s2 k r.id).1 = view s2 := rfl
      have hc0n : (initNew s2 k r.id).2.name = k := rfl
      have hc0m : (initNew s2 k r.id).2.inMap = true := rfl
      have hc0f : (initNew s2 k r.id).2.finalized = false := rfl
      have hc0i : (initNew s2 k r.id).2.initialized = true := rfl
      have hc0t : (initNew s2 k r.id).2.iters = 0 := rfl
      generalize (initNew s2 k r.id).2 = c0 at *
      generalize (initNew s2 k r.id).1 = sN at *
      have hcN : Core sN := by
        apply p2.core.spawn (c := c0) (r := r) hNo hser hc0m hc0f hc0i hc0t hr2 (by rw [hk, hc0n]) hb hrd2 hNe hNx hNc hNd
        intro o ho hm
        cases hcf : conflict s2.cfg o.name c0.name with
        | false => rfl
        | true =>
          rw [hc0n, hcfg2] at hcf
          exact absurd (hhold o ho hm hcf).1 (hnone o ho hm)
      have p := runCmd_live (c := c0) hcN (by rw [hNc]; exact hfix2) (htr2.of_view hNv) (by rw [hNx]; exact hr2) hk
        (by rw [hNo]; simp) hc0m hc0n
      obtain ⟨evs, e1, e2⟩ := p.evs
      refine ⟨p.core, by rw [p.view, hNv], fun i hi => p.doneGrow i (by rw [hNd]; exact hi),
        fun i hi => by rw [← hNd]; exact p.doneOnly i hi, [.init c0.serial] ++ evs, by rw [e1, hNe]; simp, ?_⟩
      rw [execsOf_append]
      simpa [execsOf] using e2

/-- While the run is paused an interpreter-sourced request is not executed at all. -/
theorem executeUod_paused {s : State} (r : Req) (k : Nat) (hp : s.paused = true) :
    executeUod s r k = (s, false) := by
  unfold executeUod; simp [hp]

end OPM.CmdMgr
