import OPM.Model.Reconnect
/-!
Helper lemmas for C28: the run associated with the engine, the plot-log invariant, what each step does to the
recent-run rows.
-/
namespace OPM.Reconnect

/-- The run the aggregator associates with the engine: the run of its engine data while it is registered, otherwise
the run id kept in its RecentEngines row. -/
def assoc (s : State) : Option Nat :=
  match s.mem with
  | some m => m.run
  | none => s.recentEngine.join

/-- Operations that neither end run `r` nor begin another one: registration, disconnect, aggregator restart, tag
messages, a repeated RunStartedMsg of `r` itself — and a crash of the aggregator process where the code writes the
RecentEngines row with the run messages (`persistRunEvents`); where it does not, a crash is *not* harmless. -/
def quiet (c : Cfg) (r : Nat) : Op → Bool
  | .register | .disconnect | .restart | .tags _ _ _ => true
  | .crash => c.persistRunEvents
  | .start q => q == r
  | .stop _ => false

/-- With `persistRunEvents`, the RecentEngines row of a registered engine always names its current run. -/
def Sync (c : Cfg) (s : State) : Prop :=
  c.persistRunEvents = true → ∀ m, s.mem = some m → s.recentEngine.join = m.run

/-- Every run id the aggregator may resume has a plot log. -/
structure WF (s : State) : Prop where
  memLog : ∀ m r, s.mem = some m → m.run = some r → r ∈ s.plotLogs
  rowLog : ∀ r, s.recentEngine = some (some r) → r ∈ s.plotLogs

/-- Run `r` is over: it is neither the engine's current run nor resumable from the RecentEngines row. -/
structure Done (r : Nat) (s : State) : Prop where
  notCurrent : ∀ m, s.mem = some m → m.run ≠ some r
  notResumable : s.mem = none → s.recentEngine ≠ some (some r)

/-! ### idxOf? -/

theorem idxOf?_of_mem {l : List Nat} {r : Nat} (h : r ∈ l) : ∃ i, l.idxOf? r = some i ∧ l[i]? = some r := by
  induction l with
  | nil => cases h
  | cons a l ih =>
    by_cases e : a = r
    · exact ⟨0, by simp [List.idxOf?, List.findIdx?_cons, e], by simp [e]⟩
    · have hm : r ∈ l := by
        cases h with
        | head => exact absurd rfl e
        | tail _ h => exact h
      obtain ⟨i, h1, h2⟩ := ih hm
      refine ⟨i + 1, ?_, by simpa using h2⟩
      have h1' : List.findIdx? (fun x => x == r) l = some i := h1
      simp [List.idxOf?, List.findIdx?_cons, e, h1']

theorem idxOf?_get {l : List Nat} {r i : Nat} (h : l.idxOf? r = some i) : l[i]? = some r := by
  induction l generalizing i with
  | nil => simp [List.idxOf?] at h
  | cons a l ih =>
    by_cases e : a = r
    · simp [List.idxOf?, List.findIdx?_cons, e] at h
      subst h; simp [e]
    · simp only [List.idxOf?, List.findIdx?_cons] at h
      have : (a == r) = false := by simpa using e
      simp only [this] at h
      cases hh : List.findIdx? (fun x => x == r) l with
      | none => simp [hh] at h
      | some j =>
        simp [hh] at h
        subst h
        simpa using ih (i := j) hh

/-! ### tagsChanged -/

theorem valueRows_cases (s : State) (r t : Nat) :
    valueRows s r t = [] ∨ ∃ i, valueRows s r t = [(i, t)] ∧ s.plotLogs[i]? = some r := by
  unfold valueRows
  split
  · rename_i i hi
    exact Or.inr ⟨i, rfl, idxOf?_get hi⟩
  · exact Or.inl rfl

theorem persist_mem (c : Cfg) (s : State) (m : Mem) (t : Nat) :
    ∃ m', (persist c s m t).mem = some m' ∧ m'.run = m.run := by
  unfold persist
  split
  · exact ⟨_, rfl, rfl⟩
  · split <;> exact ⟨_, rfl, rfl⟩

@[simp] theorem upsertTags_run (m : Mem) (t : Nat) (st : Option Nat) : (upsertTags m t st).run = m.run := by
  unfold upsertTags; split <;> rfl
@[simp] theorem upsertTags_lastPersisted (m : Mem) (t : Nat) (st : Option Nat) :
    (upsertTags m t st).lastPersisted = m.lastPersisted := by
  unfold upsertTags; split <;> rfl

theorem tagsChanged_mem (c : Cfg) (s : State) (m : Mem) (x : Option Nat) (t : Nat) (st : Option Nat)
    (hm : s.mem = some m) : ∃ m', (tagsChanged c s m x t st).mem = some m' ∧ m'.run = m.run := by
  unfold tagsChanged
  split
  · exact ⟨m, hm, rfl⟩
  · obtain ⟨m', h1, h2⟩ := persist_mem c s (upsertTags m t st) t
    exact ⟨m', h1, by rw [h2]; simp⟩

@[simp] theorem persist_recentEngine (c : Cfg) (s : State) (m : Mem) (t : Nat) :
    (persist c s m t).recentEngine = s.recentEngine := by
  unfold persist
  split
  · rfl
  · split <;> rfl
@[simp] theorem persist_plotLogs (c : Cfg) (s : State) (m : Mem) (t : Nat) : (persist c s m t).plotLogs = s.plotLogs := by
  unfold persist
  split
  · rfl
  · split <;> rfl
@[simp] theorem persist_recentRuns (c : Cfg) (s : State) (m : Mem) (t : Nat) : (persist c s m t).recentRuns = s.recentRuns := by
  unfold persist
  split
  · rfl
  · split <;> rfl

@[simp] theorem tagsChanged_recentEngine (c : Cfg) (s : State) (m : Mem) (x : Option Nat) (t : Nat) (st : Option Nat) :
    (tagsChanged c s m x t st).recentEngine = s.recentEngine := by
  unfold tagsChanged; split <;> simp
@[simp] theorem tagsChanged_plotLogs (c : Cfg) (s : State) (m : Mem) (x : Option Nat) (t : Nat) (st : Option Nat) :
    (tagsChanged c s m x t st).plotLogs = s.plotLogs := by
  unfold tagsChanged; split <;> simp
@[simp] theorem tagsChanged_recentRuns (c : Cfg) (s : State) (m : Mem) (x : Option Nat) (t : Nat) (st : Option Nat) :
    (tagsChanged c s m x t st).recentRuns = s.recentRuns := by
  unfold tagsChanged; split <;> simp

/-- the tick time a persisted row gets: the newest tick time among the tags the engine data holds after the message -/
def rowTime (m : Mem) (t : Nat) (st : Option Nat) : Nat := latestTime (upsertTags m t st) t

theorem le_latestTime (m : Mem) (t : Nat) : t ≤ latestTime m t := by
  unfold latestTime; split <;> omega

/-- the row time is the message's tick time unless an older message left a newer System State time behind -/
theorem rowTime_eq (m : Mem) (t : Nat) (st : Option Nat) (h : st.isSome ∨ m.sysTime = none ∨ ∃ u, m.sysTime = some u ∧ u ≤ t) :
    rowTime m t st = t := by
  unfold rowTime latestTime upsertTags
  cases st with
  | some v => simp
  | none =>
    rcases h with h | h | ⟨u, h, hu⟩
    · simp at h
    · simp [h]
    · simp [h]; omega

/-- A tags message adds at most one value row, and only to a plot log of the engine's current run. -/
theorem tagsChanged_values (c : Cfg) (s : State) (m : Mem) (x : Option Nat) (t : Nat) (st : Option Nat) :
    (tagsChanged c s m x t st).values = s.values ∨
    ∃ i r, (tagsChanged c s m x t st).values = s.values ++ [(i, rowTime m t st)] ∧ m.run = some r ∧
      s.plotLogs[i]? = some r := by
  unfold tagsChanged
  split
  · exact Or.inl rfl
  · unfold persist
    split
    · exact Or.inl rfl
    · rename_i r hr
      split
      · split
        · rcases valueRows_cases s r (latestTime (upsertTags m t st) t) with h | ⟨i, h, hg⟩
          · left; simp [h]
          · right; exact ⟨i, r, by simp [h, rowTime], by simpa using hr, hg⟩
        · left; simp
      · exact Or.inl rfl

/-- The tags message of the current run is recorded when the persistence threshold is passed and the run has a
plot log. -/
theorem tagsChanged_recorded (c : Cfg) (s : State) (m : Mem) (r t : Nat) (st : Option Nat) (hr : m.run = some r)
    (hl : r ∈ s.plotLogs) (hp : m.lastPersisted = none ∨ ∃ lp, m.lastPersisted = some lp ∧ lp + c.interval < t) :
    ∃ i, s.plotLogs[i]? = some r ∧
      (tagsChanged c s m (some r) t st).values = s.values ++ [(i, rowTime m t st)] := by
  obtain ⟨i, hi, hg⟩ := idxOf?_of_mem hl
  refine ⟨i, hg, ?_⟩
  have hle := le_latestTime (upsertTags m t st) t
  have hth : thresholdExceeded 0 m.lastPersisted t = true := by
    rcases hp with hp | ⟨lp, hp, hlt⟩
    · simp [thresholdExceeded, hp]
    · simp only [thresholdExceeded, hp, decide_eq_true_eq]; omega
  have hth' : thresholdExceeded c.interval m.lastPersisted (latestTime (upsertTags m t st) t) = true := by
    rcases hp with hp | ⟨lp, hp, hlt⟩
    · simp [thresholdExceeded, hp]
    · simp only [thresholdExceeded, hp, decide_eq_true_eq]; omega
  simp [tagsChanged, persist, hr, hth, hth', valueRows, hi, rowTime]

/-! ### persistRow -/

@[simp] theorem persistRow_mem (c : Cfg) (s : State) : (persistRow c s).mem = s.mem := by
  unfold persistRow; split
  · split <;> rfl
  · rfl
@[simp] theorem persistRow_plotLogs (c : Cfg) (s : State) : (persistRow c s).plotLogs = s.plotLogs := by
  unfold persistRow; split
  · split <;> rfl
  · rfl
@[simp] theorem persistRow_values (c : Cfg) (s : State) : (persistRow c s).values = s.values := by
  unfold persistRow; split
  · split <;> rfl
  · rfl
@[simp] theorem persistRow_recentRuns (c : Cfg) (s : State) : (persistRow c s).recentRuns = s.recentRuns := by
  unfold persistRow; split
  · split <;> rfl
  · rfl
/-- the row is left alone, or names the current run of the registered engine -/
theorem persistRow_recentEngine (c : Cfg) (s : State) :
    (persistRow c s).recentEngine = s.recentEngine ∨
    (c.persistRunEvents = true ∧ ∃ m, s.mem = some m ∧ (persistRow c s).recentEngine = some m.run) := by
  unfold persistRow
  split
  · rename_i hp
    split
    · rename_i m hm; exact Or.inr ⟨hp, m, hm, rfl⟩
    · exact Or.inl rfl
  · exact Or.inl rfl
theorem persistRow_sync (c : Cfg) (s : State) (m : Mem) (hp : c.persistRunEvents = true) (hm : s.mem = some m) :
    (persistRow c s).recentEngine = some m.run := by
  simp [persistRow, hp, hm, storeRecentEngine]

/-! ### createPlotLog / storeRecentRun -/

@[simp] theorem createPlotLog_mem (c : Cfg) (s : State) (r : Nat) : (createPlotLog c s r).mem = s.mem := by
  unfold createPlotLog; split <;> rfl
@[simp] theorem createPlotLog_recentEngine (c : Cfg) (s : State) (r : Nat) :
    (createPlotLog c s r).recentEngine = s.recentEngine := by
  unfold createPlotLog; split <;> rfl
@[simp] theorem createPlotLog_recentRuns (c : Cfg) (s : State) (r : Nat) :
    (createPlotLog c s r).recentRuns = s.recentRuns := by
  unfold createPlotLog; split <;> rfl
@[simp] theorem createPlotLog_values (c : Cfg) (s : State) (r : Nat) : (createPlotLog c s r).values = s.values := by
  unfold createPlotLog; split <;> rfl
theorem createPlotLog_mem_self (c : Cfg) (s : State) (r : Nat) : r ∈ (createPlotLog c s r).plotLogs := by
  unfold createPlotLog
  split
  · rename_i h
    simp only [Bool.and_eq_true] at h
    simpa using h.2
  · simp
theorem createPlotLog_mono (c : Cfg) (s : State) (r q : Nat) (h : q ∈ s.plotLogs) :
    q ∈ (createPlotLog c s r).plotLogs := by
  unfold createPlotLog
  split
  · exact h
  · simp [h]
/-- existing plot-log rows keep their position -/
theorem createPlotLog_get (c : Cfg) (s : State) (r i q : Nat) (h : s.plotLogs[i]? = some q) :
    (createPlotLog c s r).plotLogs[i]? = some q := by
  unfold createPlotLog
  split
  · exact h
  · simp only
    rw [List.getElem?_append_left]
    · exact h
    · exact (List.getElem?_eq_some_iff.mp h).1

@[simp] theorem storeRecentRun_mem (c : Cfg) (s : State) (r : Nat) : (storeRecentRun c s r).mem = s.mem := by
  unfold storeRecentRun; split <;> rfl
@[simp] theorem storeRecentRun_recentEngine (c : Cfg) (s : State) (r : Nat) :
    (storeRecentRun c s r).recentEngine = s.recentEngine := by
  unfold storeRecentRun; split <;> rfl
@[simp] theorem storeRecentRun_plotLogs (c : Cfg) (s : State) (r : Nat) :
    (storeRecentRun c s r).plotLogs = s.plotLogs := by
  unfold storeRecentRun; split <;> rfl
@[simp] theorem storeRecentRun_values (c : Cfg) (s : State) (r : Nat) : (storeRecentRun c s r).values = s.values := by
  unfold storeRecentRun; split <;> rfl
/-- storing run `q` never changes how often another run id is stored -/
theorem storeRecentRun_count_ne (c : Cfg) (s : State) (q r : Nat) (h : q ≠ r) :
    (storeRecentRun c s q).recentRuns.count r = s.recentRuns.count r := by
  unfold storeRecentRun
  split
  · rfl
  · simp [List.count_append, h]
/-- storing a run that has no row yet adds exactly one row -/
theorem storeRecentRun_fresh (c : Cfg) (s : State) (r : Nat) (h : r ∉ s.recentRuns) :
    (storeRecentRun c s r).recentRuns = s.recentRuns ++ [r] := by
  unfold storeRecentRun
  split
  · rename_i hc
    simp only [Bool.and_eq_true] at hc
    exact absurd (by simpa using hc.2) h
  · rfl

/-! ### startRun -/

theorem startRun_mem (c : Cfg) (s : State) (m : Mem) (r : Nat) (hm : s.mem = some m) :
    ∃ m', (startRun c s m r).mem = some m' ∧ m'.run = some r := by
  unfold startRun
  split
  · exact ⟨_, rfl, rfl⟩
  · rename_i q hq
    split
    · rename_i e; exact ⟨m, hm, by rw [hq, e]⟩
    · exact ⟨_, rfl, rfl⟩
@[simp] theorem startRun_recentEngine (c : Cfg) (s : State) (m : Mem) (r : Nat) :
    (startRun c s m r).recentEngine = s.recentEngine := by
  unfold startRun; split
  · rfl
  · split <;> simp
@[simp] theorem startRun_plotLogs (c : Cfg) (s : State) (m : Mem) (r : Nat) :
    (startRun c s m r).plotLogs = s.plotLogs := by
  unfold startRun; split
  · rfl
  · split <;> simp
@[simp] theorem startRun_values (c : Cfg) (s : State) (m : Mem) (r : Nat) :
    (startRun c s m r).values = s.values := by
  unfold startRun; split
  · rfl
  · split <;> simp
theorem startRun_same (c : Cfg) (s : State) (m : Mem) (r : Nat) (h : m.run = some r) : startRun c s m r = s := by
  simp [startRun, h]
/-- starting a run stores at most the previous run: the rows of any run id that is not the previous run are untouched -/
theorem startRun_count (c : Cfg) (s : State) (m : Mem) (r r' : Nat) (h : m.run ≠ some r') :
    (startRun c s m r).recentRuns.count r' = s.recentRuns.count r' := by
  unfold startRun
  split
  · rfl
  · rename_i q hq
    split
    · rfl
    · exact storeRecentRun_count_ne c s q r' (by intro e; exact h (by rw [hq, e]))
theorem startRun_count_self (c : Cfg) (s : State) (m : Mem) (r : Nat) :
    (startRun c s m r).recentRuns.count r = s.recentRuns.count r := by
  unfold startRun
  split
  · rfl
  · rename_i q hq
    split
    · rfl
    · rename_i hne; exact storeRecentRun_count_ne c s q r hne

/-! ### steps -/

theorem join_eq_some {x : Option (Option Nat)} {r : Nat} (h : x.join = some r) : x = some (some r) := by
  cases x with
  | none => simp at h
  | some y => cases y with
    | none => simp at h
    | some q => simp at h; simp [h]

/-- the row names the current run of a registered engine (where the code writes it with the run messages) — preserved
by every operation -/
theorem sync_step (c : Cfg) (s : State) (op : Op) (h : Sync c s) : Sync c (step c s op).1 := by
  intro hp m' hm'
  cases op with
  | register =>
    cases hm : s.mem with
    | some m => simp only [step, hm] at hm' ⊢; exact h hp m' (by rw [hm]; exact hm')
    | none =>
      simp only [step, hm, Option.some.injEq] at hm' ⊢
      subst hm'
      unfold restored
      split
      · rename_i r hr; simp [hr]
      · rename_i hn
        cases hre : s.recentEngine with
        | none => simp
        | some y => cases y with
          | none => simp
          | some r => exact absurd hre (hn r)
  | disconnect => cases hm : s.mem <;> simp [step, hm] at hm'
  | restart => cases hm : s.mem <;> simp [step, hm] at hm'
  | crash => simp [step] at hm'
  | start r =>
    cases hm : s.mem with
    | none => simp [step, hm] at hm'
    | some m =>
      simp only [step, hm, persistRow_mem, createPlotLog_mem] at hm' ⊢
      have := persistRow_sync c (createPlotLog c (startRun c s m r) r) m' hp (by simpa using hm')
      rw [this]; simp
  | stop r =>
    cases hm : s.mem with
    | none => simp [step, hm] at hm'
    | some m =>
      simp only [step, hm] at hm' ⊢
      cases hr : m.run with
      | none =>
        simp only [hr] at hm' ⊢
        first | exact h hp m' hm' | exact h hp m' (by rw [hm]; exact hm')
      | some q =>
        simp only [hr, persistRow_mem] at hm' ⊢
        have := persistRow_sync c { storeRecentRun c s q with mem := some { m with run := none, lastPersisted := none } }
          m' hp hm'
        rw [this]; simp
  | tags x t st =>
    cases hm : s.mem with
    | none => simp [step, hm] at hm'
    | some m =>
      simp only [step, hm] at hm' ⊢
      obtain ⟨m'', h1, h2⟩ := tagsChanged_mem c s m x t st hm
      rw [h1] at hm'
      simp only [Option.some.injEq] at hm'
      subst hm'
      simp only [tagsChanged_recentEngine]
      rw [h2]; exact h hp m hm

/-- A quiet operation keeps the run associated with the engine. -/
theorem assoc_step_quiet (c : Cfg) (s : State) (op : Op) (r : Nat) (hs : Sync c s) (ha : assoc s = some r)
    (hq : quiet c r op = true) : assoc (step c s op).1 = some r := by
  cases op with
  | register =>
    cases hm : s.mem with
    | some m => simp [step, hm, assoc] at ha ⊢; exact ha
    | none =>
      simp only [assoc, hm] at ha
      have := join_eq_some ha
      simp [step, hm, assoc, restored, this]
  | disconnect =>
    cases hm : s.mem with
    | some m => simp [step, hm, assoc, storeRecentEngine] at ha ⊢; exact ha
    | none => simp [step, hm, assoc] at ha ⊢; exact ha
  | restart =>
    cases hm : s.mem with
    | some m => simp [step, hm, assoc, storeRecentEngine] at ha ⊢; exact ha
    | none => simp [step, hm, assoc] at ha ⊢; exact ha
  | crash =>
    have hp : c.persistRunEvents = true := by simpa [quiet] using hq
    cases hm : s.mem with
    | some m =>
      simp only [assoc, hm] at ha
      simp only [step, assoc]
      rw [hs hp m hm]; exact ha
    | none => simp [step, hm, assoc] at ha ⊢; exact ha
  | start q =>
    have hqr : q = r := by simpa [quiet] using hq
    subst hqr
    cases hm : s.mem with
    | none => simp [step, hm, assoc] at ha ⊢; exact ha
    | some m =>
      obtain ⟨m', h1, h2⟩ := startRun_mem c s m q hm
      simp [step, hm, assoc, h1, h2]
  | stop q => simp [quiet] at hq
  | tags x t st =>
    cases hm : s.mem with
    | none => simp [step, hm, assoc] at ha ⊢; exact ha
    | some m =>
      simp only [assoc, hm] at ha
      obtain ⟨m', h1, h2⟩ := tagsChanged_mem c s m x t st hm
      simp [step, hm, assoc, h1, h2, ha]

/-- A quiet operation stores no recent run. -/
theorem recentRuns_step_quiet (c : Cfg) (s : State) (op : Op) (r : Nat) (ha : assoc s = some r)
    (hq : quiet c r op = true) : (step c s op).1.recentRuns = s.recentRuns := by
  cases op with
  | register => cases hm : s.mem <;> simp [step, hm]
  | disconnect => cases hm : s.mem <;> simp [step, hm, storeRecentEngine]
  | restart => cases hm : s.mem <;> simp [step, hm, storeRecentEngine]
  | crash => simp [step]
  | start q =>
    have hqr : q = r := by simpa [quiet] using hq
    subst hqr
    cases hm : s.mem with
    | none => simp [step, hm]
    | some m =>
      simp only [assoc, hm] at ha
      simp [step, hm, startRun_same c s m q ha]
  | stop q => simp [quiet] at hq
  | tags x t st => cases hm : s.mem <;> simp [step, hm]

theorem wf_persistRow (c : Cfg) (s : State) (w : WF s) : WF (persistRow c s) := by
  refine ⟨?_, ?_⟩
  · intro m r h1 h2
    simp only [persistRow_mem] at h1
    simp only [persistRow_plotLogs]
    exact w.memLog m r h1 h2
  · intro r h
    simp only [persistRow_plotLogs]
    rcases persistRow_recentEngine c s with e | ⟨_, m, hm, e⟩
    · rw [e] at h; exact w.rowLog r h
    · rw [e] at h
      simp only [Option.some.injEq] at h
      exact w.memLog m r hm h

/-- Every run the aggregator may resume has a plot log — preserved by every operation. -/
theorem wf_step (c : Cfg) (s : State) (op : Op) (w : WF s) : WF (step c s op).1 := by
  cases op with
  | register =>
    cases hm : s.mem with
    | some m => simpa [step, hm] using w
    | none =>
      simp only [step, hm]
      refine ⟨?_, w.rowLog⟩
      intro m r h1 h2
      simp only [Option.some.injEq] at h1
      subst h1
      unfold restored at h2
      split at h2
      · rename_i q hq
        simp only [Option.some.injEq] at h2
        subst h2
        exact w.rowLog _ hq
      · simp at h2
  | disconnect =>
    cases hm : s.mem with
    | some m =>
      simp only [step, hm, storeRecentEngine]
      refine ⟨by intro m' r h; simp at h, ?_⟩
      intro r h
      simp only [Option.some.injEq] at h
      exact w.memLog m r hm h
    | none => simpa [step, hm] using w
  | restart =>
    cases hm : s.mem with
    | some m =>
      simp only [step, hm, storeRecentEngine]
      refine ⟨by intro m' r h; simp at h, ?_⟩
      intro r h
      simp only [Option.some.injEq] at h
      exact w.memLog m r hm h
    | none => simpa [step, hm] using w
  | crash =>
    simp only [step]
    exact ⟨by intro m' r h; simp at h, w.rowLog⟩
  | start q =>
    cases hm : s.mem with
    | none => simpa [step, hm] using w
    | some m =>
      simp only [step, hm]
      apply wf_persistRow
      obtain ⟨m', h1, h2⟩ := startRun_mem c s m q hm
      refine ⟨?_, ?_⟩
      · intro m'' r hm'' hr''
        simp only [createPlotLog_mem] at hm''
        rw [h1] at hm''
        simp only [Option.some.injEq] at hm''
        subst hm''
        rw [h2] at hr''
        simp only [Option.some.injEq] at hr''
        subst hr''
        exact createPlotLog_mem_self _ _ _
      · intro r h
        simp only [createPlotLog_recentEngine, startRun_recentEngine] at h
        apply createPlotLog_mono
        simp only [startRun_plotLogs]
        exact w.rowLog r h
  | stop q =>
    cases hm : s.mem with
    | none => simpa [step, hm] using w
    | some m =>
      simp only [step, hm]
      cases hr : m.run with
      | none => simpa using w
      | some q' =>
        simp only
        apply wf_persistRow
        refine ⟨?_, ?_⟩
        · intro m' r h1 h2
          simp only [Option.some.injEq] at h1
          subst h1
          simp at h2
        · intro r h
          simp only [storeRecentRun_recentEngine] at h
          simp only [storeRecentRun_plotLogs]
          exact w.rowLog r h
  | tags x t st =>
    cases hm : s.mem with
    | none => simpa [step, hm] using w
    | some m =>
      simp only [step, hm]
      refine ⟨?_, ?_⟩
      · intro m' r h1 h2
        obtain ⟨m'', h3, h4⟩ := tagsChanged_mem c s m x t st hm
        rw [h3] at h1
        simp only [Option.some.injEq] at h1
        subst h1
        simp only [tagsChanged_plotLogs]
        exact w.memLog m r hm (h4 ▸ h2)
      · intro r h
        simp only [tagsChanged_recentEngine] at h
        simp only [tagsChanged_plotLogs]
        exact w.rowLog r h

theorem done_persistRow (c : Cfg) (s : State) (r : Nat) (d : Done r s) : Done r (persistRow c s) := by
  refine ⟨?_, ?_⟩
  · intro m h; simp only [persistRow_mem] at h; exact d.notCurrent m h
  · intro h
    simp only [persistRow_mem] at h
    rcases persistRow_recentEngine c s with e | ⟨_, m, hm, _⟩
    · rw [e]; exact d.notResumable h
    · rw [hm] at h; cases h

/-- Once run `r` is over it stays over, and is never stored again, unless a RunStartedMsg names it again (a crash of
the aggregator only where the code keeps the RecentEngines row up to date). -/
theorem done_step (c : Cfg) (s : State) (op : Op) (r : Nat) (hs : Sync c s) (d : Done r s) (hne : op ≠ .start r)
    (hcr : op = .crash → c.persistRunEvents = true) :
    Done r (step c s op).1 ∧ (step c s op).1.recentRuns.count r = s.recentRuns.count r := by
  cases op with
  | register =>
    cases hm : s.mem with
    | some m => simp only [step, hm]; exact ⟨d, by first | rfl | trivial⟩
    | none =>
      simp only [step, hm]
      refine ⟨⟨?_, by intro h; simp at h⟩, by first | rfl | trivial⟩
      intro m h1 h2
      simp only [Option.some.injEq] at h1
      subst h1
      unfold restored at h2
      split at h2
      · rename_i q hq
        simp only [Option.some.injEq] at h2
        subst h2
        exact d.notResumable hm hq
      · simp at h2
  | disconnect =>
    cases hm : s.mem with
    | some m =>
      simp only [step, hm, storeRecentEngine]
      refine ⟨⟨by intro m' h; simp at h, ?_⟩, by first | rfl | trivial⟩
      intro _ h
      simp only [Option.some.injEq] at h
      exact d.notCurrent m hm h
    | none => simp only [step, hm]; exact ⟨d, by first | rfl | trivial⟩
  | restart =>
    cases hm : s.mem with
    | some m =>
      simp only [step, hm, storeRecentEngine]
      refine ⟨⟨by intro m' h; simp at h, ?_⟩, by first | rfl | trivial⟩
      intro _ h
      simp only [Option.some.injEq] at h
      exact d.notCurrent m hm h
    | none => simp only [step, hm]; exact ⟨d, by first | rfl | trivial⟩
  | crash =>
    have hp := hcr rfl
    simp only [step]
    refine ⟨⟨by intro m' h; simp at h, ?_⟩, by first | rfl | trivial⟩
    intro _ h
    cases hm : s.mem with
    | none => exact d.notResumable hm h
    | some m =>
      have hj := hs hp m hm
      rw [h] at hj
      simp only [Option.join_some] at hj
      exact d.notCurrent m hm hj.symm
  | start q =>
    have hq : q ≠ r := by intro e; exact hne (by rw [e])
    cases hm : s.mem with
    | none => simp only [step, hm]; exact ⟨d, by first | rfl | trivial⟩
    | some m =>
      simp only [step, hm, persistRow_recentRuns, createPlotLog_recentRuns]
      refine ⟨?_, startRun_count c s m q r (d.notCurrent m hm)⟩
      apply done_persistRow
      obtain ⟨m', h1, h2⟩ := startRun_mem c s m q hm
      refine ⟨?_, ?_⟩
      · intro m'' hm'' hr''
        simp only [createPlotLog_mem] at hm''
        rw [h1] at hm''
        simp only [Option.some.injEq] at hm''
        subst hm''
        rw [h2] at hr''
        simp only [Option.some.injEq] at hr''
        exact hq hr''
      · intro h
        simp only [createPlotLog_mem] at h
        rw [h1] at h; cases h
  | stop q =>
    cases hm : s.mem with
    | none => simp only [step, hm]; exact ⟨d, by first | rfl | trivial⟩
    | some m =>
      simp only [step, hm]
      cases hr : m.run with
      | none => simp only; exact ⟨d, by first | rfl | trivial⟩
      | some q' =>
        simp only [persistRow_recentRuns]
        have hq' : q' ≠ r := by
          intro e
          exact d.notCurrent m hm (by rw [hr, e])
        refine ⟨?_, storeRecentRun_count_ne c s q' r hq'⟩
        apply done_persistRow
        refine ⟨?_, by intro h; simp at h⟩
        intro m' h1 h2
        simp only [Option.some.injEq] at h1
        subst h1
        simp at h2
  | tags x t st =>
    cases hm : s.mem with
    | none => simp only [step, hm]; exact ⟨d, by first | rfl | trivial⟩
    | some m =>
      simp only [step, hm, tagsChanged_recentRuns]
      refine ⟨⟨?_, ?_⟩, by first | rfl | trivial⟩
      · intro m' h1 h2
        obtain ⟨m'', h3, h4⟩ := tagsChanged_mem c s m x t st hm
        rw [h3] at h1
        simp only [Option.some.injEq] at h1
        subst h1
        exact d.notCurrent m hm (h4 ▸ h2)
      · intro h
        obtain ⟨m'', h3, _⟩ := tagsChanged_mem c s m x t st hm
        rw [h3] at h
        simp at h

/-- One operation adds at most one value row; it comes from a tags message and hangs on a plot log of the run the
engine is in at that moment. -/
theorem values_step (c : Cfg) (s : State) (op : Op) :
    (step c s op).1.values = s.values ∨
    ∃ i t r m x st, op = .tags x t st ∧ (step c s op).1.values = s.values ++ [(i, rowTime m t st)] ∧ s.mem = some m ∧
      m.run = some r ∧ s.plotLogs[i]? = some r := by
  cases op with
  | register => cases hm : s.mem <;> simp [step, hm]
  | disconnect => cases hm : s.mem <;> simp [step, hm, storeRecentEngine]
  | restart => cases hm : s.mem <;> simp [step, hm, storeRecentEngine]
  | crash => simp [step]
  | start q => cases hm : s.mem <;> simp [step, hm]
  | stop q =>
    cases hm : s.mem with
    | none => simp [step, hm]
    | some m =>
      left
      simp only [step, hm]
      cases hr : m.run <;> simp
  | tags x t st =>
    cases hm : s.mem with
    | none => simp [step, hm]
    | some m =>
      simp only [step, hm]
      rcases tagsChanged_values c s m x t st with h | ⟨i, r, h1, h2, h3⟩
      · exact Or.inl h
      · exact Or.inr ⟨i, t, r, m, x, st, rfl, h1, rfl, h2, h3⟩

/-- Plot-log rows never move or change their run id: a value row stays attached to the run it was recorded for. -/
theorem plotLogs_step_get (c : Cfg) (s : State) (op : Op) (i q : Nat) (h : s.plotLogs[i]? = some q) :
    (step c s op).1.plotLogs[i]? = some q := by
  cases op with
  | register => cases hm : s.mem <;> simpa [step, hm] using h
  | disconnect => cases hm : s.mem <;> simpa [step, hm, storeRecentEngine] using h
  | restart => cases hm : s.mem <;> simpa [step, hm, storeRecentEngine] using h
  | crash => simpa [step] using h
  | start r =>
    cases hm : s.mem with
    | none => simpa [step, hm] using h
    | some m =>
      simp only [step, hm, persistRow_plotLogs]
      apply createPlotLog_get
      simpa using h
  | stop r =>
    cases hm : s.mem with
    | none => simpa [step, hm] using h
    | some m =>
      simp only [step, hm]
      cases hr : m.run <;> simpa using h
  | tags x t st => cases hm : s.mem <;> simpa [step, hm] using h

end OPM.Reconnect
