import OPM.Model.Reconnect
/-!
Helper lemmas for C28: the run associated with the engine, the plot-log invariant, what each step does to the
recent-run rows.
-/
namespace OPM.Reconnect

/-- The run the aggregator associates with the engine: the run of its engine data while it is registered, otherwise
the run id kept in its RecentEngines row. -/
def assoc (s : State) : Option Nat :=
  match s.mem with
  | some m => m.run
  | none => s.recentEngine.join

/-- Operations that neither end run `r` nor begin another one: registration, disconnect, aggregator restart, tag
messages, and a repeated RunStartedMsg of `r` itself. -/
def quiet (r : Nat) : Op → Bool
  | .register | .disconnect | .restart | .tags _ _ _ => true
  | .start q => q == r
  | .stop _ => false

/-- Every run id the aggregator may resume has a plot log. -/
structure WF (s : State) : Prop where
  memLog : ∀ m r, s.mem = some m → m.run = some r → r ∈ s.plotLogs
  rowLog : ∀ r, s.recentEngine = some (some r) → r ∈ s.plotLogs

/-- Run `r` is over: it is neither the engine's current run nor resumable from the RecentEngines row. -/
structure Done (r : Nat) (s : State) : Prop where
  notCurrent : ∀ m, s.mem = some m → m.run ≠ some r
  notResumable : s.mem = none → s.recentEngine ≠ some (some r)

/-! ### idxOf? -/

theorem idxOf?_of_mem {l : List Nat} {r : Nat} (h : r ∈ l) : ∃ i, l.idxOf? r = some i ∧ l[i]? = some r := by
  induction l with
  | nil => cases h
  | cons a l ih =>
    by_cases e : a = r
    · exact ⟨0, by simp [List.idxOf?, List.findIdx?_cons, e], by simp [e]⟩
    · have hm : r ∈ l := by
        cases h with
        | head => exact absurd rfl e
        | tail _ h => exact h
      obtain ⟨i, h1, h2⟩ := ih hm
      refine ⟨i + 1, ?_, by simpa using h2⟩
      have h1' : List.findIdx? (fun x => x == r) l = some i := h1
      simp [List.idxOf?, List.findIdx?_cons, e, h1']

theorem idxOf?_get {l : List Nat} {r i : Nat} (h : l.idxOf? r = some i) : l[i]? = some r := by
  induction l generalizing i with
  | nil => simp [List.idxOf?] at h
  | cons a l ih =>
    by_cases e : a = r
    · simp [List.idxOf?, List.findIdx?_cons, e] at h
      subst h; simp [e]
    · simp only [List.idxOf?, List.findIdx?_cons] at h
      have : (a == r) = false := by simpa using e
      simp only [this] at h
      cases hh : List.findIdx? (fun x => x == r) l with
      | none => simp [hh] at h
      | some j =>
        simp [hh] at h
        subst h
        simpa using ih (i := j) hh

/-! ### tagsChanged -/

theorem valueRows_cases (s : State) (r t : Nat) :
    valueRows s r t = [] ∨ ∃ i, valueRows s r t = [(i, t)] ∧ s.plotLogs[i]? = some r := by
  unfold valueRows
  split
  · rename_i i hi
    exact Or.inr ⟨i, rfl, idxOf?_get hi⟩
  · exact Or.inl rfl

theorem persist_mem (s : State) (m : Mem) (t : Nat) :
    ∃ m', (persist s m t).mem = some m' ∧ m'.run = m.run := by
  unfold persist
  split
  · exact ⟨_, rfl, rfl⟩
  · split <;> exact ⟨_, rfl, rfl⟩

@[simp] theorem upsertTags_run (m : Mem) (t : Nat) (st : Option Nat) : (upsertTags m t st).run = m.run := by
  unfold upsertTags; split <;> rfl
@[simp] theorem upsertTags_lastPersisted (m : Mem) (t : Nat) (st : Option Nat) :
    (upsertTags m t st).lastPersisted = m.lastPersisted := by
  unfold upsertTags; split <;> rfl

theorem tagsChanged_mem (s : State) (m : Mem) (x : Option Nat) (t : Nat) (st : Option Nat) (hm : s.mem = some m) :
    ∃ m', (tagsChanged s m x t st).mem = some m' ∧ m'.run = m.run := by
  unfold tagsChanged
  split
  · exact ⟨m, hm, rfl⟩
  · obtain ⟨m', h1, h2⟩ := persist_mem s (upsertTags m t st) t
    exact ⟨m', h1, by rw [h2]; simp⟩

@[simp] theorem persist_recentEngine (s : State) (m : Mem) (t : Nat) :
    (persist s m t).recentEngine = s.recentEngine := by
  unfold persist
  split
  · rfl
  · split <;> rfl
@[simp] theorem persist_plotLogs (s : State) (m : Mem) (t : Nat) : (persist s m t).plotLogs = s.plotLogs := by
  unfold persist
  split
  · rfl
  · split <;> rfl
@[simp] theorem persist_recentRuns (s : State) (m : Mem) (t : Nat) : (persist s m t).recentRuns = s.recentRuns := by
  unfold persist
  split
  · rfl
  · split <;> rfl

@[simp] theorem tagsChanged_recentEngine (s : State) (m : Mem) (x : Option Nat) (t : Nat) (st : Option Nat) :
    (tagsChanged s m x t st).recentEngine = s.recentEngine := by
  unfold tagsChanged; split <;> simp
@[simp] theorem tagsChanged_plotLogs (s : State) (m : Mem) (x : Option Nat) (t : Nat) (st : Option Nat) :
    (tagsChanged s m x t st).plotLogs = s.plotLogs := by
  unfold tagsChanged; split <;> simp
@[simp] theorem tagsChanged_recentRuns (s : State) (m : Mem) (x : Option Nat) (t : Nat) (st : Option Nat) :
    (tagsChanged s m x t st).recentRuns = s.recentRuns := by
  unfold tagsChanged; split <;> simp

/-- the tick time a persisted row gets: the newest tick time among the tags the engine data holds after the message -/
def rowTime (m : Mem) (t : Nat) (st : Option Nat) : Nat := latestTime (upsertTags m t st) t

theorem le_latestTime (m : Mem) (t : Nat) : t ≤ latestTime m t := by
  unfold latestTime; split <;> omega

/-- the row time is the message's tick time unless an older message left a newer System State time behind -/
theorem rowTime_eq (m : Mem) (t : Nat) (st : Option Nat) (h : st.isSome ∨ m.sysTime = none ∨ ∃ u, m.sysTime = some u ∧ u ≤ t) :
    rowTime m t st = t := by
  unfold rowTime latestTime upsertTags
  cases st with
  | some v => simp
  | none =>
    rcases h with h | h | ⟨u, h, hu⟩
    · simp at h
    · simp [h]
    · simp [h]; omega

/-- A tags message adds at most one value row, and only to a plot log of the engine's current run. -/
theorem tagsChanged_values (s : State) (m : Mem) (x : Option Nat) (t : Nat) (st : Option Nat) :
    (tagsChanged s m x t st).values = s.values ∨
    ∃ i r, (tagsChanged s m x t st).values = s.values ++ [(i, rowTime m t st)] ∧ m.run = some r ∧
      s.plotLogs[i]? = some r := by
  unfold tagsChanged
  split
  · exact Or.inl rfl
  · unfold persist
    split
    · exact Or.inl rfl
    · rename_i r hr
      split
      · split
        · rcases valueRows_cases s r (latestTime (upsertTags m t st) t) with h | ⟨i, h, hg⟩
          · left; simp [h]
          · right; exact ⟨i, r, by simp [h, rowTime], by simpa using hr, hg⟩
        · left; simp
      · exact Or.inl rfl

/-- The tags message of the current run is recorded when the persistence threshold is passed and the run has a
plot log. -/
theorem tagsChanged_recorded (s : State) (m : Mem) (r t : Nat) (st : Option Nat) (hr : m.run = some r)
    (hl : r ∈ s.plotLogs) (hp : m.lastPersisted = none ∨ ∃ lp, m.lastPersisted = some lp ∧ lp < t) :
    ∃ i, s.plotLogs[i]? = some r ∧
      (tagsChanged s m (some r) t st).values = s.values ++ [(i, rowTime m t st)] := by
  obtain ⟨i, hi, hg⟩ := idxOf?_of_mem hl
  refine ⟨i, hg, ?_⟩
  have hle := le_latestTime (upsertTags m t st) t
  have hth : thresholdExceeded m.lastPersisted t = true := by
    rcases hp with hp | ⟨lp, hp, hlt⟩
    · simp [thresholdExceeded, hp]
    · simp [thresholdExceeded, hp, hlt]
  have hth' : thresholdExceeded m.lastPersisted (latestTime (upsertTags m t st) t) = true := by
    rcases hp with hp | ⟨lp, hp, hlt⟩
    · simp [thresholdExceeded, hp]
    · simp only [thresholdExceeded, hp, decide_eq_true_eq]; omega
  simp [tagsChanged, persist, hr, hth, hth', valueRows, hi, rowTime]

/-! ### createPlotLog / storeRecentRun -/

@[simp] theorem createPlotLog_mem (c : Cfg) (s : State) (r : Nat) : (createPlotLog c s r).mem = s.mem := by
  unfold createPlotLog; split <;> rfl
@[simp] theorem createPlotLog_recentEngine (c : Cfg) (s : State) (r : Nat) :
    (createPlotLog c s r).recentEngine = s.recentEngine := by
  unfold createPlotLog; split <;> rfl
@[simp] theorem createPlotLog_recentRuns (c : Cfg) (s : State) (r : Nat) :
    (createPlotLog c s r).recentRuns = s.recentRuns := by
  unfold createPlotLog; split <;> rfl
@[simp] theorem createPlotLog_values (c : Cfg) (s : State) (r : Nat) : (createPlotLog c s r).values = s.values := by
  unfold createPlotLog; split <;> rfl
theorem createPlotLog_mem_self (c : Cfg) (s : State) (r : Nat) : r ∈ (createPlotLog c s r).plotLogs := by
  unfold createPlotLog
  split
  · rename_i h
    simp only [Bool.and_eq_true] at h
    simpa using h.2
  · simp
theorem createPlotLog_mono (c : Cfg) (s : State) (r q : Nat) (h : q ∈ s.plotLogs) :
    q ∈ (createPlotLog c s r).plotLogs := by
  unfold createPlotLog
  split
  · exact h
  · simp [h]
/-- existing plot-log rows keep their position -/
theorem createPlotLog_get (c : Cfg) (s : State) (r i q : Nat) (h : s.plotLogs[i]? = some q) :
    (createPlotLog c s r).plotLogs[i]? = some q := by
  unfold createPlotLog
  split
  · exact h
  · simp only
    rw [List.getElem?_append_left]
    · exact h
    · exact (List.getElem?_eq_some_iff.mp h).1

@[simp] theorem storeRecentRun_mem (c : Cfg) (s : State) (r : Nat) : (storeRecentRun c s r).mem = s.mem := by
  unfold storeRecentRun; split <;> rfl
@[simp] theorem storeRecentRun_recentEngine (c : Cfg) (s : State) (r : Nat) :
    (storeRecentRun c s r).recentEngine = s.recentEngine := by
  unfold storeRecentRun; split <;> rfl
@[simp] theorem storeRecentRun_plotLogs (c : Cfg) (s : State) (r : Nat) :
    (storeRecentRun c s r).plotLogs = s.plotLogs := by
  unfold storeRecentRun; split <;> rfl
@[simp] theorem storeRecentRun_values (c : Cfg) (s : State) (r : Nat) : (storeRecentRun c s r).values = s.values := by
  unfold storeRecentRun; split <;> rfl
/-- storing run `q` never changes how often another run id is stored -/
theorem storeRecentRun_count_ne (c : Cfg) (s : State) (q r : Nat) (h : q ≠ r) :
    (storeRecentRun c s q).recentRuns.count r = s.recentRuns.count r := by
  unfold storeRecentRun
  split
  · rfl
  · simp [List.count_append, h]
/-- storing a run that has no row yet adds exactly one row -/
theorem storeRecentRun_fresh (c : Cfg) (s : State) (r : Nat) (h : r ∉ s.recentRuns) :
    (storeRecentRun c s r).recentRuns = s.recentRuns ++ [r] := by
  unfold storeRecentRun
  split
  · rename_i hc
    simp only [Bool.and_eq_true] at hc
    exact absurd (by simpa using hc.2) h
  · rfl

/-! ### steps -/

theorem join_eq_some {x : Option (Option Nat)} {r : Nat} (h : x.join = some r) : x = some (some r) := by
  cases x with
  | none => simp at h
  | some y => cases y with
    | none => simp at h
    | some q => simp at h; simp [h]

/-- A quiet operation keeps the run associated with the engine. -/
theorem assoc_step_quiet (c : Cfg) (s : State) (op : Op) (r : Nat) (ha : assoc s = some r)
    (hq : quiet r op = true) : assoc (step c s op).1 = some r := by
  cases op with
  | register =>
    cases hm : s.mem with
    | some m => simp [step, hm, assoc] at ha ⊢; exact ha
    | none =>
      simp only [assoc, hm] at ha
      have := join_eq_some ha
      simp [step, hm, assoc, restored, this]
  | disconnect =>
    cases hm : s.mem with
    | some m => simp [step, hm, assoc, storeRecentEngine] at ha ⊢; exact ha
    | none => simp [step, hm, assoc] at ha ⊢; exact ha
  | restart =>
    cases hm : s.mem with
    | some m => simp [step, hm, assoc, storeRecentEngine] at ha ⊢; exact ha
    | none => simp [step, hm, assoc] at ha ⊢; exact ha
  | start q =>
    have hqr : q = r := by simpa [quiet] using hq
    subst hqr
    cases hm : s.mem with
    | none => simp [step, hm, assoc] at ha ⊢; exact ha
    | some m =>
      simp only [assoc, hm] at ha
      simp [step, hm, ha, assoc]
  | stop q => simp [quiet] at hq
  | tags x t st =>
    cases hm : s.mem with
    | none => simp [step, hm, assoc] at ha ⊢; exact ha
    | some m =>
      simp only [assoc, hm] at ha
      obtain ⟨m', h1, h2⟩ := tagsChanged_mem s m x t st hm
      simp [step, hm, assoc, h1, h2, ha]

/-- A quiet operation stores no recent run. -/
theorem recentRuns_step_quiet (c : Cfg) (s : State) (op : Op) (r : Nat) (ha : assoc s = some r)
    (hq : quiet r op = true) : (step c s op).1.recentRuns = s.recentRuns := by
  cases op with
  | register => cases hm : s.mem <;> simp [step, hm]
  | disconnect => cases hm : s.mem <;> simp [step, hm, storeRecentEngine]
  | restart => cases hm : s.mem <;> simp [step, hm, storeRecentEngine]
  | start q =>
    have hqr : q = r := by simpa [quiet] using hq
    subst hqr
    cases hm : s.mem with
    | none => simp [step, hm]
    | some m =>
      simp only [assoc, hm] at ha
      simp [step, hm, ha]
  | stop q => simp [quiet] at hq
  | tags x t st => cases hm : s.mem <;> simp [step, hm]

/-- Every run the aggregator may resume has a plot log — preserved by every operation. -/
theorem wf_step (c : Cfg) (s : State) (op : Op) (w : WF s) : WF (step c s op).1 := by
  cases op with
  | register =>
    cases hm : s.mem with
    | some m => simpa [step, hm] using w
    | none =>
      simp only [step, hm]
      refine ⟨?_, w.rowLog⟩
      intro m r h1 h2
      simp only [Option.some.injEq] at h1
      subst h1
      unfold restored at h2
      split at h2
      · rename_i q hq
        simp only [Option.some.injEq] at h2
        subst h2
        exact w.rowLog _ hq
      · simp at h2
  | disconnect =>
    cases hm : s.mem with
    | some m =>
      simp only [step, hm, storeRecentEngine]
      refine ⟨by intro m' r h; simp at h, ?_⟩
      intro r h
      simp only [Option.some.injEq] at h
      exact w.memLog m r hm h
    | none => simpa [step, hm] using w
  | restart =>
    cases hm : s.mem with
    | some m =>
      simp only [step, hm, storeRecentEngine]
      refine ⟨by intro m' r h; simp at h, ?_⟩
      intro r h
      simp only [Option.some.injEq] at h
      exact w.memLog m r hm h
    | none => simpa [step, hm] using w
  | start q =>
    cases hm : s.mem with
    | none => simpa [step, hm] using w
    | some m =>
      simp only [step, hm]
      cases hr : m.run with
      | none =>
        simp only
        refine ⟨?_, ?_⟩
        · intro m' r h1 h2
          simp only [createPlotLog_mem, Option.some.injEq] at h1
          subst h1
          simp only [Option.some.injEq] at h2
          subst h2
          exact createPlotLog_mem_self _ _ _
        · intro r h
          simp only [createPlotLog_recentEngine] at h
          exact createPlotLog_mono _ _ _ _ (w.rowLog r h)
      | some q' =>
        simp only
        split
        · refine ⟨?_, ?_⟩
          · intro m' r h1 h2
            simp only [createPlotLog_mem] at h1
            exact createPlotLog_mono _ _ _ _ (w.memLog m' r h1 h2)
          · intro r h
            simp only [createPlotLog_recentEngine] at h
            exact createPlotLog_mono _ _ _ _ (w.rowLog r h)
        · refine ⟨?_, ?_⟩
          · intro m' r h1 h2
            simp only [createPlotLog_mem, Option.some.injEq] at h1
            subst h1
            simp only [Option.some.injEq] at h2
            subst h2
            exact createPlotLog_mem_self _ _ _
          · intro r h
            simp only [createPlotLog_recentEngine, storeRecentRun_recentEngine] at h
            apply createPlotLog_mono
            simp only [storeRecentRun_plotLogs]
            exact w.rowLog r h
  | stop q =>
    cases hm : s.mem with
    | none => simpa [step, hm] using w
    | some m =>
      simp only [step, hm]
      cases hr : m.run with
      | none => simpa using w
      | some q' =>
        simp only
        refine ⟨?_, ?_⟩
        · intro m' r h1 h2
          simp only [Option.some.injEq] at h1
          subst h1
          simp at h2
        · intro r h
          simp only [storeRecentRun_recentEngine] at h
          simp only [storeRecentRun_plotLogs]
          exact w.rowLog r h
  | tags x t st =>
    cases hm : s.mem with
    | none => simpa [step, hm] using w
    | some m =>
      simp only [step, hm]
      refine ⟨?_, ?_⟩
      · intro m' r h1 h2
        obtain ⟨m'', h3, h4⟩ := tagsChanged_mem s m x t st hm
        rw [h3] at h1
        simp only [Option.some.injEq] at h1
        subst h1
        simp only [tagsChanged_plotLogs]
        exact w.memLog m r hm (h4 ▸ h2)
      · intro r h
        simp only [tagsChanged_recentEngine] at h
        simp only [tagsChanged_plotLogs]
        exact w.rowLog r h

/-- Once run `r` is over it stays over, and is never stored again, unless a RunStartedMsg names it again. -/
theorem done_step (c : Cfg) (s : State) (op : Op) (r : Nat) (d : Done r s) (hne : op ≠ .start r) :
    Done r (step c s op).1 ∧ (step c s op).1.recentRuns.count r = s.recentRuns.count r := by
  cases op with
  | register =>
    cases hm : s.mem with
    | some m => simp only [step, hm]; exact ⟨d, by first | rfl | trivial⟩
    | none =>
      simp only [step, hm]
      refine ⟨⟨?_, by intro h; simp at h⟩, by first | rfl | trivial⟩
      intro m h1 h2
      simp only [Option.some.injEq] at h1
      subst h1
      unfold restored at h2
      split at h2
      · rename_i q hq
        simp only [Option.some.injEq] at h2
        subst h2
        exact d.notResumable hm hq
      · simp at h2
  | disconnect =>
    cases hm : s.mem with
    | some m =>
      simp only [step, hm, storeRecentEngine]
      refine ⟨⟨by intro m' h; simp at h, ?_⟩, by first | rfl | trivial⟩
      intro _ h
      simp only [Option.some.injEq] at h
      exact d.notCurrent m hm h
    | none => simp only [step, hm]; exact ⟨d, by first | rfl | trivial⟩
  | restart =>
    cases hm : s.mem with
    | some m =>
      simp only [step, hm, storeRecentEngine]
      refine ⟨⟨by intro m' h; simp at h, ?_⟩, by first | rfl | trivial⟩
      intro _ h
      simp only [Option.some.injEq] at h
      exact d.notCurrent m hm h
    | none => simp only [step, hm]; exact ⟨d, by first | rfl | trivial⟩
  | start q =>
    have hq : q ≠ r := by intro e; exact hne (by rw [e])
    cases hm : s.mem with
    | none => simp only [step, hm]; exact ⟨d, by first | rfl | trivial⟩
    | some m =>
      simp only [step, hm]
      cases hr : m.run with
      | none =>
        simp only [createPlotLog_recentRuns]
        refine ⟨⟨?_, by intro h; simp at h⟩, by first | rfl | trivial⟩
        intro m' h1 h2
        simp only [createPlotLog_mem, Option.some.injEq] at h1
        subst h1
        simp only [Option.some.injEq] at h2
        exact hq h2
      | some q' =>
        simp only
        split
        · simp only [createPlotLog_recentRuns]
          refine ⟨⟨?_, ?_⟩, by first | rfl | trivial⟩
          · intro m' h1
            simp only [createPlotLog_mem] at h1
            exact d.notCurrent m' h1
          · intro h; simp [hm] at h
        · simp only [createPlotLog_recentRuns]
          have hq' : q' ≠ r := by
            intro e
            exact d.notCurrent m hm (by rw [hr, e])
          refine ⟨⟨?_, by intro h; simp at h⟩, storeRecentRun_count_ne c s q' r hq'⟩
          intro m' h1 h2
          simp only [createPlotLog_mem, Option.some.injEq] at h1
          subst h1
          simp only [Option.some.injEq] at h2
          exact hq h2
  | stop q =>
    cases hm : s.mem with
    | none => simp only [step, hm]; exact ⟨d, by first | rfl | trivial⟩
    | some m =>
      simp only [step, hm]
      cases hr : m.run with
      | none => simp only; exact ⟨d, by first | rfl | trivial⟩
      | some q' =>
        simp only
        have hq' : q' ≠ r := by
          intro e
          exact d.notCurrent m hm (by rw [hr, e])
        refine ⟨⟨?_, by intro h; simp at h⟩, storeRecentRun_count_ne c s q' r hq'⟩
        intro m' h1 h2
        simp only [Option.some.injEq] at h1
        subst h1
        simp at h2
  | tags x t st =>
    cases hm : s.mem with
    | none => simp only [step, hm]; exact ⟨d, by first | rfl | trivial⟩
    | some m =>
      simp only [step, hm, tagsChanged_recentRuns]
      refine ⟨⟨?_, ?_⟩, by first | rfl | trivial⟩
      · intro m' h1 h2
        obtain ⟨m'', h3, h4⟩ := tagsChanged_mem s m x t st hm
        rw [h3] at h1
        simp only [Option.some.injEq] at h1
        subst h1
        exact d.notCurrent m hm (h4 ▸ h2)
      · intro h
        obtain ⟨m'', h3, _⟩ := tagsChanged_mem s m x t st hm
        rw [h3] at h
        simp at h

/-- One operation adds at most one value row; it comes from a tags message and hangs on a plot log of the run the
engine is in at that moment. -/
theorem values_step (c : Cfg) (s : State) (op : Op) :
    (step c s op).1.values = s.values ∨
    ∃ i t r m x st, op = .tags x t st ∧ (step c s op).1.values = s.values ++ [(i, rowTime m t st)] ∧ s.mem = some m ∧
      m.run = some r ∧ s.plotLogs[i]? = some r := by
  cases op with
  | register => cases hm : s.mem <;> simp [step, hm]
  | disconnect => cases hm : s.mem <;> simp [step, hm, storeRecentEngine]
  | restart => cases hm : s.mem <;> simp [step, hm, storeRecentEngine]
  | start q =>
    cases hm : s.mem with
    | none => simp [step, hm]
    | some m =>
      left
      simp only [step, hm, createPlotLog_values]
      cases hr : m.run with
      | none => rfl
      | some q' => simp only; split <;> simp
  | stop q =>
    cases hm : s.mem with
    | none => simp [step, hm]
    | some m =>
      left
      simp only [step, hm]
      cases hr : m.run <;> simp
  | tags x t st =>
    cases hm : s.mem with
    | none => simp [step, hm]
    | some m =>
      simp only [step, hm]
      rcases tagsChanged_values s m x t st with h | ⟨i, r, h1, h2, h3⟩
      · exact Or.inl h
      · exact Or.inr ⟨i, t, r, m, x, st, rfl, h1, rfl, h2, h3⟩

/-- Plot-log rows never move or change their run id: a value row stays attached to the run it was recorded for. -/
theorem plotLogs_step_get (c : Cfg) (s : State) (op : Op) (i q : Nat) (h : s.plotLogs[i]? = some q) :
    (step c s op).1.plotLogs[i]? = some q := by
  cases op with
  | register => cases hm : s.mem <;> simpa [step, hm] using h
  | disconnect => cases hm : s.mem <;> simpa [step, hm, storeRecentEngine] using h
  | restart => cases hm : s.mem <;> simpa [step, hm, storeRecentEngine] using h
  | start r =>
    cases hm : s.mem with
    | none => simpa [step, hm] using h
    | some m =>
      simp only [step, hm]
      apply createPlotLog_get
      cases hr : m.run with
      | none => exact h
      | some q' => simp only; split <;> simpa using h
  | stop r =>
    cases hm : s.mem with
    | none => simpa [step, hm] using h
    | some m =>
      simp only [step, hm]
      cases hr : m.run <;> simpa using h
  | tags x t st => cases hm : s.mem <;> simpa [step, hm] using h

end OPM.Reconnect
