import OPM.Model.Proto
/-! Helper lemmas for C26: `validate σ (toJ v) = ok v` for every schema that satisfies `rt`. -/
namespace OPM.Proto

/-! ### objects -/

theorem get?_append_some (a tail : J) (m : String) (x : J) (h : a.get? m = some x) :
    (a.append tail).get? m = some x := by
  induction a with
  | ocons k v rest _ ih =>
    by_cases hk : k = m
    · subst hk; simp [J.get?] at h; simp [J.append, J.get?, h]
    · simp [J.get?, hk] at h; simp [J.append, J.get?, hk, ih h]
  | _ => simp [J.get?] at h

def J.isObjSpine : J → Bool
  | .onil => true
  | .ocons _ _ rest => rest.isObjSpine
  | _ => false

theorem get?_append_none (a tail : J) (m : String) (ha : a.isObjSpine) (h : a.get? m = Option.none) :
    (a.append tail).get? m = tail.get? m := by
  induction a with
  | ocons k v rest _ ih =>
    by_cases hk : k = m
    · subst hk; simp [J.get?] at h
    · simp [J.get?, hk] at h
      simp [J.isObjSpine] at ha
      simp [J.append, J.get?, hk, ih ha h]
  | onil => simp [J.append]
  | _ => simp [J.isObjSpine] at ha

/-! ### field spines -/

def valFieldNames : Val → List String
  | .fcons n _ rest => n :: valFieldNames rest
  | _ => []

theorem names_eq : ∀ (fs : Ty) (vs : Val), isFieldsTy fs → wellTyped fs vs →
    valFieldNames vs = fieldNames fs := by
  intro fs
  induction fs with
  | fnil => intro vs _ h; cases vs <;> simp_all [wellTyped, valFieldNames, fieldNames]
  | fcons n t d rest _ ih =>
    intro vs hf h
    cases vs with
    | fcons n' v vs' =>
      simp only [wellTyped, Bool.and_eq_true, decide_eq_true_eq] at h
      simp only [isFieldsTy] at hf
      simp [valFieldNames, fieldNames, ih vs' hf h.2, h.1.1]
    | _ => simp [wellTyped] at h
  | _ => intro vs hf; simp [isFieldsTy] at hf

/-- every field of `vs` is found in the object `O` under its name, with its own encoding -/
def fieldsIn (ord : List String → List String) (O : J) : Val → Prop
  | .fcons n v rest => O.get? n = some (toJ ord v) ∧ fieldsIn ord O rest
  | _ => True

def isFields : Val → Bool
  | .fnil => true
  | .fcons _ _ rest => isFields rest
  | _ => false

theorem wellTyped_isFields : ∀ (fs : Ty) (vs : Val), isFieldsTy fs → wellTyped fs vs → isFields vs := by
  intro fs
  induction fs with
  | fnil => intro vs _ h; cases vs <;> simp_all [wellTyped, isFields]
  | fcons n t d rest _ ih =>
    intro vs hf h
    cases vs with
    | fcons n' v vs' =>
      simp only [wellTyped, Bool.and_eq_true, decide_eq_true_eq] at h
      simp only [isFieldsTy] at hf
      simp [isFields, ih vs' hf h.2]
    | _ => simp [wellTyped] at h
  | _ => intro vs hf; simp [isFieldsTy] at hf

theorem toJ_fields_spine (ord : List String → List String) : ∀ (vs : Val), isFields vs →
    (toJ ord vs).isObjSpine := by
  intro vs
  induction vs with
  | fnil => intro _; simp [toJ, J.isObjSpine]
  | fcons n v rest _ ih => intro h; simp only [isFields] at h; simp [toJ, J.isObjSpine, ih h]
  | _ => intro h; simp [isFields] at h

theorem get?_toJ_fields_none (ord : List String → List String) : ∀ (vs : Val) (m : String),
    isFields vs → m ∉ valFieldNames vs → (toJ ord vs).get? m = Option.none := by
  intro vs
  induction vs with
  | fnil => intro m _ _; simp [toJ, J.get?]
  | fcons n v rest _ ih =>
    intro m hf hm
    simp only [valFieldNames, List.mem_cons, not_or] at hm
    simp only [isFields] at hf
    simp only [toJ, J.get?]
    rw [if_neg (fun e => hm.1 e.symm)]
    exact ih m hf hm.2
  | _ => intro m h; simp [isFields] at h

/-- In the serialized object every field is found under its name. -/
theorem fieldsIn_self (ord : List String → List String) : ∀ (vs : Val) (O : J),
    isFields vs → distinct (valFieldNames vs) →
    (∀ m x, (toJ ord vs).get? m = some x → O.get? m = some x) → fieldsIn ord O vs := by
  intro vs
  induction vs with
  | fcons n v rest _ ih =>
    intro O hf hd hO
    simp only [isFields] at hf
    simp only [valFieldNames, distinct, Bool.and_eq_true, Bool.not_eq_true', List.contains_eq_mem,
      decide_eq_false_iff_not] at hd
    refine ⟨hO n _ (by simp [toJ, J.get?]), ih O hf hd.2 ?_⟩
    intro m x hx
    apply hO
    simp only [toJ, J.get?]
    by_cases e : n = m
    · subst e
      rw [get?_toJ_fields_none ord rest n hf hd.1] at hx
      cases hx
    · rw [if_neg e]; exact hx
  | _ => intros; trivial

/-! ### sets -/


theorem mem_insertStr (s x : String) : ∀ l : List String, x ∈ insertStr s l ↔ x = s ∨ x ∈ l := by
  intro l
  induction l with
  | nil => simp [insertStr]
  | cons y rest ih =>
    simp only [insertStr]
    split
    · simp
    · split
      · rename_i _ e; subst e; simp
      · simp only [List.mem_cons, ih]
        constructor
        · rintro (h | h | h) <;> simp [h]
        · rintro (h | h | h) <;> simp [h]

theorem sorted_insertStr (s : String) : ∀ l : List String, l.Pairwise (· < ·) →
    (insertStr s l).Pairwise (· < ·) := by
  intro l
  induction l with
  | nil => intro _; simp [insertStr]
  | cons y rest ih =>
    intro h
    have ⟨hy, hr⟩ := List.pairwise_cons.mp h
    simp only [insertStr]
    split
    · rename_i hlt
      refine List.Pairwise.cons ?_ h
      intro a ha
      rcases List.mem_cons.mp ha with e | e
      · rw [e]; exact hlt
      · exact String.lt_trans hlt (hy a e)
    · split
      · exact h
      · rename_i hnlt hne
        refine List.Pairwise.cons ?_ (ih hr)
        intro a ha
        rcases (mem_insertStr s a rest).mp ha with e | e
        · rw [e]; exact Std.lt_of_le_of_ne (String.not_lt.mp hnlt) (fun e => hne e.symm)
        · exact hy a e

theorem mem_canonSet (x : String) : ∀ l : List String, x ∈ canonSet l ↔ x ∈ l := by
  intro l
  induction l with
  | nil => simp [canonSet]
  | cons y rest ih =>
    have : canonSet (y :: rest) = insertStr y (canonSet rest) := rfl
    rw [this, mem_insertStr, ih]; simp

theorem sorted_canonSet : ∀ l : List String, (canonSet l).Pairwise (· < ·) := by
  intro l
  induction l with
  | nil => simp [canonSet]
  | cons y rest ih =>
    have : canonSet (y :: rest) = insertStr y (canonSet rest) := rfl
    rw [this]; exact sorted_insertStr y _ ih

theorem sorted_ext : ∀ (l₁ l₂ : List String), l₁.Pairwise (· < ·) → l₂.Pairwise (· < ·) →
    (∀ x, x ∈ l₁ ↔ x ∈ l₂) → l₁ = l₂ := by
  intro l₁
  induction l₁ with
  | nil =>
    intro l₂ _ _ h
    cases l₂ with
    | nil => rfl
    | cons y r => exact absurd ((h y).mpr List.mem_cons_self) (by simp)
  | cons a r₁ ih =>
    intro l₂ h₁ h₂ h
    cases l₂ with
    | nil => exact absurd ((h a).mp List.mem_cons_self) (by simp)
    | cons b r₂ =>
      have ⟨ha, hr₁⟩ := List.pairwise_cons.mp h₁
      have ⟨hb, hr₂⟩ := List.pairwise_cons.mp h₂
      have hab : a = b := by
        rcases List.mem_cons.mp ((h a).mp List.mem_cons_self) with e | e
        · exact e
        · rcases List.mem_cons.mp ((h b).mpr List.mem_cons_self) with e' | e'
          · exact e'.symm
          · exact absurd (String.lt_trans (hb a e) (ha b e')) (String.lt_irrefl b)
      subst hab
      congr 1
      apply ih r₂ hr₁ hr₂
      intro x
      constructor
      · intro hx
        rcases List.mem_cons.mp ((h x).mp (List.mem_cons_of_mem _ hx)) with e | e
        · exact absurd (e ▸ ha x hx) (String.lt_irrefl _)
        · exact e
      · intro hx
        rcases List.mem_cons.mp ((h x).mpr (List.mem_cons_of_mem _ hx)) with e | e
        · exact absurd (e ▸ hb x hx) (String.lt_irrefl _)
        · exact e

theorem sortedStrict_pairwise : ∀ l : List String, sortedStrict l = true → l.Pairwise (· < ·) := by
  intro l
  induction l with
  | nil => intro _; simp
  | cons a rest ih =>
    intro h
    cases rest with
    | nil => simp
    | cons b r =>
      simp only [sortedStrict, Bool.and_eq_true, decide_eq_true_eq] at h
      have hr := ih h.2
      refine List.Pairwise.cons ?_ hr
      intro x hx
      rcases List.mem_cons.mp hx with e | e
      · rw [e]; exact h.1
      · exact String.lt_trans h.1 ((List.pairwise_cons.mp hr).1 x e)

/-- Whatever order (and multiplicity) the set is iterated in, validation gives back the canonical set. -/
theorem canonSet_ord (ord : List String → List String) (hord : ∀ l x, x ∈ ord l ↔ x ∈ l)
    (l : List String) (h : sortedStrict l = true) : canonSet (ord l) = l := by
  apply sorted_ext _ _ (sorted_canonSet _) (sortedStrict_pairwise l h)
  intro x
  rw [mem_canonSet, hord]

theorem arrStrs_strArr : ∀ l : List String, arrStrs (strArr l) = some l := by
  intro l
  induction l with
  | nil => simp [strArr, arrStrs]
  | cons a r ih => simp [strArr, arrStrs, ih]


/-! ### lists and dicts -/

def ofJ : J → Val
  | .null => .none
  | .bool b => .bool b
  | .int i => .int i
  | .flt f => .flt f
  | .str s => .str s
  | .anil => .lnil
  | .acons h t => .lcons (ofJ h) (ofJ t)
  | .onil => .dnil
  | .ocons k v rest => .dcons (.str k) (ofJ v) (ofJ rest)

theorem mapArr_toJ (ord : List String → List String) (f : J → R) (wt : Val → Bool)
    (hf : ∀ x, wt x → jsonSafe x → f (toJ ord x) = .ok x) :
    ∀ v, allList wt v → jsonSafe v → mapArr f (toJ ord v) = .ok v := by
  intro v
  induction v with
  | lnil => intro _ _; simp [toJ, mapArr]
  | lcons h t _ iht =>
    intro hw hs
    simp only [allList, Bool.and_eq_true] at hw
    simp only [jsonSafe, Bool.and_eq_true] at hs
    simp [toJ, mapArr, hf h hw.1 hs.1, iht hw.2 hs.2]
  | _ => intro hw; simp [allList] at hw

theorem mapArr_ofJ (f : J → R) (hf : ∀ x v, f x = .ok v → v = ofJ x) :
    ∀ j v, mapArr f j = .ok v → v = ofJ j := by
  intro j
  induction j with
  | anil => intro v h; simp [mapArr] at h; simp [ofJ, ← h]
  | acons a t _ iht =>
    intro v h
    simp only [mapArr] at h
    split at h
    · rename_i x xs hx hxs
      cases h
      simp [ofJ, hf a x hx, iht xs hxs]
    all_goals cases h
  | _ => intro v h; simp [mapArr] at h

theorem mapArr_modelled (f : J → R) (hf : ∀ x, f x ≠ .error .unmodelled) :
    ∀ j, mapArr f j ≠ .error .unmodelled := by
  intro j
  induction j with
  | acons a t _ iht =>
    simp only [mapArr]
    cases ha : f a with
    | ok x =>
      cases ht : mapArr f t with
      | ok xs => simp
      | error e => cases e with
        | invalid => simp
        | unmodelled => exact absurd ht iht
    | error e => cases e with
      | invalid => simp
      | unmodelled => exact absurd ha (hf a)
  | _ => simp [mapArr]

theorem dict_toJ (ord : List String → List String) (f : J → R) (wt : Val → Bool) (keys : List KeyKind)
    (hf : ∀ x, wt x → jsonSafe x → f (toJ ord x) = .ok x) :
    ∀ d, allDict keys wt d → jsonSafe d →
      (∀ s, dictHasKey (.str s) d = false → (toJ ord d).get? s = Option.none) ∧
      mapObj f (toJ ord d) = .ok d := by
  intro d
  induction d with
  | dnil => intro _ _; simp [toJ, mapObj, J.get?]
  | dcons k v rest _ ihr =>
    intro hw hs
    cases k with
    | str s' =>
      simp only [allDict, Bool.and_eq_true, Bool.not_eq_true'] at hw
      simp only [jsonSafe, Bool.and_eq_true] at hs
      obtain ⟨h1, h2⟩ := ihr hw.2 hs.2
      have hput : toJ ord (.dcons (.str s') v rest) = .ocons s' (toJ ord v) (toJ ord rest) := by
        simp [toJ, keyStr, J.putFront, h1 s' hw.1.2]
      rw [hput]
      constructor
      · intro s hk
        simp only [dictHasKey, Key.pyEq, Bool.or_eq_false_iff, decide_eq_false_iff_not] at hk
        have hne : s' ≠ s := fun e => hk.1 (by rw [e])
        simp [J.get?, hne, h1 s hk.2]
      · simp [mapObj, hf v hw.1.1.2 hs.1, h2]
    | _ => simp [jsonSafe] at hs
  | _ => intro hw; simp [allDict] at hw

theorem mapObj_ofJ (f : J → R) (hf : ∀ x v, f x = .ok v → v = ofJ x) :
    ∀ j v, mapObj f j = .ok v → v = ofJ j := by
  intro j
  induction j with
  | onil => intro v h; simp [mapObj] at h; simp [ofJ, ← h]
  | ocons k a t _ iht =>
    intro v h
    simp only [mapObj] at h
    split at h
    · rename_i x xs hx hxs
      cases h
      simp [ofJ, hf a x hx, iht xs hxs]
    all_goals cases h
  | _ => intro v h; simp [mapObj] at h

theorem mapObj_modelled (f : J → R) (hf : ∀ x, f x ≠ .error .unmodelled) :
    ∀ j, mapObj f j ≠ .error .unmodelled := by
  intro j
  induction j with
  | ocons k a t _ iht =>
    simp only [mapObj]
    cases ha : f a with
    | ok x =>
      cases ht : mapObj f t with
      | ok xs => simp
      | error e => cases e with
        | invalid => simp
        | unmodelled => exact absurd ht iht
    | error e => cases e with
      | invalid => simp
      | unmodelled => exact absurd ha (hf a)
  | _ => simp [mapObj]

/-! ### the exact pass of smart unions -/


theorem vInt_exact (j : J) : vInt .exact j = (match j with | .int i => .ok (.int i) | _ => .error .invalid) := by
  cases j with
  | flt f => cases f with
    | fin n e => cases e <;> simp [vInt, Mode.isLax]
    | _ => simp [vInt]
  | _ => simp [vInt, Mode.isLax]

theorem vFloat_exact (j : J) : vFloat .exact j = (match j with | .flt f => .ok (.flt f) | _ => .error .invalid) := by
  cases j <;> simp [vFloat, Mode.isLax]

theorem vBool_exact (j : J) : vBool .exact j = (match j with | .bool b => .ok (.bool b) | _ => .error .invalid) := by
  cases j with
  | flt f => cases f with
    | fin n e => cases e <;> simp [vBool, Mode.isLax]
    | _ => simp [vBool]
  | _ => simp [vBool, Mode.isLax]

structure ExactFacts (ord : List String → List String) (t : Ty) : Prop where
  a : ∀ v, wellTyped t v → jsonSafe v → validate .exact t (toJ ord v) = .ok v
  b : ∀ j v, validate .exact t j = .ok v → v = ofJ j
  c : ∀ j, validate .exact t j ≠ .error .unmodelled

theorem orElse_ok_left (v : Val) (b : Unit → R) : orElse (.ok v) b = .ok v := rfl

theorem exact_facts (ord : List String → List String) : ∀ t, exactOk t → ExactFacts ord t := by
  intro t
  induction t with
  | int =>
    intro _
    refine ⟨?_, ?_, ?_⟩
    · intro v hw _; cases v <;> simp [wellTyped] at hw; simp [validate, toJ, vInt]
    · intro j v h; simp only [validate, vInt_exact] at h; cases j <;> simp at h; simp [ofJ, ← h]
    · intro j; simp only [validate, vInt_exact]; cases j <;> simp
  | nnint =>
    intro _
    refine ⟨?_, ?_, ?_⟩
    · intro v hw _; cases v <;> simp [wellTyped] at hw; simp [validate, toJ, vNnInt, vInt, hw]
    · intro j v h; simp only [validate, vNnInt, vInt_exact] at h
      cases j <;> simp at h
      rename_i i; split at h <;> simp at h; simp [ofJ, ← h]
    · intro j; simp only [validate, vNnInt, vInt_exact]; cases j <;> simp
      rename_i i; split <;> simp
  | float =>
    intro _
    refine ⟨?_, ?_, ?_⟩
    · intro v hw hs; cases v <;> simp [wellTyped] at hw
      rename_i f; cases f <;> simp [jsonSafe] at hs; simp [validate, toJ, vFloat]
    · intro j v h; simp only [validate, vFloat_exact] at h; cases j <;> simp at h; simp [ofJ, ← h]
    · intro j; simp only [validate, vFloat_exact]; cases j <;> simp
  | str =>
    intro _
    refine ⟨?_, ?_, ?_⟩
    · intro v hw _; cases v <;> simp [wellTyped] at hw; simp [validate, toJ, vStr]
    · intro j v h; cases j <;> simp [validate, vStr] at h; simp [ofJ, ← h]
    · intro j; cases j <;> simp [validate, vStr]
  | bool =>
    intro _
    refine ⟨?_, ?_, ?_⟩
    · intro v hw _; cases v <;> simp [wellTyped] at hw; simp [validate, toJ, vBool]
    · intro j v h; simp only [validate, vBool_exact] at h; cases j <;> simp at h; simp [ofJ, ← h]
    · intro j; simp only [validate, vBool_exact]; cases j <;> simp
  | none =>
    intro _
    refine ⟨?_, ?_, ?_⟩
    · intro v hw _; cases v <;> simp [wellTyped] at hw; simp [validate, toJ, vNone]
    · intro j v h; cases j <;> simp [validate, vNone] at h; simp [ofJ, ← h]
    · intro j; cases j <;> simp [validate, vNone]
  | lit opts =>
    intro _
    refine ⟨?_, ?_, ?_⟩
    · intro v hw _; cases v <;> simp [wellTyped] at hw; simp [validate, toJ, vLit, hw]
    · intro j v h; cases j <;> simp [validate, vLit] at h; split at h <;> simp at h; simp [ofJ, ← h]
    · intro j; cases j <;> simp [validate, vLit]; split <;> simp
  | list t ih =>
    intro he
    simp only [exactOk] at he
    have F := ih he
    refine ⟨?_, ?_, ?_⟩
    · intro v hw hs
      simp only [wellTyped] at hw
      simp only [validate, Mode.base]
      exact mapArr_toJ ord _ (wellTyped t) F.a v hw hs
    · intro j v h; simp only [validate, Mode.base] at h; exact mapArr_ofJ _ F.b j v h
    · intro j; simp only [validate, Mode.base]; exact mapArr_modelled _ F.c j
  | dict keys t ih =>
    intro he
    simp only [exactOk, Bool.and_eq_true] at he
    have F := ih he.2
    refine ⟨?_, ?_, ?_⟩
    · intro v hw hs
      simp only [wellTyped] at hw
      simp only [validate, Mode.base, he.1, if_true]
      exact (dict_toJ ord _ (wellTyped t) keys F.a v hw hs).2
    · intro j v h; simp only [validate, Mode.base, he.1, if_true] at h; exact mapObj_ofJ _ F.b j v h
    · intro j; simp only [validate, Mode.base, he.1, if_true]; exact mapObj_modelled _ F.c j
  | union a b iha ihb =>
    intro he
    simp only [exactOk, Bool.and_eq_true] at he
    have Fa := iha he.1
    have Fb := ihb he.2
    refine ⟨?_, ?_, ?_⟩
    · intro v hw hs
      simp only [wellTyped, Bool.or_eq_true] at hw
      simp only [validate]
      rcases hw with hw | hw
      · rw [Fa.a v hw hs]; rfl
      · have hb := Fb.a v hw hs
        have hv : v = ofJ (toJ ord v) := Fb.b _ _ hb
        cases hx : validate .exact a (toJ ord v) with
        | ok x => rw [Fa.b _ _ hx, ← hv]; rfl
        | error e => cases e with
          | invalid => simp [orElse, hb]
          | unmodelled => exact absurd hx (Fa.c _)
    · intro j v h
      simp only [validate] at h
      cases hx : validate .exact a j with
      | ok x => rw [hx] at h; simp [orElse] at h; rw [← h]; exact Fa.b _ _ hx
      | error e => cases e with
        | invalid => rw [hx] at h; simp [orElse] at h; exact Fb.b _ _ h
        | unmodelled => exact absurd hx (Fa.c _)
    · intro j
      simp only [validate]
      cases hx : validate .exact a j with
      | ok x => simp [orElse]
      | error e => cases e with
        | invalid => simp [orElse]; exact Fb.c j
        | unmodelled => exact absurd hx (Fa.c _)
  | _ => intro he; simp [exactOk] at he


/-! ### lax validation of the encoded value -/


theorem isObj_toJ_fields (ord : List String → List String) : ∀ vs, isFields vs → (toJ ord vs).isObj := by
  intro vs h
  cases vs <;> simp_all [isFields, toJ, J.isObj]

theorem exactOk_not_fields : ∀ t, exactOk t → isFieldsTy t = false := by
  intro t h; cases t <;> simp_all [exactOk, isFieldsTy]

structure LaxFacts (ord : List String → List String) (t : Ty) : Prop where
  val : isFieldHead t = false → ∀ v, wellTyped t v → jsonSafe v → validate .lax t (toJ ord v) = .ok v
  flds : isFieldsTy t = true → ∀ vs O, wellTyped t vs → jsonSafe vs → fieldsIn ord O vs →
    validate .lax t O = .ok vs

theorem lax_facts (ord : List String → List String) (hord : ∀ l x, x ∈ ord l ↔ x ∈ l) :
    ∀ t, rt t → LaxFacts ord t := by
  intro t
  induction t with
  | int =>
    intro _; refine ⟨?_, by simp [isFieldsTy]⟩
    intro _ v hw _; cases v <;> simp [wellTyped] at hw; simp [validate, toJ, vInt]
  | nnint =>
    intro _; refine ⟨?_, by simp [isFieldsTy]⟩
    intro _ v hw _; cases v <;> simp [wellTyped] at hw; simp [validate, toJ, vNnInt, vInt, hw]
  | float =>
    intro _; refine ⟨?_, by simp [isFieldsTy]⟩
    intro _ v hw hs; cases v <;> simp [wellTyped] at hw
    rename_i f; cases f <;> simp [jsonSafe] at hs; simp [validate, toJ, vFloat]
  | str =>
    intro _; refine ⟨?_, by simp [isFieldsTy]⟩
    intro _ v hw _; cases v <;> simp [wellTyped] at hw; simp [validate, toJ, vStr]
  | bool =>
    intro _; refine ⟨?_, by simp [isFieldsTy]⟩
    intro _ v hw _; cases v <;> simp [wellTyped] at hw; simp [validate, toJ, vBool]
  | none =>
    intro _; refine ⟨?_, by simp [isFieldsTy]⟩
    intro _ v hw _; cases v <;> simp [wellTyped] at hw; simp [validate, toJ, vNone]
  | lit opts =>
    intro _; refine ⟨?_, by simp [isFieldsTy]⟩
    intro _ v hw _; cases v <;> simp [wellTyped] at hw; simp [validate, toJ, vLit, hw]
  | enm opts =>
    intro _; refine ⟨?_, by simp [isFieldsTy]⟩
    intro _ v hw _; cases v <;> simp [wellTyped] at hw; simp [validate, toJ, vEnm, Mode.isLax, hw]
  | setStr =>
    intro _; refine ⟨?_, by simp [isFieldsTy]⟩
    intro _ v hw _
    cases v with
    | set l =>
      simp only [wellTyped] at hw
      simp [validate, toJ, vSetStr, Mode.isLax, arrStrs_strArr, canonSet_ord ord hord l hw]
    | _ => simp [wellTyped] at hw
  | list t ih =>
    intro hr
    simp only [rt, Bool.and_eq_true, Bool.not_eq_true'] at hr
    have F := ih hr.2
    refine ⟨?_, by simp [isFieldsTy]⟩
    intro _ v hw hs
    simp only [wellTyped] at hw
    simp only [validate, Mode.base]
    exact mapArr_toJ ord _ (wellTyped t) (F.val hr.1) v hw hs
  | dict keys t ih =>
    intro hr
    simp only [rt, Bool.and_eq_true, Bool.not_eq_true'] at hr
    have F := ih hr.2
    refine ⟨?_, by simp [isFieldsTy]⟩
    intro _ v hw hs
    simp only [wellTyped] at hw
    simp only [validate, Mode.base, hr.1.1, if_true]
    exact (dict_toJ ord _ (wellTyped t) keys (F.val hr.1.2) v hw hs).2
  | union a b _ _ =>
    intro hr
    simp only [rt, Bool.and_eq_true] at hr
    have E := exact_facts ord (.union a b) (by simp [exactOk, hr.1.1.1, hr.1.1.2])
    refine ⟨?_, by simp [isFieldsTy]⟩
    intro _ v hw hs
    have h := E.a v hw hs
    simp only [validate] at h ⊢
    rw [h]; rfl
  | model ns name fs ih =>
    intro hr
    simp only [rt, Bool.and_eq_true, Bool.not_eq_true'] at hr
    obtain ⟨⟨⟨⟨hf, hrf⟩, hd⟩, _⟩, _⟩ := hr
    have F := ih hrf
    refine ⟨?_, by simp [isFieldsTy]⟩
    intro _ v hw hs
    cases v <;> simp [wellTyped] at hw
    rename_i ns' name' vs
    obtain ⟨⟨e1, e2⟩, hwf⟩ := hw
    subst e1 e2
    simp only [jsonSafe] at hs
    have hfs := wellTyped_isFields fs vs hf hwf
    have hdist : distinct (valFieldNames vs) := by rw [names_eq fs vs hf hwf]; exact hd
    have := F.flds hf vs (toJ ord vs) hwf hs (fieldsIn_self ord vs _ hfs hdist (fun _ _ h => h))
    simp [validate, toJ, Mode.isLax, isObj_toJ_fields ord vs hfs, this]
  | fnil =>
    intro _; refine ⟨by simp [isFieldHead], ?_⟩
    intro _ vs O hw _ _; cases vs <;> simp [wellTyped] at hw; simp [validate]
  | fcons n t d rest iht ihr =>
    intro hr
    simp only [rt, Bool.and_eq_true, Bool.not_eq_true'] at hr
    refine ⟨by simp [isFieldHead], ?_⟩
    intro hf vs O hw hs hin
    simp only [isFieldsTy] at hf
    cases vs <;> simp [wellTyped] at hw
    rename_i n' v vs'
    obtain ⟨⟨e, hwv⟩, hwr⟩ := hw
    subst e
    simp only [jsonSafe, Bool.and_eq_true] at hs
    simp only [fieldsIn] at hin
    have h1 := (iht hr.1.2).val hr.1.1 v hwv hs.1
    have h2 := (ihr hr.2).flds hf vs' O hwr hs.2 hin.2
    simp [validate, hin.1, h1, h2, combineField]
  | tupleVar t ih =>
    intro hr
    simp only [rt, Bool.and_eq_true, Bool.not_eq_true'] at hr
    have F := ih hr.2
    refine ⟨?_, by simp [isFieldsTy]⟩
    intro _ v hw hs
    cases v with
    | tup l =>
      simp only [wellTyped] at hw
      simp only [jsonSafe] at hs
      simp [validate, Mode.isLax, toJ, mapArr_toJ ord _ (wellTyped t) (F.val hr.1) l hw hs]
    | _ => simp [wellTyped] at hw
  | tuple e ih =>
    intro hr
    simp only [rt, Bool.and_eq_true, Bool.not_eq_true'] at hr
    have F := ih hr.2
    refine ⟨?_, by simp [isFieldsTy]⟩
    intro _ v hw hs
    cases v with
    | tup l =>
      simp only [wellTyped] at hw
      simp only [jsonSafe] at hs
      simp [validate, Mode.isLax, toJ, F.val hr.1 l hw hs]
    | _ => simp [wellTyped] at hw
  | tnil =>
    intro _; refine ⟨?_, by simp [isFieldsTy]⟩
    intro _ v hw _; cases v <;> simp [wellTyped] at hw; simp [validate, toJ]
  | tcons t rest iht ihr =>
    intro hr
    simp only [rt, Bool.and_eq_true, Bool.not_eq_true'] at hr
    refine ⟨?_, by simp [isFieldsTy]⟩
    intro _ v hw hs
    cases v with
    | lcons a b =>
      simp only [wellTyped, Bool.and_eq_true] at hw
      simp only [jsonSafe, Bool.and_eq_true] at hs
      have h1 := (iht hr.1.2).val hr.1.1.1 a hw.1 hs.1
      have h2 := (ihr hr.2).val hr.1.1.2 b hw.2 hs.2
      simp [validate, toJ, h1, h2]
    | _ => simp [wellTyped] at hw
  | opaqueTy w =>
    intro _; refine ⟨?_, by simp [isFieldsTy]⟩
    intro _ v hw _; cases v <;> simp [wellTyped] at hw
  | unsupported w => intro hr; simp [rt] at hr


/-! ### `deserialize` -/


theorem isObj_append_envelope (a : J) (ns name : String) : (a.append (envelope ns name)).isObj := by
  cases a <;> simp [J.append, envelope, J.isObj]

theorem lookup_mem (reg : List Entry) (ns attr : String) (e : Entry) (h : lookup reg ns attr = some e) :
    e ∈ reg := List.mem_of_find?_eq_some h

/-- `deserialize ∘ transport ∘ serialize` gives back the same message, with the same class. -/
theorem roundtrip_ok (ord : List String → List String) (hord : ∀ l x, x ∈ ord l ↔ x ∈ l)
    (nss : List String) (reg : List Entry) (hreg : registryOk nss reg = true)
    (hrt : reg.all (fun e => rt e.schema) = true)
    (e : Entry) (he : e ∈ reg) (vs : Val)
    (hw : wellTyped e.schema (.obj e.clsNs e.clsName vs) = true) (hs : jsonSafe vs = true) :
    roundtrip ord nss reg (.obj e.clsNs e.clsName vs) = .ok (.obj e.clsNs e.clsName vs) := by
  have hreg' := List.all_eq_true.mp hreg e he
  simp only [Bool.and_eq_true] at hreg'
  obtain ⟨⟨hns, _⟩, hl⟩ := hreg'
  have hrte := List.all_eq_true.mp hrt e he
  simp only [Entry.schema, rt, Bool.and_eq_true, Bool.not_eq_true', List.contains_eq_mem,
    decide_eq_false_iff_not] at hrte
  obtain ⟨⟨⟨⟨hf, hrf⟩, hd⟩, hty⟩, hnsn⟩ := hrte
  simp only [Entry.schema, wellTyped, Bool.and_eq_true, decide_eq_true_eq, true_and] at hw
  have hfs := wellTyped_isFields e.fields vs hf hw
  have hnames := names_eq e.fields vs hf hw
  have hdist : distinct (valFieldNames vs) := by rw [hnames]; exact hd
  -- the serialized object
  let j := (toJ ord vs).append (envelope e.clsNs e.clsName)
  have hspine := toJ_fields_spine ord vs hfs
  have hty' : j.get? "_type" = some (.str e.clsName) := by
    show ((toJ ord vs).append _).get? "_type" = _
    rw [get?_append_none _ _ _ hspine (get?_toJ_fields_none ord vs _ hfs (by rw [hnames]; exact hty))]
    simp [envelope, J.get?]
  have hns' : j.get? "_ns" = some (.str e.clsNs) := by
    show ((toJ ord vs).append _).get? "_ns" = _
    rw [get?_append_none _ _ _ hspine (get?_toJ_fields_none ord vs _ hfs (by rw [hnames]; exact hnsn))]
    simp [envelope, J.get?]
  have hin : fieldsIn ord j vs :=
    fieldsIn_self ord vs j hfs hdist (fun m x h => get?_append_some _ _ m x h)
  cases hlk : lookup reg e.clsNs e.clsName with
  | none => simp [hlk] at hl
  | some e' =>
    simp only [hlk, Bool.and_eq_true, decide_eq_true_eq] at hl
    obtain ⟨⟨h1, h2⟩, h3⟩ := hl
    have hval : validate .lax e'.schema j = .ok (.obj e.clsNs e.clsName vs) := by
      have F := lax_facts ord hord e.fields hrf
      have := F.flds hf vs j hw hs hin
      simp [Entry.schema, validate, Mode.isLax, h1, h2, h3, this, j, isObj_append_envelope]
    simp only [roundtrip, serialize, deserialize]
    simp only [isObj_append_envelope, Bool.not_true, Bool.false_eq_true, if_false]
    show (match j.get? "_type", j.get? "_ns" with
      | some ty, some ns => _
      | _, _ => _) = _
    rw [hty', hns']
    have hns2 : e.clsNs ∈ nss := by simpa using hns
    have hval' : validate .lax e'.schema ((toJ ord vs).append (envelope e.clsNs e.clsName)) = .ok (.obj e.clsNs e.clsName vs) := hval
    simp [hns2, hlk, hval']

/-- A dict is accepted only if it names a namespace of the protocol and an attribute of that
namespace that is bound to a message class; the result is an instance of that class. -/
theorem deserialize_ok_known (nss : List String) (reg : List Entry) (j : J) (v : Val)
    (h : deserialize nss reg j = .ok v) :
    ∃ nsName tyName e, j.get? "_ns" = some (.str nsName) ∧ j.get? "_type" = some (.str tyName) ∧
      nsName ∈ nss ∧ lookup reg nsName tyName = some e ∧ ∃ vs, v = .obj e.clsNs e.clsName vs := by
  unfold deserialize at h
  split at h
  · cases h
  · split at h
    · rename_i ty ns hty hns
      split at h
      · rename_i nsName
        split at h
        · cases h
        · rename_i hc
          split at h
          · rename_i tyName
            split at h
            · rename_i e hlk
              refine ⟨nsName, tyName, e, hns, hty, by simpa using hc, hlk, ?_⟩
              split at h
              · rename_i v' hv
                cases h
                simp only [Entry.schema, validate] at hv
                split at hv
                · split at hv
                  · split at hv
                    · rename_i vs _; cases hv; exact ⟨vs, rfl⟩
                    · cases hv
                  · cases hv
                · cases hv
              · cases h
              · cases h
            · cases h
          · cases h
      · cases h
    · cases h

theorem deserialize_unknown_ns (nss : List String) (reg : List Entry) (j : J) (s : String)
    (hns : j.get? "_ns" = some (.str s)) (hs : s ∉ nss) : deserialize nss reg j = .error .protocol := by
  cases h : deserialize nss reg j with
  | ok v =>
    obtain ⟨n, _, _, h1, _, h3, _⟩ := deserialize_ok_known nss reg j v h
    rw [hns] at h1; cases h1; exact absurd h3 hs
  | error e =>
    cases e with
    | protocol => rfl
    | unmodelled =>
      exfalso
      unfold deserialize at h
      split at h
      · cases h
      · split at h
        · rename_i ty ns hty hns'
          rw [hns] at hns'; cases hns'
          simp [hs] at h
        · cases h

theorem deserialize_unknown_type (nss : List String) (reg : List Entry) (j : J) (s t : String)
    (hns : j.get? "_ns" = some (.str s)) (hty : j.get? "_type" = some (.str t))
    (hl : lookup reg s t = Option.none) : deserialize nss reg j = .error .protocol := by
  cases h : deserialize nss reg j with
  | ok v =>
    obtain ⟨n, m, e, h1, h2, _, h4, _⟩ := deserialize_ok_known nss reg j v h
    rw [hns] at h1; cases h1; rw [hty] at h2; cases h2; rw [hl] at h4; cases h4
  | error e =>
    cases e with
    | protocol => rfl
    | unmodelled =>
      exfalso
      unfold deserialize at h
      split at h
      · cases h
      · split at h
        · rename_i ty ns hty' hns'
          rw [hns] at hns'; cases hns'; rw [hty] at hty'; cases hty'
          simp only [hl] at h
          split at h <;> cases h
        · cases h

theorem deserialize_missing_key (nss : List String) (reg : List Entry) (j : J)
    (h : j.get? "_type" = Option.none ∨ j.get? "_ns" = Option.none) :
    deserialize nss reg j = .error .protocol := by
  unfold deserialize
  split
  · rfl
  · split
    · rename_i hty hns; rcases h with h | h
      · rw [h] at hty; cases hty
      · rw [h] at hns; cases hns
    · rfl

/-! ### messages that cannot contain a float or a non-string key are always json-safe -/

theorem allList_safe (f : Val → Bool) (hf : ∀ x, f x → jsonSafe x) : ∀ v, allList f v → jsonSafe v := by
  intro v
  induction v with
  | lnil => intro _; simp [jsonSafe]
  | lcons h t _ iht =>
    intro hw; simp only [allList, Bool.and_eq_true] at hw
    simp [jsonSafe, hf h hw.1, iht hw.2]
  | _ => intro hw; simp [allList] at hw

theorem allDict_safe (f : Val → Bool) (hf : ∀ x, f x → jsonSafe x) : ∀ v, allDict [.str] f v → jsonSafe v := by
  intro v
  induction v with
  | dnil => intro _; simp [jsonSafe]
  | dcons k v rest _ ihr =>
    intro hw; simp only [allDict, Bool.and_eq_true] at hw
    cases k with
    | str s => simp [jsonSafe, hf v hw.1.1.2, ihr hw.2]
    | _ => simp [keyKind] at hw
  | _ => intro hw; simp [allDict] at hw

theorem safe_of_schema : ∀ t, floatFree t → strKeysOnly t → ∀ v, wellTyped t v → jsonSafe v := by
  intro t
  induction t with
  | float => intro h; simp [floatFree] at h
  | list t ih =>
    intro h1 h2 v hw
    simp only [floatFree] at h1; simp only [strKeysOnly] at h2; simp only [wellTyped] at hw
    exact allList_safe _ (ih h1 h2) v hw
  | dict keys t ih =>
    intro h1 h2 v hw
    simp only [floatFree] at h1
    simp only [strKeysOnly, Bool.and_eq_true, decide_eq_true_eq] at h2
    simp only [wellTyped] at hw
    rw [h2.1] at hw
    exact allDict_safe _ (ih h1 h2.2) v hw
  | union a b iha ihb =>
    intro h1 h2 v hw
    simp only [floatFree, Bool.and_eq_true] at h1
    simp only [strKeysOnly, Bool.and_eq_true] at h2
    simp only [wellTyped, Bool.or_eq_true] at hw
    rcases hw with hw | hw
    · exact iha h1.1 h2.1 v hw
    · exact ihb h1.2 h2.2 v hw
  | model ns name fs ih =>
    intro h1 h2 v hw
    simp only [floatFree] at h1; simp only [strKeysOnly] at h2
    cases v <;> simp [wellTyped] at hw
    simp [jsonSafe, ih h1 h2 _ hw.2]
  | fcons n t d rest iht ihr =>
    intro h1 h2 v hw
    simp only [floatFree, Bool.and_eq_true] at h1
    simp only [strKeysOnly, Bool.and_eq_true] at h2
    cases v <;> simp [wellTyped] at hw
    simp [jsonSafe, iht h1.1 h2.1 _ hw.1.2, ihr h1.2 h2.2 _ hw.2]
  | tupleVar t ih =>
    intro h1 h2 v hw
    simp only [floatFree] at h1; simp only [strKeysOnly] at h2
    cases v <;> simp [wellTyped] at hw
    simp only [jsonSafe]
    exact allList_safe _ (ih h1 h2) _ hw
  | tuple e ih =>
    intro h1 h2 v hw
    simp only [floatFree] at h1; simp only [strKeysOnly] at h2
    cases v <;> simp [wellTyped] at hw
    simp only [jsonSafe]
    exact ih h1 h2 _ hw
  | tcons t rest iht ihr =>
    intro h1 h2 v hw
    simp only [floatFree, Bool.and_eq_true] at h1
    simp only [strKeysOnly, Bool.and_eq_true] at h2
    cases v <;> simp [wellTyped] at hw
    simp [jsonSafe, iht h1.1 h2.1 _ hw.1, ihr h1.2 h2.2 _ hw.2]
  | _ => intro _ _ v hw; cases v <;> simp_all [wellTyped, jsonSafe]


end OPM.Proto
