import OPM.Lemmas.CmdMgrFrame
/-!
The object invariant `Core` of the M2 model (initialised instances, their callbacks, the requests that hold them) and the lemmas
about finalizing an instance.
-/
namespace OPM.CmdMgr

/-! ### lists of objects -/

theorem serial_at {objs : List Cmd} (h : objs.map (·.serial) = List.range objs.length)
    (i : Nat) (hi : i < objs.length) : (objs[i]).serial = i := by
  have := congrArg (fun l => l[i]?) h
  simp [hi] at this
  exact this

theorem serial_mem {objs : List Cmd} (h : objs.map (·.serial) = List.range objs.length)
    {o : Cmd} (ho : o ∈ objs) : ∃ hi : o.serial < objs.length, objs[o.serial] = o := by
  obtain ⟨i, hi, rfl⟩ := List.getElem_of_mem ho
  have := serial_at h i hi
  exact ⟨by omega, by simp [this]⟩

theorem serial_inj {objs : List Cmd} (h : objs.map (·.serial) = List.range objs.length)
    {o o' : Cmd} (ho : o ∈ objs) (ho' : o' ∈ objs) (e : o.serial = o'.serial) : o = o' := by
  obtain ⟨_, h1⟩ := serial_mem h ho
  obtain ⟨_, h2⟩ := serial_mem h ho'
  rw [← h1, ← h2]
  simp [e]

theorem serial_lt {objs : List Cmd} (h : objs.map (·.serial) = List.range objs.length)
    {o : Cmd} (ho : o ∈ objs) : o.serial < objs.length := (serial_mem h ho).1

theorem req_id_inj {l : List Req} (h : (l.map (·.id)).Nodup) {a b : Req} (ha : a ∈ l) (hb : b ∈ l)
    (e : a.id = b.id) : a = b := by
  induction l with
  | nil => cases ha
  | cons x xs ih =>
    simp only [List.map_cons, List.nodup_cons, List.mem_map, not_exists, not_and] at h
    rcases List.mem_cons.mp ha with rfl | ha' <;> rcases List.mem_cons.mp hb with rfl | hb'
    · rfl
    · exact absurd e.symm (h.1 b hb')
    · exact absurd e (h.1 a ha')
    · exact ih h.2 ha' hb'

theorem traceOf_append (a b : List Ev) (ser : Nat) : traceOf (a ++ b) ser = traceOf a ser ++ traceOf b ser := by
  simp [traceOf]

theorem getObj_of_mem {objs : List Cmd} (h : objs.map (·.serial) = List.range objs.length)
    {o : Cmd} (ho : o ∈ objs) : getObj objs o.serial = some o := by
  unfold getObj
  match hf : objs.find? (fun c => c.serial == o.serial) with
  | none =>
    have := List.find?_eq_none.mp hf o ho
    simp at this
  | some c =>
    have hc := List.mem_of_find?_eq_some hf
    have hs := List.find?_some hf
    simp at hs
    rw [hf]; exact congrArg some (serial_inj h hc ho hs)

theorem getObj_some {objs : List Cmd} {ser : Nat} {o : Cmd} (h : getObj objs ser = some o) :
    o ∈ objs ∧ o.serial = ser := by
  unfold getObj at h
  exact ⟨List.mem_of_find?_eq_some h, by simpa using List.find?_some h⟩

theorem findLive_some {objs : List Cmd} {k : Nat} {o : Cmd} (h : findLive objs k = some o) :
    o ∈ objs ∧ o.inMap = true ∧ o.name = k := by
  unfold findLive at h
  have := List.find?_some h
  simp at this
  exact ⟨List.mem_of_find?_eq_some h, this.1, this.2⟩

theorem findLive_none {objs : List Cmd} {k : Nat} (h : findLive objs k = none) :
    ∀ o ∈ objs, o.inMap = true → o.name ≠ k := by
  unfold findLive at h
  intro o ho hm hn
  have := List.find?_eq_none.mp h o ho
  simp [hm, hn] at this


/-! ### the object invariant -/

structure Core (s : State) : Prop where
  serials : s.objs.map (·.serial) = List.range s.objs.length
  ids : (s.executing.map (·.id)).Nodup
  live : ∀ o ∈ s.objs, o.inMap = true →
    o.finalized = false ∧ o.initialized = true ∧
    ∃ r ∈ s.executing, r.name = .uod o.name ∧ r.bad = false ∧ r.id ∉ s.done
  dead : ∀ o ∈ s.objs, o.inMap = false → o.finalized = true
  excl : ∀ o ∈ s.objs, ∀ o' ∈ s.objs, o.inMap = true → o'.inMap = true →
    conflict s.cfg o.name o'.name = true → o.serial = o'.serial
  trace : ∀ o ∈ s.objs, traceOf s.events o.serial = expected o
  evBound : ∀ e ∈ s.events, e.serial < s.objs.length

theorem conflict_self (cfg : Cfg) (a : Nat) : conflict cfg a a = true := by simp [conflict]

theorem conflict_symm (cfg : Cfg) (a b : Nat) : conflict cfg a b = conflict cfg b a := by
  simp only [conflict, conflictLists]
  congr 1
  · exact Bool.eq_iff_iff.mpr ⟨fun h => by simpa using (by simpa using h : a = b).symm,
      fun h => by simpa using (by simpa using h : b = a).symm⟩
  · congr 2
    apply List.filter_congr
    intro l _
    exact Bool.and_comm _ _

/-- Objects are rewritten in place (no creation), events are appended. -/
theorem Core.update {s s' : State} (h : Core s) (f : Cmd → Cmd) (evs : List Ev)
    (hobjs : s'.objs = s.objs.map f) (hev : s'.events = s.events ++ evs)
    (hex : s'.executing = s.executing) (hcfg : s'.cfg = s.cfg)
    (hf : ∀ o, (f o).serial = o.serial ∧ (f o).name = o.name)
    (hres : ∀ o ∈ s.objs, (f o).inMap = true → o.inMap = true)
    (hlive : ∀ o ∈ s.objs, (f o).inMap = true →
      (f o).finalized = false ∧ (f o).initialized = true ∧
      ∃ r ∈ s.executing, r.name = .uod o.name ∧ r.bad = false ∧ r.id ∉ s'.done)
    (hdead : ∀ o ∈ s.objs, (f o).inMap = false → (f o).finalized = true)
    (htrace : ∀ o ∈ s.objs, traceOf (s.events ++ evs) o.serial = expected (f o))
    (hevb : ∀ e ∈ evs, e.serial < s.objs.length) : Core s' := by
  refine ⟨?_, ?_, ?_, ?_, ?_, ?_, ?_⟩
  · rw [hobjs, List.map_map, List.length_map, ← h.serials]
    apply List.map_congr_left
    intro o _
    exact (hf o).1
  · rw [hex]; exact h.ids
  · intro o' ho' hm
    rw [hobjs] at ho'
    obtain ⟨o, ho, rfl⟩ := List.mem_map.mp ho'
    obtain ⟨a, d, r, hr, h1, h2, h3⟩ := hlive o ho hm
    refine ⟨a, d, r, ?_, ?_, h2, h3⟩
    · rw [hex]; exact hr
    · rw [(hf o).2]; exact h1
  · intro o' ho' hm
    rw [hobjs] at ho'
    obtain ⟨o, ho, rfl⟩ := List.mem_map.mp ho'
    exact hdead o ho hm
  · intro a ha b hb ma mb hc
    rw [hobjs] at ha hb
    obtain ⟨o, ho, rfl⟩ := List.mem_map.mp ha
    obtain ⟨o', ho', rfl⟩ := List.mem_map.mp hb
    rw [(hf o).1, (hf o').1]
    rw [hcfg, (hf o).2, (hf o').2] at hc
    exact h.excl o ho o' ho' (hres o ho ma) (hres o' ho' mb) hc
  · intro o' ho'
    rw [hobjs] at ho'
    obtain ⟨o, ho, rfl⟩ := List.mem_map.mp ho'
    rw [hev, (hf o).1]
    exact htrace o ho
  · intro e he
    rw [hev] at he
    rw [hobjs, List.length_map]
    rcases List.mem_append.mp he with he | he
    · exact h.evBound e he
    · exact hevb e he

/-- Only `done` / tracking / lifecycle fields changed. -/
theorem Core.congr {s s' : State} (h : Core s) (hobjs : s'.objs = s.objs) (hev : s'.events = s.events)
    (hex : s'.executing = s.executing) (hcfg : s'.cfg = s.cfg)
    (hdone : ∀ r ∈ s.executing, r.isUod = true → r.id ∈ s'.done → r.id ∈ s.done) : Core s' := by
  refine h.update id [] (by simp [hobjs]) (by simp [hev]) hex hcfg (by simp) (by simp) ?_ (by simpa using h.dead)
    (by simpa using h.trace) (by simp)
  intro o ho hm
  obtain ⟨a, d, r, hr, h1, h2, h3⟩ := h.live o ho hm
  exact ⟨a, d, r, hr, h1, h2, fun hd => h3 (hdone r hr (by simp [Req.isUod, h1]) hd)⟩

/-- …also when a request that holds no instance became done. -/
theorem Core.congr_done {s s' : State} (h : Core s) (hobjs : s'.objs = s.objs) (hev : s'.events = s.events)
    (hex : s'.executing = s.executing) (hcfg : s'.cfg = s.cfg) (q : Req) (hq : q ∈ s.executing)
    (hnone : ∀ o ∈ s.objs, o.inMap = true → q.name = .uod o.name → q.bad = true)
    (hdone : ∀ i, i ∈ s'.done → i ∈ s.done ∨ i = q.id) : Core s' := by
  refine h.update id [] (by simp [hobjs]) (by simp [hev]) hex hcfg (by simp) (by simp) ?_ (by simpa using h.dead)
    (by simpa using h.trace) (by simp)
  intro o ho hm
  obtain ⟨a, d, r, hr, h1, h2, h3⟩ := h.live o ho hm
  refine ⟨a, d, r, hr, h1, h2, fun hd => ?_⟩
  rcases hdone _ hd with hd | e
  · exact h3 hd
  · have : r = q := req_id_inj h.ids hr hq e
    subst this
    rw [hnone o ho hm h1] at h2; cases h2


/-! ### `expected` under flag changes -/

theorem expected_congr {o o' : Cmd} (h1 : o'.initialized = o.initialized) (h2 : o'.iters = o.iters)
    (h3 : o'.finalized = o.finalized) (h4 : o'.serial = o.serial) (h5 : o'.name = o.name) :
    expected o' = expected o := by
  simp [expected, h1, h2, h3, h4, h5]

theorem expected_final {o o' : Cmd} (h1 : o'.initialized = o.initialized) (h2 : o'.iters = o.iters)
    (h3 : o.finalized = false) (h3' : o'.finalized = true) (h4 : o'.serial = o.serial) (h5 : o'.name = o.name) :
    expected o' = expected o ++ [Ev.final o.serial] := by
  simp [expected, h1, h2, h3, h3', h4, h5]

theorem expected_exec {o o' : Cmd} (h1 : o'.initialized = o.initialized) (h2 : o'.iters = o.iters + 1)
    (h3 : o.finalized = false) (h3' : o'.finalized = false) (h4 : o'.serial = o.serial) (h5 : o'.name = o.name) :
    expected o' = expected o ++ [Ev.exec o.serial o.name o.iters] := by
  simp [expected, h1, h2, h3, h3', h4, h5, List.range_succ]

theorem expected_init {o o' : Cmd} (h1 : o.initialized = false) (h1' : o'.initialized = true)
    (h2 : o.iters = 0) (h2' : o'.iters = 0)
    (h3 : o.finalized = false) (h3' : o'.finalized = false) (h4 : o'.serial = o.serial) :
    expected o = [] ∧ expected o' = [Ev.init o.serial] := by
  simp [expected, h1, h1', h2, h2', h3, h3', h4]

/-! ### finalize -/

/-- The object map of `finalizeObj` as one in-place rewrite. -/
def finF (ser k : Nat) (o : Cmd) : Cmd :=
  let o1 := if o.serial == ser then { o with finalized := true } else o
  if o1.name == k then { o1 with inMap := false } else o1

theorem finalizeObj_objs (s : State) (c : Cmd) :
    (finalizeObj s c).objs = s.objs.map (finF c.serial c.name) := by
  simp [finalizeObj, disposeName, modObj, List.map_map, finF, Function.comp_def]

@[simp] theorem finalizeObj_events (s : State) (c : Cmd) :
    (finalizeObj s c).events = s.events ++ [.final c.serial] := rfl
@[simp] theorem finalizeObj_executing (s : State) (c : Cmd) : (finalizeObj s c).executing = s.executing := rfl
@[simp] theorem finalizeObj_done (s : State) (c : Cmd) : (finalizeObj s c).done = s.done := rfl
@[simp] theorem finalizeObj_cfg (s : State) (c : Cmd) : (finalizeObj s c).cfg = s.cfg := rfl
@[simp] theorem finalizeObj_track (s : State) (c : Cmd) : (finalizeObj s c).track = s.track := rfl
@[simp] theorem finalizeObj_tracking (s : State) (c : Cmd) : (finalizeObj s c).tracking = s.tracking := rfl
@[simp] theorem finalizeObj_queue (s : State) (c : Cmd) : (finalizeObj s c).queue = s.queue := rfl

/-- Finalizing the live object `c` (possibly after flagging it cancelled) keeps the invariant. -/
theorem Core.killObj {s s2 : State} (h : Core s) {c : Cmd} (b : Bool)
    (hc : c ∈ s.objs) (hm : c.inMap = true)
    (hobjs : s2.objs = modObj s.objs c.serial (fun o => { o with cancelled := o.cancelled || b }))
    (hev : s2.events = s.events) (hex : s2.executing = s.executing) (hdone : s2.done = s.done)
    (hcfg : s2.cfg = s.cfg) :
    Core (finalizeObj s2 c) ∧ (∀ o ∈ (finalizeObj s2 c).objs, o.inMap = true → o ∈ s.objs ∧ o.name ≠ c.name) := by
  have hinj := @serial_inj _ h.serials
  have hobjs2 : (finalizeObj s2 c).objs = s.objs.map (fun o => finF c.serial c.name
      (if o.serial == c.serial then { o with cancelled := o.cancelled || b } else o)) := by
    simp [finalizeObj_objs, hobjs, modObj, List.map_map, Function.comp_def]
  have hkeep : ∀ o ∈ s.objs, (finF c.serial c.name
      (if o.serial == c.serial then { o with cancelled := o.cancelled || b } else o)).inMap = true →
      o.name ≠ c.name ∧ finF c.serial c.name
        (if o.serial == c.serial then { o with cancelled := o.cancelled || b } else o) = o := by
    intro o ho hmo
    have hne : o.name ≠ c.name := by
      intro e
      simp only [finF] at hmo
      split at hmo <;> simp_all
    have hns : o.serial ≠ c.serial := fun e => hne (by rw [hinj ho hc e])
    exact ⟨hne, by simp [finF, hns, hne]⟩
  constructor
  · apply h.update (fun o => finF c.serial c.name
        (if o.serial == c.serial then { o with cancelled := o.cancelled || b } else o)) [.final c.serial] hobjs2
    · simp [hev]
    · simp [hex]
    · simp [hcfg]
    · intro o
      simp only [finF]
      split <;> split <;> simp_all
    · intro o ho
      simp only [finF]
      split <;> split <;> simp_all
    · intro o ho hmo
      obtain ⟨_, hfo⟩ := hkeep o ho hmo
      rw [hfo] at hmo ⊢
      obtain ⟨a1, a4, r', hr', h1, h2, h3⟩ := h.live o ho hmo
      exact ⟨a1, a4, r', hr', h1, h2, by simpa [hdone] using h3⟩
    · intro o ho hmo
      by_cases hs : o.serial = c.serial
      · simp only [finF, hs, beq_self_eq_true, if_true]
        split <;> rfl
      · by_cases hn : o.name = c.name
        · have : o.inMap = false := by
            cases hx : o.inMap with
            | false => rfl
            | true => exact absurd (h.excl o ho c hc hx hm (by rw [hn]; exact conflict_self _ _)) hs
          have := h.dead o ho this
          simp [finF, hs, hn, this]
        · have hfo : finF c.serial c.name (if o.serial == c.serial then { o with cancelled := o.cancelled || b } else o) = o := by
            simp [finF, hs, hn]
          rw [hfo] at hmo ⊢
          exact h.dead o ho hmo
    · intro o ho
      rw [traceOf_append, h.trace o ho]
      by_cases hs : o.serial = c.serial
      · have : o = c := hinj ho hc hs
        subst this
        have hfin := (h.live o ho hm).1
        rw [expected_final (o := o) (o' := finF o.serial o.name _) _ _ hfin _ _ _] <;>
          simp [finF, traceOf, Ev.serial]
        all_goals split <;> simp
      · rw [expected_congr (o := o) (o' := finF c.serial c.name _)] <;>
          simp [finF, traceOf, Ev.serial, hs, Ne.symm hs]
        all_goals split <;> simp
    · intro e he
      simp at he
      subst he
      exact serial_lt h.serials hc
  · intro o' ho' hmo'
    rw [hobjs2] at ho'
    obtain ⟨o, ho, rfl⟩ := List.mem_map.mp ho'
    obtain ⟨hne, hfo⟩ := hkeep o ho hmo'
    rw [hfo]
    exact ⟨ho, hne⟩

/-- …and on behalf of request `r`, which becomes done. -/
theorem Core.kill {s s2 : State} (h : Core s) {c : Cmd} {r : Req} (b : Bool)
    (hc : c ∈ s.objs) (hm : c.inMap = true) (hr : r ∈ s.executing) (hrn : r.name = .uod c.name)
    (hobjs : s2.objs = modObj s.objs c.serial (fun o => { o with cancelled := o.cancelled || b }))
    (hev : s2.events = s.events) (hex : s2.executing = s.executing) (hdone : s2.done = s.done)
    (hcfg : s2.cfg = s.cfg) :
    Core (finalizeCommand s2 r c) := by
  obtain ⟨hk, hrest⟩ := h.killObj b hc hm hobjs hev hex hdone hcfg
  -- `r` is the only request that becomes done; it holds none of the remaining instances (their names differ)
  have hr2 : r ∈ (finalizeObj s2 c).executing := by simp [hex, hr]
  apply hk.congr_done (by simp [finalizeCommand]) (by simp [finalizeCommand]) (by simp [finalizeCommand])
    (by simp [finalizeCommand]) r hr2
  · intro o ho hmo hn
    obtain ⟨_, hne⟩ := hrest o ho hmo
    rw [hrn] at hn
    injection hn with hn
    exact absurd hn.symm hne
  · intro i hi
    simp only [finalizeCommand] at hi
    rw [markDone_done_mem] at hi
    rcases hi with hi | ⟨e, _⟩
    · exact Or.inl hi
    · exact Or.inr e

/-- An instance that was never initialised is finalized (its only callback) and released. -/
theorem Core.appendDead {s s' : State} (h : Core s) {c : Cmd}
    (hobjs : s'.objs = s.objs ++ [c]) (hser : c.serial = s.objs.length) (hm : c.inMap = false)
    (hfin : c.finalized = true) (hini : c.initialized = false) (hit : c.iters = 0)
    (hev : s'.events = s.events ++ [.final c.serial]) (hex : s'.executing = s.executing)
    (hcfg : s'.cfg = s.cfg) (hdone : s'.done = s.done) : Core s' := by
  have hlt : ∀ o ∈ s.objs, o.serial < s.objs.length := fun o ho => serial_lt h.serials ho
  refine ⟨?_, by rw [hex]; exact h.ids, ?_, ?_, ?_, ?_, ?_⟩
  · rw [hobjs]; simp [h.serials, hser, List.range_succ]
  · intro o ho hmo
    rw [hobjs] at ho
    rcases List.mem_append.mp ho with ho | ho
    · obtain ⟨a, d, q, hq, h1, h2, h3⟩ := h.live o ho hmo
      exact ⟨a, d, q, by rw [hex]; exact hq, h1, h2, by rw [hdone]; exact h3⟩
    · simp at ho; subst ho; rw [hm] at hmo; cases hmo
  · intro o ho hmo
    rw [hobjs] at ho
    rcases List.mem_append.mp ho with ho | ho
    · exact h.dead o ho hmo
    · simp at ho; subst ho; exact hfin
  · intro a ha b hb ma mb hc
    rw [hobjs] at ha hb
    rw [hcfg] at hc
    rcases List.mem_append.mp ha with ha1 | ha2 <;> rcases List.mem_append.mp hb with hb1 | hb2
    · exact h.excl a ha1 b hb1 ma mb hc
    · simp at hb2; subst hb2; rw [hm] at mb; cases mb
    · simp at ha2; subst ha2; rw [hm] at ma; cases ma
    · simp at ha2 hb2; subst ha2; subst hb2; rfl
  · intro o ho
    rw [hobjs] at ho
    rw [hev, traceOf_append]
    rcases List.mem_append.mp ho with ho | ho
    · rw [h.trace o ho]
      have : o.serial ≠ c.serial := by have := hlt o ho; omega
      simp [traceOf, Ev.serial, Ne.symm this]
    · simp at ho; subst ho
      have : traceOf s.events o.serial = [] := by
        simp only [traceOf, List.filter_eq_nil_iff]
        intro e he
        have := h.evBound e he
        simp; omega
      rw [this]
      simp [traceOf, Ev.serial, expected, hini, hit, hfin]
  · intro e he
    rw [hev] at he
    rw [hobjs]
    simp only [List.length_append, List.length_cons, List.length_nil]
    rcases List.mem_append.mp he with he | he
    · have := h.evBound e he; omega
    · simp at he; subst he; simp [Ev.serial, hser]

end OPM.CmdMgr
