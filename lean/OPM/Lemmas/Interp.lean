import OPM.Model.Interp
/-! Frame lemmas for the interpreter model: what each primitive does to the runtime map `St.rt`.
All are stated on the `.rt` projection so that `{ s with marks := … }`-style wrappers are transparent
to `simp`. -/
namespace OPM.Interp

@[simp] theorem rt_setRt (s : St) (n k : Nat) (f : NodeRt → NodeRt) :
    (setRt s n f).rt k = if k = n then f (s.rt n) else s.rt k := rfl

@[simp] theorem rt_emit (s : St) (e : Event) : (emit s e).rt = s.rt := rfl

@[simp] theorem getRt_eq (s : St) (k : Nat) : getRt s k = s.rt k := rfl

@[simp] theorem rt_markCompleted (s : St) (n k : Nat) :
    (markCompleted s n).rt k =
      if k = n ∧ (s.rt n).failed = false then { s.rt n with completed := true } else s.rt k := by
  unfold markCompleted
  by_cases hf : (s.rt n).failed = true <;> by_cases hk : k = n <;> simp [hf, hk]

@[simp] theorem rt_finishNode (s : St) (n k : Nat) :
    (finishNode s n).rt k = if k = n then { s.rt n with completed := true } else s.rt k := by
  unfold finishNode
  by_cases hk : k = n
  · subst hk
    by_cases hf : (s.rt k).failed = true <;> simp [hf]
  · simp [hk]

@[simp] theorem rt_markFailed (s : St) (n k : Nat) :
    (markFailed s n).rt k = if k = n then { s.rt n with failed := true } else s.rt k := by
  unfold markFailed; simp

@[simp] theorem rt_tryActivate (s : St) (n k : Nat) (c : Cond) :
    (tryActivate s n c).rt k =
      if k = n ∧ (s.rt n).cancelled = false ∧ ((s.rt n).forced = true ∨ evalCond s c = true)
      then { s.rt n with activated := true } else s.rt k := by
  unfold tryActivate
  by_cases hc : (s.rt n).cancelled = true <;> by_cases hk : k = n <;>
    by_cases hf : (s.rt n).forced = true <;> by_cases he : evalCond s c = true <;> simp [hc, hk, hf, he]

@[simp] theorem rt_registerInterrupt (p : Prog) (s : St) (n k : Nat) :
    (registerInterrupt p s n).rt k =
      if k = n then { s.rt n with interruptRegistered := true } else s.rt k := by
  unfold registerInterrupt
  simp only []
  split <;> simp [setRt, emit]

@[simp] theorem rt_unregisterInterrupt (s : St) (n k : Nat) :
    (unregisterInterrupt s n).rt k =
      if k = n then { s.rt n with interruptRegistered := false } else s.rt k := by
  unfold unregisterInterrupt
  simp [setRt, emit]

/-- A fold of steps that each keep a projection keeps it. -/
theorem proj_foldl_keep {α β : Type} (π : NodeRt → β) (g : St → α → St)
    (hg : ∀ s a k, π ((g s a).rt k) = π (s.rt k))
    (l : List α) (s : St) (k : Nat) : π ((l.foldl g s).rt k) = π (s.rt k) := by
  induction l generalizing s with
  | nil => rfl
  | cons a l ih => simp [List.foldl, ih, hg]

/-- `_abort_block_interrupts` touches only `childrenComplete` and `interruptRegistered`. -/
theorem proj_abortBlockInterrupts {β : Type} (π : NodeRt → β)
    (h1 : ∀ r : NodeRt, ∀ b, π { r with childrenComplete := b } = π r)
    (h2 : ∀ r : NodeRt, ∀ b, π { r with interruptRegistered := b } = π r)
    (p : Prog) (s : St) (b k : Nat) :
    π ((abortBlockInterrupts p s b).rt k) = π (s.rt k) := by
  unfold abortBlockInterrupts
  apply proj_foldl_keep
  intro s a k
  split
  · simp only [rt_unregisterInterrupt, rt_setRt]
    by_cases hk : k = a.1
    · subst hk; simp only [if_true]
      exact (h2 { s.rt a.1 with childrenComplete := true } false).trans (h1 (s.rt a.1) true)
    · simp [hk]
  · rfl

theorem rt_resetSubtree (p : Prog) (s : St) (n k : Nat) :
    (resetSubtree p s n).rt k = s.rt k ∨ (resetSubtree p s n).rt k = resetOne (s.rt k) := by
  unfold resetSubtree
  generalize (n :: descendants p n) = l
  induction l generalizing s with
  | nil => exact Or.inl rfl
  | cons a l ih =>
    simp only [List.foldl]
    rcases ih (setRt s a resetOne) with h | h
    · rw [h]; simp only [rt_setRt, getRt_eq]; split
      · rename_i hk; subst hk; exact Or.inr rfl
      · exact Or.inl rfl
    · rw [h]; simp only [rt_setRt, getRt_eq]; split
      · rename_i hk; subst hk; right; simp [resetOne]
      · exact Or.inr rfl

theorem filter_const_true {α : Type} (l : List α) : l.filter (fun _ => true) = l := by
  induction l with
  | nil => rfl
  | cons a l ih => simp [List.filter, ih]

theorem foldl_dictDel_filter (D : Nat → Bool) (l : List (Nat × Nat)) (im0 : List (Nat × Nat)) :
    l.foldl (fun im e => if D e.1 then dictDel im e.1 else im) im0 =
      im0.filter (fun e => !(D e.1 && l.any (fun x => x.1 == e.1))) := by
  induction l generalizing im0 with
  | nil => simp [filter_const_true]
  | cons x l ih =>
    simp only [List.foldl]
    rw [ih]
    by_cases hD : D x.1 = true
    · simp only [hD, if_true, dictDel, List.filter_filter]
      apply List.filter_congr
      intro e _
      by_cases he : x.1 = e.1
      · have hb : (x.1 == e.1) = true := by simp [he]
        have hD' : D e.1 = true := by rw [← he]; exact hD
        have hne : decide (e.1 ≠ x.1) = false := by simp [he]
        simp only [List.any_cons, hb, hD', hne]; simp
      · have hb : (x.1 == e.1) = false := by simp [he]
        have hne : decide (e.1 ≠ x.1) = true := by simp; exact fun h => he h.symm
        simp only [List.any_cons, hb, hne]; simp
    · have hD0 : D x.1 = false := by simpa using hD
      simp only [hD0]
      apply List.filter_congr
      intro e _
      by_cases he : x.1 = e.1
      · have : D e.1 = false := by rw [← he]; exact hD0
        simp [this]
      · have hb : (x.1 == e.1) = false := by simp [he]
        simp only [List.any_cons, hb]; simp

theorem imap_setRt (s : St) (n : Nat) (f : NodeRt → NodeRt) : (setRt s n f).imap = s.imap := rfl

theorem imap_unregister (s : St) (n : Nat) : (unregisterInterrupt s n).imap = dictDel s.imap n := rfl

/-- `_abort_block_interrupts(b)` removes exactly the interrupts rooted inside `b`. -/
theorem imap_abort (p : Prog) (s : St) (b : Nat) :
    (abortBlockInterrupts p s b).imap =
      s.imap.filter (fun e => !(descendants p b).contains e.1) := by
  unfold abortBlockInterrupts
  have key : ∀ (l : List (Nat × Nat)) (s : St),
      (l.foldl (fun s e =>
        if (descendants p b).contains e.1 then
          unregisterInterrupt (setRt s e.1 (fun r => { r with childrenComplete := true })) e.1
        else s) s).imap =
      l.foldl (fun im e => if (descendants p b).contains e.1 then dictDel im e.1 else im) s.imap := by
    intro l
    induction l with
    | nil => intro s; rfl
    | cons x l ih =>
      intro s
      simp only [List.foldl]
      rw [ih]
      split <;> rfl
  rw [key, foldl_dictDel_filter]
  apply List.filter_congr
  intro e he
  have : s.imap.any (fun x => x.1 == e.1) = true := by
    simp only [List.any_eq_true]; exact ⟨e, he, by simp⟩
  simp [this]

end OPM.Interp
