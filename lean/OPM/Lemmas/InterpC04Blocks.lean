import OPM.Lemmas.InterpC04Tick
set_option linter.unusedSimpArgs false
set_option linter.unusedVariables false
/-!
C04 lemmas: `End blocks` aborts the interrupts of every block it ends; an ended block stays ended
(`blockEnded` is cleared only by the resets); the flags `cancelled`/`activated` over whole sub-ticks.
-/
namespace OPM.Interp

/-! ### `End blocks` -/

/-- `k` has been aborted: marked `children_complete`, not registered, not in the interrupt map -/
def Aborted (s : St) (k : Nat) : Prop :=
  (s.rt k).childrenComplete = true ∧ (s.rt k).interruptRegistered = false ∧ k ∉ s.imap.map (·.1)

theorem imap_endOneBlock (p : Prog) (s : St) (old : Nat) (nm : String) :
    (endOneBlock p s old nm).imap = s.imap.filter (fun e => !(descendants p old).contains e.1) := by
  unfold endOneBlock
  simp only [emit]
  rw [imap_abort]
  rfl

theorem endOneBlock_hit (p : Prog) (s : St) (old : Nat) (nm : String) (k : Nat)
    (hk : k ∈ s.imap.map (·.1)) (hd : (descendants p old).contains k = true) :
    Aborted (endOneBlock p s old nm) k := by
  have h := abort_marks p (setRt (emit s (.blockEnd (blockName p old) nm)) old
      (fun r => { r with blockEnded := true })) old k hk hd
  refine ⟨?_, ?_, ?_⟩
  · simp only [endOneBlock, rt_emit]; exact h.1
  · simp only [endOneBlock, rt_emit]; exact h.2
  · rw [imap_endOneBlock]
    simp only [List.mem_map, List.mem_filter, not_exists, not_and]
    intro e he hke
    subst hke
    simp at he
    exact he.2 (by simpa using hd)

theorem rt_abort_notIn (p : Prog) (s : St) (b k : Nat) (hk : k ∉ s.imap.map (·.1)) :
    (abortBlockInterrupts p s b).rt k = s.rt k := by
  unfold abortBlockInterrupts
  have key : ∀ (l : List (Nat × Nat)) (s : St), k ∉ l.map (·.1) →
      (l.foldl (fun s e =>
        if (descendants p b).contains e.1 then
          unregisterInterrupt (setRt s e.1 (fun r => { r with childrenComplete := true })) e.1
        else s) s).rt k = s.rt k := by
    intro l
    induction l with
    | nil => intro s _; rfl
    | cons x l ih =>
      intro s h
      simp only [List.map_cons, List.mem_cons, not_or] at h
      simp only [List.foldl]
      rw [ih _ h.2]
      split
      · simp only [rt_unregisterInterrupt, rt_setRt]
        have : ¬ k = x.1 := h.1
        simp [this]
      · rfl
  exact key s.imap s hk

theorem endOneBlock_keeps (p : Prog) (s : St) (old : Nat) (nm : String) (k : Nat) (h : Aborted s k) :
    Aborted (endOneBlock p s old nm) k := by
  obtain ⟨h1, h2, h3⟩ := h
  have hrt : (endOneBlock p s old nm).rt k =
      (setRt (emit s (.blockEnd (blockName p old) nm)) old (fun r => { r with blockEnded := true })).rt k := by
    simp only [endOneBlock, rt_emit]
    exact rt_abort_notIn p _ old k h3
  refine ⟨?_, ?_, ?_⟩
  · rw [hrt]; simp only [rt_setRt, rt_emit]; split
    · rename_i e; subst e; exact h1
    · exact h1
  · rw [hrt]; simp only [rt_setRt, rt_emit]; split
    · rename_i e; subst e; exact h2
    · exact h2
  · rw [imap_endOneBlock]
    intro hm
    apply h3
    simp only [List.mem_map, List.mem_filter] at hm ⊢
    obtain ⟨e, ⟨he, _⟩, hke⟩ := hm
    exact ⟨e, he, hke⟩

theorem endOneBlock_pending (p : Prog) (s : St) (old : Nat) (nm : String) (k : Nat)
    (h : k ∈ s.imap.map (·.1) ∨ Aborted s k) :
    k ∈ (endOneBlock p s old nm).imap.map (·.1) ∨ Aborted (endOneBlock p s old nm) k := by
  rcases h with h | h
  · by_cases hd : (descendants p old).contains k = true
    · exact Or.inr (endOneBlock_hit p s old nm k h hd)
    · left
      rw [imap_endOneBlock]
      simp only [List.mem_map, List.mem_filter] at h ⊢
      obtain ⟨e, he, hke⟩ := h
      refine ⟨e, ⟨he, ?_⟩, hke⟩
      rw [hke]; simpa using hd
  · exact Or.inr (endOneBlock_keeps p s old nm k h)

theorem endBlocks_fold_keeps (p : Prog) (g : Nat × Nat → String) (k : Nat) (l : List (Nat × Nat)) (s : St)
    (h : Aborted s k) : Aborted (l.foldl (fun s x => endOneBlock p s x.1 (g x)) s) k := by
  induction l generalizing s with
  | nil => exact h
  | cons x l ih => simp only [List.foldl]; exact ih _ (endOneBlock_keeps p s x.1 (g x) k h)

theorem endBlocks_fold (p : Prog) (g : Nat × Nat → String) (k : Nat) (l : List (Nat × Nat)) (s : St)
    (h : k ∈ s.imap.map (·.1) ∨ Aborted s k)
    (hx : ∃ x ∈ l, (descendants p x.1).contains k = true) :
    Aborted (l.foldl (fun s x => endOneBlock p s x.1 (g x)) s) k := by
  induction l generalizing s with
  | nil => obtain ⟨x, hx, _⟩ := hx; cases hx
  | cons x l ih =>
    simp only [List.foldl]
    obtain ⟨y, hy, hd⟩ := hx
    simp only [List.mem_cons] at hy
    rcases hy with hy | hy
    · subst hy
      apply endBlocks_fold_keeps
      rcases h with h | h
      · exact endOneBlock_hit p s y.1 (g y) k h hd
      · exact endOneBlock_keeps p s y.1 (g y) k h
    · exact ih _ (endOneBlock_pending p s x.1 (g x) k h) ⟨y, hy, hd⟩

/-- **End blocks aborts the interrupts of every block it ends.** For every locked block `b` and every
    registered Watch/Alarm `k` below `b`: after `End blocks`, `k` is marked `children_complete`, is not
    registered and has left the interrupt map. -/
theorem endBlocksStep_aborts (p : Prog) (s : St) (b k : Nat) (hb : b ∈ lockedBlocks p s)
    (hk : k ∈ s.imap.map (·.1)) (hd : (descendants p b).contains k = true) :
    Aborted (endBlocksStep p s) k := by
  unfold endBlocksStep
  simp only []
  have := endBlocks_fold p (fun x => if x.2 + 1 < (lockedBlocks p s).length - 1 then
      ((lockedBlocks p s)[x.2 + 1]?.map (blockName p)).getD "" else "") k (lockedBlocks p s).zipIdx s (Or.inl hk)
    (by
      have hm : b ∈ (lockedBlocks p s).zipIdx.map (·.1) := by
        rw [List.zipIdx_map_fst]; exact hb
      simp only [List.mem_map] at hm
      obtain ⟨x, hx, e⟩ := hm
      exact ⟨x, hx, by rw [e]; exact hd⟩)
  exact this

/-! ### an ended block stays ended -/

theorem be_abort (p : Prog) (s : St) (b k : Nat) :
    ((abortBlockInterrupts p s b).rt k).blockEnded = (s.rt k).blockEnded :=
  proj_abortBlockInterrupts (·.blockEnded) (fun _ _ => rfl) (fun _ _ => rfl) p s b k

theorem be_endOneBlock_keep (p : Prog) (s : St) (old : Nat) (nm : String) (k : Nat)
    (h : (s.rt k).blockEnded = true) : ((endOneBlock p s old nm).rt k).blockEnded = true := by
  unfold endOneBlock
  simp only [rt_emit, be_abort, rt_setRt]
  split
  · rfl
  · exact h

theorem be_endBlockStep_keep (p : Prog) (s : St) (k : Nat)
    (h : (s.rt k).blockEnded = true) : ((endBlockStep p s).rt k).blockEnded = true := by
  unfold endBlockStep
  split
  · exact h
  · exact be_endOneBlock_keep p _ _ _ k h

theorem be_endBlocksStep_keep (p : Prog) (s : St) (k : Nat)
    (h : (s.rt k).blockEnded = true) : ((endBlocksStep p s).rt k).blockEnded = true := by
  unfold endBlocksStep
  simp only []
  have key : ∀ (l : List (Nat × Nat)) (g : Nat × Nat → String) (s : St), (s.rt k).blockEnded = true →
      ((l.foldl (fun s x => endOneBlock p s x.1 (g x)) s).rt k).blockEnded = true := by
    intro l g
    induction l with
    | nil => intro s h; exact h
    | cons x l ih => intro s h; simp only [List.foldl]; exact ih _ (be_endOneBlock_keep p s x.1 (g x) k h)
  exact key _ (fun x => if x.2 + 1 < (lockedBlocks p s).length - 1 then
      ((lockedBlocks p s)[x.2 + 1]?.map (blockName p)).getD "" else "") s h

theorem be_callFinish (s : St) (n m k : Nat) :
    ((callFinish s n m).rt k).blockEnded = (s.rt k).blockEnded := by
  unfold callFinish
  simp only [rt_setRt, rt_finishNode, getRt_eq]
  repeat' split
  all_goals (try subst_vars)
  all_goals rfl

theorem unwind_blockEnded (s : St) (stack : List Frame) (k : Nat) :
    (((unwind s stack).1).rt k).blockEnded = (s.rt k).blockEnded := by
  induction stack with
  | nil => rfl
  | cons f rest ih =>
    cases f <;> simp only [unwind, ih]
    simp only [rt_setRt]
    split
    · rename_i h; subst h; rfl
    · rfl

theorem be_alarmRearm_notMem (p : Prog) (s : St) (n k : Nat) (h : k ∉ n :: descendants p n) :
    ((alarmRearm p s n).rt k).blockEnded = (s.rt k).blockEnded := by
  have hne : k ≠ n := by intro e; subst e; exact h (List.mem_cons_self ..)
  unfold alarmRearm
  simp only [rt_registerInterrupt, hne, if_false, rt_resetSubtree_notMem _ _ _ _ h, rt_unregisterInterrupt, rt_setRt,
    rt_emit, rt_markCompleted, false_and]

/-- A set `block_ended` flag survives every micro-step except a reset that covers the node: the re-arm
    of an Alarm at or above it, or a macro call. -/
theorem stepBody_be_keep (p : Prog) (s : St) (n pc : Nat) (below : List Frame) (k : Nat)
    (h0 : (s.rt k).blockEnded = true) :
    ((outState (stepBody p s n pc below)).rt k).blockEnded = true ∨
    (isAlarm p n = true ∧ pc = 3 ∧ k ∈ n :: descendants p n) ∨ (isCall p n = true ∧ pc = 0) := by
  by_cases hA : isAlarm p n = true ∧ pc = 3 ∧ k ∈ n :: descendants p n
  · exact Or.inr (Or.inl hA)
  by_cases hC : isCall p n = true ∧ pc = 0
  · exact Or.inr (Or.inr hC)
  left
  unfold isAlarm at hA
  unfold isCall at hC
  unfold stepBody
  simp only []
  split
  all_goals (repeat' split)
  all_goals (try simp only [outState, rt_setRt, rt_emit, rt_finishNode, rt_markFailed, rt_markCompleted,
    rt_registerInterrupt, rt_unregisterInterrupt, rt_tryActivate, getRt_eq, be_abort, be_callFinish])
  all_goals (try (repeat' split))
  all_goals (try (first | exact h0 | exact be_endBlockStep_keep p s _ h0 | exact be_endBlocksStep_keep p s _ h0
                        | (subst_vars; exact be_endBlockStep_keep p s _ h0) | (subst_vars; exact be_endBlocksStep_keep p s _ h0)
                        | (simp_all; done)))
  all_goals (rw [be_alarmRearm_notMem]; exact h0; simp_all)

theorem stepFrame_be_keep (p : Prog) (s : St) (f : Frame) (below : List Frame) (k : Nat)
    (h0 : (s.rt k).blockEnded = true) :
    ((outState (stepFrame p s f below)).rt k).blockEnded = true ∨
    (∃ n, f = .body n 3 ∧ isAlarm p n = true ∧ k ∈ n :: descendants p n) ∨
    (∃ n, f = .body n 0 ∧ isCall p n = true) := by
  cases f with
  | body n pc =>
    rcases stepBody_be_keep p s n pc below k h0 with h | ⟨h1, h2, h3⟩ | ⟨h1, h2⟩
    · exact Or.inl h
    · subst h2; exact Or.inr (Or.inl ⟨n, rfl, h1, h3⟩)
    · subst h2; exact Or.inr (Or.inr ⟨n, rfl, h1⟩)
  | _ =>
    left
    unfold stepFrame
    simp only []
    repeat' split
    all_goals (try simp only [outState, rt_setRt, rt_emit, rt_finishNode, rt_markFailed, rt_markCompleted,
      getRt_eq, be_callFinish])
    all_goals (try (repeat' split))
    all_goals (try exact h0)
    all_goals (try (subst_vars; exact h0))

/-- **An ended block stays ended**, except across a covering reset. -/
theorem stepGen_be_keep (p : Prog) (s : St) (stack : List Frame) (k : Nat)
    (h0 : (s.rt k).blockEnded = true) :
    (((stepGen p s stack).1).rt k).blockEnded = true ∨
    (∃ n, stack.head? = some (.body n 3) ∧ isAlarm p n = true ∧ k ∈ n :: descendants p n) ∨
    (∃ n, stack.head? = some (.body n 0) ∧ isCall p n = true) := by
  cases stack with
  | nil => exact Or.inl h0
  | cons f below =>
    rw [stepGen_cons]
    have := stepFrame_be_keep p s f below k h0
    cases hs : stepFrame p s f below with
    | next s' top sig =>
      rw [hs] at this
      simp only [outState] at this
      rcases this with h | ⟨n, e, h⟩ | ⟨n, e, h⟩
      · exact Or.inl h
      · exact Or.inr (Or.inl ⟨n, by rw [e]; rfl, h⟩)
      · exact Or.inr (Or.inr ⟨n, by rw [e]; rfl, h⟩)
    | raise s' =>
      rw [hs] at this
      simp only [outState] at this
      simp only [finishStep, unwind_blockEnded]
      rcases this with h | ⟨n, e, h⟩ | ⟨n, e, h⟩
      · exact Or.inl h
      · exact Or.inr (Or.inl ⟨n, by rw [e]; rfl, h⟩)
      · exact Or.inr (Or.inr ⟨n, by rw [e]; rfl, h⟩)


end OPM.Interp
