import OPM.Model.Tags
/-! Helper lemmas for C16 / C36 over the tag/report model. -/
namespace OPM.Tags

/-! ### insertNew / dedup -/

theorem mem_insertNew (l : List Nat) (i j : Nat) : j ∈ insertNew l i ↔ j ∈ l ∨ j = i := by
  unfold insertNew
  split
  · constructor
    · intro h; exact Or.inl h
    · intro h; cases h with
      | inl h => exact h
      | inr h => subst h; assumption
  · simp

theorem nodup_insertNew (l : List Nat) (i : Nat) (h : l.Nodup) : (insertNew l i).Nodup := by
  unfold insertNew
  split
  · exact h
  · rename_i hn
    rw [List.nodup_append]
    refine ⟨h, by simp, ?_⟩
    intro a ha b hb
    simp at hb
    subst hb
    intro e; subst e; exact hn ha

theorem foldl_insertNew_mem (q acc : List Nat) (j : Nat) :
    j ∈ q.foldl insertNew acc ↔ j ∈ acc ∨ j ∈ q := by
  induction q generalizing acc with
  | nil => simp
  | cons x xs ih =>
    simp only [List.foldl_cons, ih, mem_insertNew, List.mem_cons]
    constructor
    · rintro ((h | h) | h)
      · exact Or.inl h
      · exact Or.inr (Or.inl h)
      · exact Or.inr (Or.inr h)
    · rintro (h | h | h)
      · exact Or.inl (Or.inl h)
      · exact Or.inl (Or.inr h)
      · exact Or.inr h

theorem foldl_insertNew_nodup (q acc : List Nat) (h : acc.Nodup) : (q.foldl insertNew acc).Nodup := by
  induction q generalizing acc with
  | nil => exact h
  | cons x xs ih => exact ih _ (nodup_insertNew _ _ h)

theorem mem_dedup (q : List Nat) (j : Nat) : j ∈ dedup q ↔ j ∈ q := by
  simp [dedup, foldl_insertNew_mem]

theorem nodup_dedup (q : List Nat) : (dedup q).Nodup :=
  foldl_insertNew_nodup q [] List.nodup_nil

/-! ### step, tag by tag -/

def Pending (s : State) (i : Nat) : Prop := i ∈ s.dirty ∨ i ∈ s.queue

theorem step_length (s : State) (o : Op) : (step s o).tags.length = s.tags.length := by
  unfold step
  split
  · rfl
  · split
    · rfl
    · simp

theorem run_length (s : State) (ops : List Op) : (run s ops).tags.length = s.tags.length := by
  induction ops generalizing s with
  | nil => rfl
  | cons o os ih => simp only [run, List.foldl_cons] at *; rw [ih, step_length]

theorem step_nSys (s : State) (o : Op) : (step s o).nSys = s.nSys := by
  unfold step
  split
  · rfl
  · split <;> rfl

/-- what one operation does to the tag at position `j` -/
theorem step_getElem? (s : State) (o : Op) (j : Nat) :
    (step s o).tags[j]? =
      if o.target = some j then (s.tags[j]?).map (fun tg => (applyTag o tg).1) else s.tags[j]? := by
  unfold step
  split
  · rename_i h; simp [h]
  · rename_i i h
    split
    · rename_i hn
      split
      · rename_i e; simp [h] at e; subst e; simp [hn]
      · rfl
    · rename_i tg hs
      by_cases e : i = j
      · subst e; simp [h, hs, List.getElem?_set]
        have := List.getElem?_eq_some_iff.mp hs
        obtain ⟨hl, _⟩ := this
        simp [hl]
      · have : ¬ (o.target = some j) := by rw [h]; simpa using e
        simp [this, e]

theorem step_pending_mono (s : State) (o : Op) (j : Nat) (h : Pending s j) : Pending (step s o) j := by
  unfold step
  split
  · cases h with
    | inl h => right; simp [h]
    | inr h => right; simp [h]
  · split
    · exact h
    · cases h with
      | inl h =>
        left; simp only
        split
        · exact (mem_insertNew _ _ _).mpr (Or.inl h)
        · exact h
      | inr h => right; exact h

theorem step_notified (s : State) (o : Op) (j : Nat) (tg : Tag) (ht : o.target = some j)
    (hs : s.tags[j]? = some tg) (hn : (applyTag o tg).2 = true) : Pending (step s o) j := by
  left
  unfold step
  rw [ht]
  simp only [hs, hn, if_true]
  exact (mem_insertNew _ _ _).mpr (Or.inr rfl)

theorem run_pending_mono (s : State) (ops : List Op) (j : Nat) (h : Pending s j) :
    Pending (run s ops) j := by
  induction ops generalizing s with
  | nil => exact h
  | cons o os ih => exact ih _ (step_pending_mono s o j h)

/-- Lifting: a tag predicate preserved by every operation of `ops` holds after `run`. -/
theorem run_tag_invariant (P : Tag → Prop) (ops : List Op)
    (hP : ∀ o ∈ ops, ∀ tg, P tg → P (applyTag o tg).1)
    (s : State) (j : Nat) (tg : Tag) (hs : s.tags[j]? = some tg) (h0 : P tg) :
    ∃ tg', (run s ops).tags[j]? = some tg' ∧ P tg' := by
  induction ops generalizing s tg with
  | nil => exact ⟨tg, hs, h0⟩
  | cons o os ih =>
    have hstep := step_getElem? s o j
    by_cases ht : o.target = some j
    · rw [if_pos ht, hs] at hstep
      exact ih (fun o' ho' => hP o' (List.mem_cons_of_mem _ ho')) (step s o) _ hstep
        (hP o List.mem_cons_self tg h0)
    · rw [if_neg ht, hs] at hstep
      exact ih (fun o' ho' => hP o' (List.mem_cons_of_mem _ ho')) (step s o) tg hstep h0

/-! ### C36: a visible change is always notified -/

/-- `simulated_value` is None whenever the tag is not simulated -/
def Tag.WF (tg : Tag) : Prop := tg.simulated = false → tg.simValue = none

/-- operations of the repaired code, minus `simulate_value(None, …)` (never issued by the interpreter:
    `visit_SimulateNode` requires a non-empty value) -/
def Op.reporting : Op → Bool
  | .silent _ _ => false
  | .simOffOld _ => false
  | .simFailOld _ => false
  | .sim _ none _ => false
  | _ => true

theorem applyTag_wf (o : Op) (tg : Tag) (ho : o.reporting = true) (h : tg.WF) : (applyTag o tg).1.WF := by
  cases o <;> simp [Op.reporting] at ho <;> simp only [applyTag, Tag.WF] at * <;> try (split <;> simp_all)
  all_goals simp_all

theorem applyTag_visible_notified (o : Op) (tg : Tag) (ho : o.reporting = true) (h : tg.WF)
    (hv : (applyTag o tg).1.visible ≠ tg.visible) : (applyTag o tg).2 = true := by
  cases o with
  | set i v t => simp only [applyTag] at *; split <;> simp_all
  | sim i v t =>
    by_cases hne : v = tg.simValue
    · exfalso
      apply hv
      simp only [applyTag, hne, ne_eq, not_true_eq_false, if_false, Tag.visible, if_true]
      cases hsim : tg.simulated with
      | true => simp
      | false =>
        have := h hsim
        cases v with
        | none => simp [Op.reporting] at ho
        | some k => rw [this] at hne; cases hne
    · simp [applyTag, hne]
  | simFail i => simp [applyTag] at hv
  | simOff i => simp [applyTag]
  | stamp i t => exact absurd rfl hv
  | notify => simp [applyTag] at hv
  | silent i v => simp [Op.reporting] at ho
  | simOffOld i => simp [Op.reporting] at ho
  | simFailOld i => simp [Op.reporting] at ho

def vis (s : State) (i : Nat) : Option Val := (s.tags[i]?).map Tag.visible

def State.WF (s : State) : Prop := ∀ tg ∈ s.tags, tg.WF

theorem State.WF_get {s : State} (h : s.WF) {j : Nat} {tg : Tag} (hs : s.tags[j]? = some tg) : tg.WF :=
  h tg (List.mem_of_getElem? hs)

theorem step_wf (s : State) (o : Op) (ho : o.reporting = true) (h : s.WF) : (step s o).WF := by
  intro tg' hmem
  obtain ⟨j, hj⟩ := List.getElem?_of_mem hmem
  rw [step_getElem?] at hj
  split at hj
  · cases hs : s.tags[j]? with
    | none => simp [hs] at hj
    | some tg =>
      simp [hs] at hj
      subst hj
      exact applyTag_wf o tg ho (State.WF_get h hs)
  · exact State.WF_get h hj

theorem run_wf (s : State) (ops : List Op) (ho : ∀ o ∈ ops, o.reporting = true) (h : s.WF) :
    (run s ops).WF := by
  induction ops generalizing s with
  | nil => exact h
  | cons o os ih =>
    exact ih _ (fun o' ho' => ho o' (List.mem_cons_of_mem _ ho')) (step_wf s o (ho o List.mem_cons_self) h)

/-- one operation: a tag whose visible value changed is pending afterwards -/
theorem step_cover (s : State) (o : Op) (ho : o.reporting = true) (h : s.WF) (j : Nat)
    (hv : vis (step s o) j ≠ vis s j) : Pending (step s o) j := by
  unfold vis at hv
  rw [step_getElem?] at hv
  split at hv
  · rename_i ht
    cases hs : s.tags[j]? with
    | none => simp [hs] at hv
    | some tg =>
      simp only [hs, Option.map_some, ne_eq, Option.some.injEq] at hv
      exact step_notified s o j tg ht hs (applyTag_visible_notified o tg ho (State.WF_get h hs) hv)
  · exact absurd rfl hv

/-- the invariant: whatever differs from `base` is pending -/
theorem run_cover (s : State) (ops : List Op) (ho : ∀ o ∈ ops, o.reporting = true) (h : s.WF)
    (base : Nat → Option Val) (hb : ∀ j, vis s j ≠ base j → Pending s j) :
    ∀ j, vis (run s ops) j ≠ base j → Pending (run s ops) j := by
  induction ops generalizing s with
  | nil => exact hb
  | cons o os ih =>
    have ho1 := ho o List.mem_cons_self
    apply ih (step s o) (fun o' ho' => ho o' (List.mem_cons_of_mem _ ho')) (step_wf s o ho1 h)
    intro j hj
    by_cases e : vis (step s o) j = vis s j
    · exact step_pending_mono s o j (hb j (e ▸ hj))
    · exact step_cover s o ho1 h j e

/-! ### collect -/

theorem collect_entries (s : State) (snap : Bool) (now : Time) :
    (collect s snap now).2 =
      (dedup (if snap then s.queue ++ List.range s.tags.length else s.queue)).filterMap (entryOf s now) := by
  cases snap <;> rfl

theorem entryOf_idx (s : State) (now : Time) (i : Nat) (e : Entry) (h : entryOf s now i = some e) :
    e.idx = i ∧ ∃ tg, s.tags[i]? = some tg ∧ e.value = tg.visible ∧ e.simulated = tg.simulated ∧
      e.tickTime = (if tg.tickTime = 0 then now else tg.tickTime) := by
  unfold entryOf at h
  cases hs : s.tags[i]? with
  | none => simp [hs] at h
  | some tg =>
    simp [hs] at h
    subst h
    exact ⟨rfl, tg, rfl, rfl, rfl, rfl⟩

theorem collect_mem (s : State) (snap : Bool) (now : Time) (e : Entry) :
    e ∈ (collect s snap now).2 ↔
      (e.idx ∈ s.queue ∨ (snap = true ∧ e.idx < s.tags.length)) ∧ entryOf s now e.idx = some e := by
  rw [collect_entries, List.mem_filterMap]
  constructor
  · rintro ⟨i, hi, he⟩
    have := (entryOf_idx s now i e he).1
    subst this
    refine ⟨?_, he⟩
    rw [mem_dedup] at hi
    cases snap <;> simp_all
  · rintro ⟨hq, he⟩
    refine ⟨e.idx, ?_, he⟩
    rw [mem_dedup]
    cases snap <;> simp_all

theorem filterMap_entry_idx_nodup (s : State) (now : Time) (l : List Nat) (hnd : l.Nodup) :
    ((l.filterMap (entryOf s now)).map (·.idx)).Nodup := by
  induction l with
  | nil => simp
  | cons x xs ih =>
    rw [List.nodup_cons] at hnd
    simp only [List.filterMap_cons]
    cases he : entryOf s now x with
    | none => simpa using ih hnd.2
    | some e =>
      simp only [List.map_cons, List.nodup_cons]
      refine ⟨?_, ih hnd.2⟩
      intro hm
      rw [List.mem_map] at hm
      obtain ⟨e', he', hidx⟩ := hm
      rw [List.mem_filterMap] at he'
      obtain ⟨y, hy, hey⟩ := he'
      have h1 := (entryOf_idx s now y e' hey).1
      have h2 := (entryOf_idx s now x e he).1
      have : y = x := by omega
      subst this
      exact hnd.1 hy

theorem collect_idx_nodup (s : State) (snap : Bool) (now : Time) :
    ((collect s snap now).2.map (·.idx)).Nodup := by
  rw [collect_entries]
  exact filterMap_entry_idx_nodup s now _ (nodup_dedup _)

/-! ### C16: time stamps -/

/-- operations the repaired code performs in a tick whose time is `now` (every stamping call passes `now`) -/
def Op.okAt (now : Time) : Op → Prop
  | .set _ _ t => t = now
  | .sim _ v t => t = now ∧ v ≠ none
  | .stamp _ t => t = now
  | .simFail _ => True
  | .simOff _ => True
  | .notify => True
  | .silent _ _ => False
  | .simOffOld _ => False
  | .simFailOld _ => False

instance (now : Time) (o : Op) : Decidable (o.okAt now) := by
  cases o <;> simp only [Op.okAt] <;> infer_instance

theorem okAt_reporting (now : Time) (o : Op) (h : o.okAt now) : o.reporting = true := by
  cases o <;> simp [Op.okAt, Op.reporting] at *
  rename_i i v t
  cases v <;> simp_all

/-- stamps only move towards `now` -/
theorem applyTag_stamp (o : Op) (tg : Tag) (now : Time) (ho : o.okAt now) (hle : tg.tickTime ≤ now) :
    tg.tickTime ≤ (applyTag o tg).1.tickTime ∧ (applyTag o tg).1.tickTime ≤ now := by
  cases o <;> simp only [Op.okAt] at ho <;> simp only [applyTag]
  case set i v t => subst ho; split <;> simp_all
  case sim i v t => obtain ⟨h1, _⟩ := ho; subst h1; split <;> simp_all
  case stamp i t => subst ho; simp_all
  all_goals first | exact ⟨Int.le_refl _, hle⟩ | exact ho.elim

/-- "touched in this tick ⇒ carries this tick's time", relative to the tag `tg0` at the start of the tick -/
def Touched (tg0 tg : Tag) (now : Time) : Prop :=
  (tg.value ≠ tg0.value ∨ (tg.simulated = true ∧ tg.simValue ≠ tg0.simValue)) → tg.tickTime = now

theorem applyTag_touched (o : Op) (tg0 tg : Tag) (now : Time) (ho : o.okAt now) (hwf : tg.WF)
    (h : Touched tg0 tg now) : Touched tg0 (applyTag o tg).1 now := by
  cases o <;> simp only [Op.okAt] at ho
  case set i v t =>
    subst ho; simp only [applyTag]; split
    · intro _; rfl
    · exact h
  case sim i v t =>
    obtain ⟨h1, hv⟩ := ho; subst h1; simp only [applyTag]; split
    · intro _; rfl
    · rename_i hne
      simp only [ne_eq, Decidable.not_not] at hne
      intro hc
      cases hsim : tg.simulated with
      | true => exact h (by simpa [hsim] using hc)
      | false =>
        have := hwf hsim
        rw [this] at hne
        exact absurd hne hv
  case simFail i => exact h
  case simOff i =>
    simp only [applyTag]
    intro hc
    apply h
    cases hc with
    | inl hc => exact Or.inl hc
    | inr hc => simp at hc
  case stamp i t => subst ho; intro _; rfl
  case notify => exact h
  all_goals exact ho.elim

def Bounded (s : State) (lo hi : Time) : Prop := ∀ tg ∈ s.tags, lo ≤ tg.tickTime ∧ tg.tickTime ≤ hi

theorem Bounded.get {s : State} {lo hi : Time} (h : Bounded s lo hi) {j : Nat} {tg : Tag}
    (hs : s.tags[j]? = some tg) : lo ≤ tg.tickTime ∧ tg.tickTime ≤ hi :=
  h tg (List.mem_of_getElem? hs)

/-- one tick: every tag keeps `old stamp ≤ new stamp ≤ now` -/
theorem run_stamp (s : State) (ops : List Op) (now : Time) (ho : ∀ o ∈ ops, o.okAt now)
    (j : Nat) (tg : Tag) (hs : s.tags[j]? = some tg) (hle : tg.tickTime ≤ now) :
    ∃ tg', (run s ops).tags[j]? = some tg' ∧ tg.tickTime ≤ tg'.tickTime ∧ tg'.tickTime ≤ now := by
  apply run_tag_invariant (fun x => tg.tickTime ≤ x.tickTime ∧ x.tickTime ≤ now) ops _ s j tg hs
    ⟨Int.le_refl _, hle⟩
  intro o hmem x hx
  have := applyTag_stamp o x now (ho o hmem) hx.2
  exact ⟨Int.le_trans hx.1 this.1, this.2⟩

theorem run_getElem?_some (s : State) (ops : List Op) (j : Nat) (tg' : Tag)
    (h : (run s ops).tags[j]? = some tg') : ∃ tg, s.tags[j]? = some tg := by
  have hl := run_length s ops
  have := (List.getElem?_eq_some_iff.mp h).1
  rw [hl] at this
  exact ⟨s.tags[j], List.getElem?_eq_getElem this⟩

theorem run_bounded (s : State) (ops : List Op) (lo hi now : Time) (ho : ∀ o ∈ ops, o.okAt now)
    (hb : Bounded s lo hi) (hn : hi ≤ now) : Bounded (run s ops) lo now := by
  intro tg' hmem
  obtain ⟨j, hj⟩ := List.getElem?_of_mem hmem
  obtain ⟨tg, hs⟩ := run_getElem?_some s ops j tg' hj
  have b := hb.get hs
  obtain ⟨tg'', h1, h2, h3⟩ := run_stamp s ops now ho j tg hs (Int.le_trans b.2 hn)
  rw [hj] at h1
  cases h1
  exact ⟨Int.le_trans b.1 h2, h3⟩

/-! ### several ticks -/

abbrev Tick := Time × List Op

def runTicks (s : State) (ticks : List Tick) : State := ticks.foldl (fun s tk => run s tk.2) s

/-- every operation of every tick passes that tick's time -/
def Disciplined (ticks : List Tick) : Prop := ∀ tk ∈ ticks, ∀ o ∈ tk.2, o.okAt tk.1

/-- tick times do not decrease, starting from `hi` -/
def ChainFrom : Time → List Tick → Prop
  | _, [] => True
  | hi, tk :: rest => hi ≤ tk.1 ∧ ChainFrom tk.1 rest

def endTime : Time → List Tick → Time
  | hi, [] => hi
  | _, tk :: rest => endTime tk.1 rest

theorem runTicks_length (s : State) (ticks : List Tick) : (runTicks s ticks).tags.length = s.tags.length := by
  induction ticks generalizing s with
  | nil => rfl
  | cons tk rest ih => simp only [runTicks, List.foldl_cons] at *; rw [ih, run_length]

theorem runTicks_bounded (s : State) (ticks : List Tick) (lo hi : Time) (hd : Disciplined ticks)
    (hc : ChainFrom hi ticks) (hb : Bounded s lo hi) : Bounded (runTicks s ticks) lo (endTime hi ticks) := by
  induction ticks generalizing s hi with
  | nil => exact hb
  | cons tk rest ih =>
    simp only [runTicks, List.foldl_cons]
    exact ih (run s tk.2) tk.1 (fun t ht => hd t (List.mem_cons_of_mem _ ht)) hc.2
      (run_bounded s tk.2 lo hi tk.1 (hd tk List.mem_cons_self) hb hc.1)

theorem runTicks_stamp_mono (s : State) (ticks : List Tick) (lo hi : Time) (hd : Disciplined ticks)
    (hc : ChainFrom hi ticks) (hb : Bounded s lo hi) (j : Nat) (tg : Tag) (hs : s.tags[j]? = some tg) :
    ∃ tg', (runTicks s ticks).tags[j]? = some tg' ∧ tg.tickTime ≤ tg'.tickTime := by
  induction ticks generalizing s hi tg with
  | nil => exact ⟨tg, hs, Int.le_refl _⟩
  | cons tk rest ih =>
    simp only [runTicks, List.foldl_cons]
    have hok := hd tk List.mem_cons_self
    obtain ⟨tg1, h1, h2, _⟩ := run_stamp s tk.2 tk.1 hok j tg hs (Int.le_trans (hb.get hs).2 hc.1)
    obtain ⟨tg2, h4, h5⟩ := ih (run s tk.2) tk.1 (fun t ht => hd t (List.mem_cons_of_mem _ ht)) hc.2
      (run_bounded s tk.2 lo hi tk.1 hok hb hc.1) tg1 h1
    exact ⟨tg2, h4, Int.le_trans h2 h5⟩

theorem runTicks_wf (s : State) (ticks : List Tick) (hd : Disciplined ticks) (h : s.WF) :
    (runTicks s ticks).WF := by
  induction ticks generalizing s with
  | nil => exact h
  | cons tk rest ih =>
    simp only [runTicks, List.foldl_cons]
    apply ih _ (fun t ht => hd t (List.mem_cons_of_mem _ ht))
    exact run_wf s tk.2 (fun o ho => okAt_reporting tk.1 o (hd tk List.mem_cons_self o ho)) h

/-! ### The tick structure: the `_tick_time` field is fresh at every phase -/

theorem execEngineStmt_param (e : Env) (s : Stmt) : (execEngineStmt e s).param = e.param ∧
    (execEngineStmt e s).wall = e.wall ∧ (execEngineStmt e s).interpField = e.interpField := by
  cases s <;> simp [execEngineStmt]

/-- Soundness of the abstract check `freshOK`: at the call named `phase` the parameter is still the tick's time,
    the field has been assigned from it (if the call may reach a tag), a handed-down time argument evaluates to
    it, and the check holds for the remaining statements (so phases chain). -/
theorem advance_fresh (phase : String) (t : Time) :
    ∀ (stmts : List Stmt) (e : Env) (f : Bool), freshOK f stmts = true → e.param = t →
      (f = true → e.engineField = t) →
      ∀ e' a r p rest, advance phase stmts e = some (e', a, r, p, rest) →
        e'.param = t ∧ e'.wall = e.wall ∧ e'.interpField = e.interpField ∧
        (r = true → e'.engineField = t) ∧
        (p = true → ∃ x, a = some x ∧ evalArg e' 0 0 x = t) ∧
        ∃ f', freshOK f' rest = true ∧ (f' = true → e'.engineField = t) := by
  intro stmts
  induction stmts with
  | nil => intro e f _ _ _ e' a r p rest h; simp [advance] at h
  | cons s rest ih =>
    intro e f hok hp hf e' a r p rest' h
    cases s with
    | call n a0 r0 p0 =>
      simp only [freshOK, Bool.and_eq_true, Bool.or_eq_true] at hok
      obtain ⟨⟨h1, h2⟩, h3⟩ := hok
      simp only [advance] at h
      split at h
      · simp only [Option.some.injEq, Prod.mk.injEq] at h
        obtain ⟨rfl, rfl, rfl, rfl, rfl⟩ := h
        refine ⟨hp, rfl, rfl, ?_, ?_, f, h3, hf⟩
        · intro hs
          rcases h1 with h1 | h1
          · simp [hs] at h1
          · exact hf h1
        · intro ht
          rcases h2 with (h2 | h2) | h2
          · simp [ht] at h2
          · simp only [decide_eq_true_eq] at h2
            exact ⟨.param, h2, by simpa [evalArg] using hp⟩
          · simp only [Bool.and_eq_true, decide_eq_true_eq] at h2
            exact ⟨.engineField, h2.1, by simpa [evalArg] using hf h2.2⟩
      · exact ih e f h3 hp hf e' a r p rest' h
    | assign tgt rhs =>
      simp only [freshOK] at hok
      simp only [advance] at h
      have := ih (execEngineStmt e (.assign tgt rhs)) (decide (rhs = .param)) hok
        (by simpa [execEngineStmt] using hp)
        (by
          intro hd
          simp only [decide_eq_true_eq] at hd
          subst hd
          simpa [execEngineStmt, evalArg] using hp) e' a r p rest' h
      simpa [execEngineStmt] using this
    | stamp rhs =>
      simp only [freshOK, Bool.and_eq_true] at hok
      simp only [advance] at h
      have := ih (execEngineStmt e (.stamp rhs)) f hok.2 (by simpa [execEngineStmt] using hp)
        (by simpa [execEngineStmt] using hf) e' a r p rest' h
      simpa [execEngineStmt] using this

/-- what `advanceMany` does on a non-empty list of phases -/
theorem advanceMany_cons (p : String) (ps : List String) (stmts : List Stmt) (e : Env) (e' : Env)
    (rest : List Stmt) (h : advanceMany (p :: ps) stmts e = some (e', rest)) :
    ∃ e1 a pf rest1, advance p stmts e = some (e1, a, true, pf, rest1) ∧ advanceMany ps rest1 e1 = some (e', rest) := by
  simp only [advanceMany] at h
  split at h
  · rename_i e1 a pf rest1 heq
    exact ⟨e1, a, pf, rest1, heq, h⟩
  · cases h

/-- any number of successive phases: what `freshOK` guarantees is carried along -/
theorem advanceMany_carry (t : Time) :
    ∀ (phases : List String) (stmts : List Stmt) (e : Env) (f : Bool), freshOK f stmts = true → e.param = t →
      (f = true → e.engineField = t) →
      ∀ e' rest, advanceMany phases stmts e = some (e', rest) →
        e'.param = t ∧ e'.wall = e.wall ∧ (phases ≠ [] → e'.engineField = t) ∧
        ∃ f', freshOK f' rest = true ∧ (f' = true → e'.engineField = t) := by
  intro phases
  induction phases with
  | nil =>
    intro stmts e f hok hp hf e' rest h
    simp only [advanceMany, Option.some.injEq, Prod.mk.injEq] at h
    obtain ⟨rfl, rfl⟩ := h
    exact ⟨hp, rfl, fun h => absurd rfl h, f, hok, hf⟩
  | cons p ps ih =>
    intro stmts e f hok hp hf e' rest h
    obtain ⟨e1, a, pf, rest1, ha, hm⟩ := advanceMany_cons p ps stmts e e' rest h
    obtain ⟨h1, h2, _, h4, _, f', h6, h7⟩ := advance_fresh p t stmts e f hok hp hf e1 a true pf rest1 ha
    obtain ⟨q1, q2, q3, q4⟩ := ih rest1 e1 f' h6 h1 h7 e' rest hm
    refine ⟨q1, q2.trans h2, fun _ => ?_, q4⟩
    cases ps with
    | nil =>
      simp only [advanceMany, Option.some.injEq, Prod.mk.injEq] at hm
      obtain ⟨rfl, rfl⟩ := hm
      exact h4 rfl
    | cons q qs => exact q3 (by simp)

theorem advanceMany_fresh (t : Time) (phases : List String) (stmts : List Stmt) (e : Env) (f : Bool)
    (hok : freshOK f stmts = true) (hp : e.param = t) (hf : f = true → e.engineField = t) (hne : phases ≠ [])
    (e' : Env) (rest : List Stmt) (h : advanceMany phases stmts e = some (e', rest)) :
    e'.param = t ∧ e'.engineField = t ∧ e'.wall = e.wall := by
  obtain ⟨h1, h2, h3, _⟩ := advanceMany_carry t phases stmts e f hok hp hf e' rest h
  exact ⟨h1, h3 hne, h2⟩

/-- the bulk stamp of the first tick evaluates to the tick's time -/
theorem advanceStamp_fresh (t : Time) :
    ∀ (stmts : List Stmt) (e : Env) (f : Bool), freshOK f stmts = true → e.param = t →
      (f = true → e.engineField = t) →
      ∀ e' rhs rest, advanceStamp stmts e = some (e', rhs, rest) → evalArg e' 0 0 rhs = t := by
  intro stmts
  induction stmts with
  | nil => intro e f _ _ _ e' rhs rest h; simp [advanceStamp] at h
  | cons s rest ih =>
    intro e f hok hp hf e' rhs rest' h
    cases s with
    | call n a0 r0 p0 =>
      simp only [freshOK, Bool.and_eq_true] at hok
      simp only [advanceStamp] at h
      exact ih (execEngineStmt e (.call n a0 r0 p0)) f hok.2 (by simpa [execEngineStmt] using hp)
        (by simpa [execEngineStmt] using hf) e' rhs rest' h
    | assign tgt r =>
      simp only [freshOK] at hok
      simp only [advanceStamp] at h
      exact ih (execEngineStmt e (.assign tgt r)) (decide (r = .param)) hok
        (by simpa [execEngineStmt] using hp)
        (by
          intro hd
          simp only [decide_eq_true_eq] at hd
          subst hd
          simpa [execEngineStmt, evalArg] using hp) e' rhs rest' h
    | stamp r =>
      simp only [freshOK, Bool.and_eq_true, Bool.or_eq_true, decide_eq_true_eq] at hok
      simp only [advanceStamp, Option.some.injEq, Prod.mk.injEq] at h
      obtain ⟨rfl, rfl, rfl⟩ := h
      rcases hok.1 with h1 | h1
      · subst h1; simpa [evalArg] using hp
      · obtain ⟨h1, h2⟩ := h1
        subst h1; simpa [evalArg] using hf h2

theorem enterInterp_fresh (stmts : List Stmt) (h : interpOK stmts = true) (e : Env) (arg : Time) :
    (enterInterp stmts e arg).interpField = arg ∧ (enterInterp stmts e arg).param = e.param ∧
      (enterInterp stmts e arg).engineField = e.engineField ∧ (enterInterp stmts e arg).wall = e.wall := by
  have key : ∀ (l : List Stmt) (e' : Env),
      (l.all fun s => match s with | .assign _ rhs => rhs = .param | _ => true) = true →
      e'.interpField = arg →
      (l.foldl (execInterpStmt arg) e').interpField = arg ∧ (l.foldl (execInterpStmt arg) e').param = e'.param ∧
      (l.foldl (execInterpStmt arg) e').engineField = e'.engineField ∧
      (l.foldl (execInterpStmt arg) e').wall = e'.wall := by
    intro l
    induction l with
    | nil => intro e' _ h'; exact ⟨h', rfl, rfl, rfl⟩
    | cons s rest ih =>
      intro e' hall h'
      simp only [List.all_cons, Bool.and_eq_true] at hall
      simp only [List.foldl_cons]
      cases s with
      | assign tgt rhs =>
        have hr : rhs = .param := by simpa using hall.1
        subst hr
        have := ih (execInterpStmt arg e' (.assign tgt .param)) hall.2 (by simp [execInterpStmt, evalArg])
        simpa [execInterpStmt] using this
      | stamp r => simpa [execInterpStmt] using ih e' hall.2 h'
      | call n a r p => simpa [execInterpStmt] using ih e' hall.2 h'
  match stmts, h with
  | .assign tgt .param :: rest, h =>
    simp only [interpOK] at h
    have := key rest (execInterpStmt arg e (.assign tgt .param)) h (by simp [execInterpStmt, evalArg])
    simpa [enterInterp, execInterpStmt] using this

end OPM.Tags
