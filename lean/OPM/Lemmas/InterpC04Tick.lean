import OPM.Lemmas.InterpC04Rearm
set_option linter.unusedSimpArgs false
set_option linter.unusedVariables false
/-!
C04 lemmas, Part E: from micro-steps to whole ticks.

 * a micro-step never changes the tick's inputs (tick time, clocks, condition tags, `inInterrupt`);
 * a micro-step only appends generators, each at its entry (`[wrapEnter n]`);
 * hence every generator of every state reached by ticks that ran to their `EndTick`s is `Quiet`, and
   an invariant of sub-ticks is an invariant of ticks (`tick_invariant`).
-/
namespace OPM.Interp

/-! ### the inputs of a tick are never written by a micro-step -/

structure Inputs where
  tickTime : Rat
  scopeClock : Rat
  blockClock : Rat
  tags : List Int
  inInterrupt : Bool

def inputs (s : St) : Inputs := ⟨s.tickTime, s.scopeClock, s.blockClock, s.tags, s.inInterrupt⟩

@[simp] theorem in_setRt (s : St) (n : Nat) (f : NodeRt → NodeRt) : inputs (setRt s n f) = inputs s := rfl
@[simp] theorem in_emit (s : St) (e : Event) : inputs (emit s e) = inputs s := rfl

@[simp] theorem in_markCompleted (s : St) (n : Nat) : inputs (markCompleted s n) = inputs s := by
  unfold markCompleted; simp only []; split <;> rfl

@[simp] theorem in_finishNode (s : St) (n : Nat) : inputs (finishNode s n) = inputs s := by
  unfold finishNode; simp

@[simp] theorem in_markFailed (s : St) (n : Nat) : inputs (markFailed s n) = inputs s := rfl

@[simp] theorem in_tryActivate (s : St) (n : Nat) (c : Cond) : inputs (tryActivate s n c) = inputs s := by
  unfold tryActivate; simp only []; repeat' split
  all_goals rfl

@[simp] theorem in_registerInterrupt (p : Prog) (s : St) (n : Nat) : inputs (registerInterrupt p s n) = inputs s := by
  unfold registerInterrupt; simp only []; split <;> rfl

@[simp] theorem in_unregisterInterrupt (s : St) (n : Nat) : inputs (unregisterInterrupt s n) = inputs s := rfl

theorem in_foldl_keep {α : Type} (g : St → α → St) (hg : ∀ s a, inputs (g s a) = inputs s)
    (l : List α) (s : St) : inputs (l.foldl g s) = inputs s := by
  induction l generalizing s with
  | nil => rfl
  | cons a l ih => simp [List.foldl, ih, hg]

@[simp] theorem in_abort (p : Prog) (s : St) (b : Nat) : inputs (abortBlockInterrupts p s b) = inputs s := by
  unfold abortBlockInterrupts
  apply in_foldl_keep
  intro s a; split <;> simp

@[simp] theorem in_resetSubtree (p : Prog) (s : St) (n : Nat) : inputs (resetSubtree p s n) = inputs s := by
  unfold resetSubtree
  apply in_foldl_keep
  intro s a; rfl

@[simp] theorem in_endOneBlock (p : Prog) (s : St) (old : Nat) (nm : String) :
    inputs (endOneBlock p s old nm) = inputs s := by
  unfold endOneBlock; simp

@[simp] theorem in_endBlockStep (p : Prog) (s : St) : inputs (endBlockStep p s) = inputs s := by
  unfold endBlockStep
  split
  · rfl
  · simp only [in_endOneBlock]; rfl

@[simp] theorem in_endBlocksStep (p : Prog) (s : St) : inputs (endBlocksStep p s) = inputs s := by
  unfold endBlocksStep
  simp only []
  show inputs (List.foldl _ s _) = _
  apply in_foldl_keep
  intro s a; simp

@[simp] theorem in_alarmRearm (p : Prog) (s : St) (n : Nat) : inputs (alarmRearm p s n) = inputs s := by
  unfold alarmRearm; simp

@[simp] theorem in_callPrepare (p : Prog) (s : St) (m : Nat) : inputs (callPrepare p s m) = inputs s := by
  unfold callPrepare; simp only []; split <;> simp

@[simp] theorem in_callFinish (s : St) (n m : Nat) : inputs (callFinish s n m) = inputs s := by
  unfold callFinish; simp

theorem in_unwind (s : St) (stack : List Frame) : inputs (unwind s stack).1 = inputs s := by
  induction stack with
  | nil => rfl
  | cons f rest ih =>
    cases f <;> simp only [unwind, ih]
    rfl

theorem stepBody_in (p : Prog) (s : St) (n pc : Nat) (below : List Frame) :
    inputs (outState (stepBody p s n pc below)) = inputs s := by
  unfold stepBody
  simp only []
  split
  all_goals (repeat' split)
  all_goals (try simp only [outState, in_setRt, in_finishNode, in_markFailed, in_markCompleted,
    in_registerInterrupt, in_unregisterInterrupt, in_tryActivate, in_abort, in_endBlockStep, in_endBlocksStep,
    in_alarmRearm, in_callPrepare, in_callFinish, in_emit])
  all_goals (try rfl)

theorem stepFrame_in (p : Prog) (s : St) (f : Frame) (below : List Frame) :
    inputs (outState (stepFrame p s f below)) = inputs s := by
  cases f with
  | body n pc => exact stepBody_in p s n pc below
  | _ =>
    unfold stepFrame
    simp only []
    repeat' split
    all_goals (try simp only [outState, in_setRt, in_finishNode, in_callFinish, in_emit])
    all_goals (try rfl)

/-- A micro-step never writes the tick's inputs. -/
theorem stepGen_in (p : Prog) (s : St) (stack : List Frame) : inputs (stepGen p s stack).1 = inputs s := by
  cases stack with
  | nil => rfl
  | cons f below =>
    rw [stepGen_cons]
    have := stepFrame_in p s f below
    cases hs : stepFrame p s f below with
    | next s' top sig => rw [hs] at this; exact this
    | raise s' =>
      rw [hs] at this
      simp only [finishStep, in_unwind]
      exact this

theorem runGen_in (p : Prog) (fuel : Nat) (s : St) (stack : List Frame) :
    inputs (runGen p fuel s stack).1 = inputs s := by
  induction fuel generalizing s stack with
  | zero => rfl
  | succ fuel ih =>
    unfold runGen
    have h1 := stepGen_in p s stack
    rcases hs : stepGen p s stack with ⟨s1, st1, sig⟩
    rw [hs] at h1
    cases sig
    · simp only []; rw [ih]; exact h1
    · exact h1
    · exact h1

/-! ### a micro-step only appends generators, each at its entry -/

/-- every generator of `s'` is one of `s` (unchanged) or sits at its entry -/
def GensExt (s s' : St) : Prop := ∀ g ∈ s'.gens, g ∈ s.gens ∨ g.stack = [.wrapEnter g.node]

theorem gensExt_refl (s : St) : GensExt s s := fun g hg => Or.inl hg

theorem gensExt_of_eq {s s' : St} (h : s'.gens = s.gens) : GensExt s s' := by
  intro g hg; rw [h] at hg; exact Or.inl hg

theorem gensExt_trans {a b c : St} (h1 : GensExt a b) (h2 : GensExt b c) : GensExt a c := by
  intro g hg
  rcases h2 g hg with h | h
  · exact h1 g h
  · exact Or.inr h

theorem gens_markCompleted (s : St) (n : Nat) : (markCompleted s n).gens = s.gens := by
  unfold markCompleted; simp only []; split <;> rfl

theorem gens_finishNode (s : St) (n : Nat) : (finishNode s n).gens = s.gens := by
  unfold finishNode; simp only [setRt]; exact gens_markCompleted s n

theorem gens_tryActivate (s : St) (n : Nat) (c : Cond) : (tryActivate s n c).gens = s.gens := by
  unfold tryActivate; simp only []; repeat' split
  all_goals rfl

theorem gens_foldl_keep {α : Type} (g : St → α → St) (hg : ∀ s a, (g s a).gens = s.gens)
    (l : List α) (s : St) : (l.foldl g s).gens = s.gens := by
  induction l generalizing s with
  | nil => rfl
  | cons a l ih => simp [List.foldl, ih, hg]

theorem gens_abort (p : Prog) (s : St) (b : Nat) : (abortBlockInterrupts p s b).gens = s.gens := by
  unfold abortBlockInterrupts
  apply gens_foldl_keep
  intro s a; split <;> rfl

theorem gens_resetSubtree (p : Prog) (s : St) (n : Nat) : (resetSubtree p s n).gens = s.gens := by
  unfold resetSubtree
  apply gens_foldl_keep
  intro s a; rfl

theorem gens_endOneBlock (p : Prog) (s : St) (old : Nat) (nm : String) :
    (endOneBlock p s old nm).gens = s.gens := by
  unfold endOneBlock; simp only [emit]; rw [gens_abort]; rfl

theorem gens_endBlockStep (p : Prog) (s : St) : (endBlockStep p s).gens = s.gens := by
  unfold endBlockStep
  split
  · rfl
  · simp only [gens_endOneBlock]

theorem gens_endBlocksStep (p : Prog) (s : St) : (endBlocksStep p s).gens = s.gens := by
  unfold endBlocksStep
  simp only []
  show (List.foldl _ s _).gens = _
  apply gens_foldl_keep
  intro s a; exact gens_endOneBlock p s _ _

theorem gens_callPrepare (p : Prog) (s : St) (m : Nat) : (callPrepare p s m).gens = s.gens := by
  unfold callPrepare; simp only []; split
  · simp only [setRt]; exact gens_resetSubtree p s m
  · rfl

theorem gens_callFinish (s : St) (n m : Nat) : (callFinish s n m).gens = s.gens := by
  unfold callFinish; simp only [setRt]; exact gens_finishNode _ n

theorem gensExt_registerInterrupt (p : Prog) (s : St) (n : Nat) : GensExt s (registerInterrupt p s n) := by
  intro g hg
  have := congrArg Reg.gens (reg_registerInterrupt p s n)
  simp only [reg] at this
  rw [this, List.mem_append] at hg
  rcases hg with h | h
  · exact Or.inl h
  · simp only [List.mem_cons, List.mem_nil_iff, or_false] at h
    subst h; exact Or.inr rfl

theorem gensExt_alarmRearm (p : Prog) (s : St) (n : Nat) : GensExt s (alarmRearm p s n) := by
  intro g hg
  rw [(alarmRearm_spec p s n).2.2.2.2.2.2.2.1, List.mem_append] at hg
  rcases hg with h | h
  · exact Or.inl h
  · simp only [List.mem_cons, List.mem_nil_iff, or_false] at h
    subst h; exact Or.inr rfl

theorem stepBody_gens (p : Prog) (s : St) (n pc : Nat) (below : List Frame) :
    GensExt s (outState (stepBody p s n pc below)) := by
  unfold stepBody
  simp only []
  split
  all_goals (repeat' split)
  all_goals (first
    | exact gensExt_refl s
    | exact gensExt_registerInterrupt p s n
    | exact gensExt_alarmRearm p s n
    | (apply gensExt_of_eq
       simp only [outState, setRt, emit, gens_finishNode, gens_tryActivate, gens_endBlockStep, gens_endBlocksStep,
         gens_callPrepare, gens_callFinish, markFailed]
       done)
    | (apply gensExt_of_eq
       simp only [outState, emit]
       first | exact gens_finishNode _ _ | exact (gens_finishNode _ _).trans (gens_endBlockStep _ _)
             | exact (gens_finishNode _ _).trans (gens_endBlocksStep _ _) | exact gens_callPrepare _ _ _
             | exact gens_tryActivate _ _ _))

theorem stepFrame_gens (p : Prog) (s : St) (f : Frame) (below : List Frame) :
    GensExt s (outState (stepFrame p s f below)) := by
  cases f with
  | body n pc => exact stepBody_gens p s n pc below
  | _ =>
    unfold stepFrame
    simp only []
    repeat' split
    all_goals (first
      | exact gensExt_refl s
      | (apply gensExt_of_eq
         simp only [outState, setRt, emit]
         first | rfl | exact gens_finishNode _ _ | exact gens_callFinish _ _ _))

theorem gens_unwind (s : St) (stack : List Frame) : (unwind s stack).1.gens = s.gens := by
  induction stack with
  | nil => rfl
  | cons f rest ih =>
    cases f <;> simp only [unwind, ih]
    rfl

theorem stepGen_gens (p : Prog) (s : St) (stack : List Frame) : GensExt s (stepGen p s stack).1 := by
  cases stack with
  | nil => exact gensExt_refl s
  | cons f below =>
    rw [stepGen_cons]
    have := stepFrame_gens p s f below
    cases hs : stepFrame p s f below with
    | next s' top sig => rw [hs] at this; exact this
    | raise s' =>
      rw [hs] at this
      simp only [finishStep]
      exact gensExt_trans this (gensExt_of_eq (gens_unwind s' below))

theorem runGen_gens (p : Prog) (fuel : Nat) (s : St) (stack : List Frame) :
    GensExt s (runGen p fuel s stack).1 := by
  induction fuel generalizing s stack with
  | zero => exact gensExt_refl s
  | succ fuel ih =>
    unfold runGen
    have h1 := stepGen_gens p s stack
    rcases hs : stepGen p s stack with ⟨s1, st1, sig⟩
    rw [hs] at h1
    cases sig
    · exact gensExt_trans h1 (ih s1 st1)
    · exact h1
    · exact h1

/-- A predicate kept by every micro-step is kept by a sub-tick. -/
theorem runGen_invariant (p : Prog) (M : St → Prop)
    (hstep : ∀ s stack, M s → M (stepGen p s stack).1)
    (fuel : Nat) (s : St) (stack : List Frame) (h : M s) : M (runGen p fuel s stack).1 := by
  induction fuel generalizing s stack with
  | zero => exact h
  | succ fuel ih =>
    unfold runGen
    have h1 := hstep s stack h
    rcases hs : stepGen p s stack with ⟨s1, st1, sig⟩
    rw [hs] at h1
    cases sig
    · exact ih s1 st1 h1
    · exact h1
    · exact h1

/-! ### from sub-ticks to ticks -/

/-- every generator's stack is quiet -/
def AllQuiet (p : Prog) (s : St) : Prop := ∀ g ∈ s.gens, Quiet p g.stack

/-- A predicate on states that does not look at the generator list or at `inInterrupt`. -/
structure Blind (I : St → Prop) : Prop where
  flag : ∀ s b, I s → I { s with inInterrupt := b }
  gens : ∀ s gs, I s → I { s with gens := gs }

theorem quiet_wrapEnter (p : Prog) (n : Nat) : Quiet p [.wrapEnter n] := by
  intro f hf
  simp only [List.mem_cons, List.mem_nil_iff, or_false] at hf
  subst hf; rfl

theorem allQuiet_ext (p : Prog) (s s' : St) (h : AllQuiet p s) (he : GensExt s s') : AllQuiet p s' := by
  intro g hg
  rcases he g hg with h1 | h1
  · exact h g h1
  · rw [h1]; exact quiet_wrapEnter p _

/-- One generator's sub-tick keeps `AllQuiet ∧ I`, if `I` is blind and kept by sub-ticks of quiet stacks. -/
theorem runGid_keeps (p : Prog) (I : St → Prop) (hb : Blind I)
    (hrun : ∀ fuel s stack, I s → Quiet p stack → (runGen p fuel s stack).2.2 = true → I (runGen p fuel s stack).1)
    (fuel : Nat) (s : St) (gid : Nat) (hq : AllQuiet p s) (hi : I s) (hok : (runGid p fuel s gid).2 = true) :
    AllQuiet p (runGid p fuel s gid).1 ∧ I (runGid p fuel s gid).1 := by
  unfold runGid at hok ⊢
  cases hg : getGen s gid with
  | none => simp only [hg]; exact ⟨hq, hi⟩
  | some g =>
    simp only [hg] at hok ⊢
    have hmem : g ∈ s.gens := by
      unfold getGen at hg
      exact List.mem_of_find?_eq_some hg
    have hqs := hq g hmem
    have hguard := runGen_guard p fuel s g.stack (Or.inl hqs)
    have hgens := runGen_gens p fuel s g.stack
    have hI := hrun fuel s g.stack hi hqs
    rcases hr : runGen p fuel s g.stack with ⟨s1, st1, ok⟩
    rw [hr] at hguard hgens hI hok
    simp only [] at hguard hgens hI hok ⊢
    have hq1 := allQuiet_ext p s s1 hq hgens
    refine ⟨?_, ?_⟩
    · intro g' hg'
      simp only [setGenStack, List.mem_map] at hg'
      obtain ⟨g0, hg0, e⟩ := hg'
      split at e
      · subst e; exact (hguard hok).1
      · subst e; exact hq1 g0 hg0
    · exact hb.gens s1 _ (hI hok)

theorem fold_ok_le (p : Prog) (l : List Nat) (acc : St × Bool)
    (h : (l.foldl (fun (acc : St × Bool) gid =>
      let r := runGid p microFuel { acc.1 with inInterrupt := true } gid
      ({ r.1 with inInterrupt := false }, acc.2 && r.2)) acc).2 = true) : acc.2 = true := by
  induction l generalizing acc with
  | nil => exact h
  | cons g l ih =>
    simp only [List.foldl] at h
    have := ih _ h
    simp only [Bool.and_eq_true] at this
    exact this.1

theorem fold_keeps (p : Prog) (I : St → Prop) (hb : Blind I)
    (hrun : ∀ fuel s stack, I s → Quiet p stack → (runGen p fuel s stack).2.2 = true → I (runGen p fuel s stack).1)
    (l : List Nat) (acc : St × Bool) (hq : AllQuiet p acc.1) (hi : I acc.1)
    (hok : (l.foldl (fun (acc : St × Bool) gid =>
      let r := runGid p microFuel { acc.1 with inInterrupt := true } gid
      ({ r.1 with inInterrupt := false }, acc.2 && r.2)) acc).2 = true) :
    let r := l.foldl (fun (acc : St × Bool) gid =>
      let r := runGid p microFuel { acc.1 with inInterrupt := true } gid
      ({ r.1 with inInterrupt := false }, acc.2 && r.2)) acc
    AllQuiet p r.1 ∧ I r.1 := by
  induction l generalizing acc with
  | nil => exact ⟨hq, hi⟩
  | cons g l ih =>
    simp only [List.foldl] at hok ⊢
    have h1 := fold_ok_le p l _ hok
    simp only [Bool.and_eq_true] at h1
    have hk := runGid_keeps p I hb hrun microFuel { acc.1 with inInterrupt := true } g
      (fun g' hg' => hq g' hg') (hb.flag _ _ hi) h1.2
    apply ih _ _ _ hok
    · exact fun g' hg' => hk.1 g' hg'
    · exact hb.flag _ _ hk.2

/-- the state a tick starts from: inputs installed, event log cleared -/
def prelude (s : St) (i : TickIn) : St :=
  { s with tickTime := i.time, scopeClock := i.scopeClock, blockClock := i.blockClock,
           tags := i.tags, events := [], inInterrupt := false }

/-- **Tick induction.** If every generator is quiet, and a blind predicate `I` holds of the state the
    tick starts from and is kept by every sub-tick of a quiet generator, then after a tick that ran to
    its `EndTick`s every generator is quiet again and `I` holds. -/
theorem tick_invariant (p : Prog) (I : St → Prop) (hb : Blind I)
    (hrun : ∀ fuel s stack, I s → Quiet p stack → (runGen p fuel s stack).2.2 = true → I (runGen p fuel s stack).1)
    (s : St) (i : TickIn) (hq : AllQuiet p s) (hi : I (prelude s i)) (hok : (tick p s i).2 = true) :
    AllQuiet p (tick p s i).1 ∧ I (tick p s i).1 := by
  unfold tick at hok ⊢
  simp only [] at hok ⊢
  have hq0 : AllQuiet p (prelude s i) := fun g hg => hq g hg
  have hok0 := fold_ok_le p _ _ hok
  have h0 := runGid_keeps p I hb hrun microFuel (prelude s i) 0 hq0 hi hok0
  have h1 := fold_keeps p I hb hrun _ _ h0.1 h0.2 hok
  refine ⟨?_, ?_⟩
  · intro g hg
    simp only [List.mem_filter] at hg
    exact h1.1 g hg.1
  · exact hb.gens _ _ h1.2

/-! ### requests keep the generators quiet; `stable` -/

theorem allQuiet_cancel (p : Prog) (s s' : St) (n : Nat) (h : cancel p s n = some s') (hq : AllQuiet p s) :
    AllQuiet p s' := by
  unfold cancel at h
  split at h
  · cases h; exact hq
  · cases h

theorem allQuiet_force (p : Prog) (s s' : St) (n : Nat) (h : force p s n = some s') (hq : AllQuiet p s) :
    AllQuiet p s' := by
  unfold force at h
  split at h
  · cases h; exact hq
  · cases h

theorem allQuiet_complete (p : Prog) (s : St) (n : Nat) (hq : AllQuiet p s) : AllQuiet p (completeCmd s n) := by
  unfold completeCmd
  split
  · exact hq
  · exact hq

theorem allQuiet_inject (p : Prog) (s : St) (n : Nat) (hq : AllQuiet p s) : AllQuiet p (inject p s n) := by
  unfold inject
  apply allQuiet_ext p _ _ _ (gensExt_registerInterrupt p _ n)
  intro g hg
  rw [(foldl_setRt_gens _ _ s).1] at hg
  exact hq g hg

theorem rt_inject_flags (p : Prog) (s : St) (n w : Nat) :
    ((inject p s n).rt w).cancelled = (s.rt w).cancelled ∧ ((inject p s n).rt w).activated = (s.rt w).activated := by
  unfold inject
  have key : ∀ (l : List Nat) (s : St),
      ((l.foldl (fun s k => setRt s k (fun r => { r with hasRecord := true })) s).rt w).cancelled = (s.rt w).cancelled ∧
      ((l.foldl (fun s k => setRt s k (fun r => { r with hasRecord := true })) s).rt w).activated = (s.rt w).activated := by
    intro l
    induction l with
    | nil => intro s; exact ⟨rfl, rfl⟩
    | cons a l ih =>
      intro s
      simp only [List.foldl]
      obtain ⟨h1, h2⟩ := ih (setRt s a (fun r => { r with hasRecord := true }))
      rw [h1, h2]
      simp only [rt_setRt]
      split
      · rename_i e; subst e; exact ⟨rfl, rfl⟩
      · exact ⟨rfl, rfl⟩
  simp only [rt_registerInterrupt]
  split
  · rename_i e; subst e; exact key _ s
  · exact key _ s

/-- A Watch that no reset can reach: the method has no `Call macro` and the Watch is not inside (and
    is not itself) an Alarm. -/
def stable (p : Prog) (w : Nat) : Bool :=
  noCalls p && (List.range p.size).all (fun n => !isAlarm p n || !(n :: descendants p n).contains w)

theorem stable_spec (p : Prog) (w : Nat) (h : stable p w = true) :
    (∀ n, isCall p n = false) ∧ (∀ n, isAlarm p n = true → w ∉ n :: descendants p n) := by
  simp only [stable, Bool.and_eq_true] at h
  refine ⟨?_, ?_⟩
  · intro n
    by_cases hc : isCall p n = true
    · exfalso
      unfold isCall at hc
      split at hc
      · rename_i nm hk; exact noCalls_kind p h.1 n nm hk
      · cases hc
    · simpa using hc
  · intro n hn hmem
    by_cases hlt : n < p.size
    · have := List.all_eq_true.mp h.2 n (List.mem_range.mpr hlt)
      simp only [hn, Bool.not_true, Bool.false_or] at this
      have hm : (n :: descendants p n).contains w = true := by simpa using hmem
      rw [hm] at this
      cases this
    · unfold isAlarm at hn
      rw [node_default p n hlt] at hn
      cases hn


end OPM.Interp
