import OPM.Lemmas.InterpC04Quiet
set_option linter.unusedSimpArgs false
set_option linter.unusedVariables false
/-!
C04 lemmas: the Alarm re-arm (`alarmRearm`), the resets (the only place flags are cleared), the
children loop's entry guard, and which generators a tick keeps.
-/
namespace OPM.Interp

/-! ### resets -/

theorem resetOne_idem (r : NodeRt) : resetOne (resetOne r) = resetOne r := rfl

theorem foldl_reset_rt (l : List Nat) (s : St) (k : Nat) :
    ((l.foldl (fun s k => setRt s k resetOne) s).rt k) = if k ∈ l then resetOne (s.rt k) else s.rt k := by
  induction l generalizing s with
  | nil => simp
  | cons a l ih =>
    simp only [List.foldl, ih, rt_setRt, List.mem_cons]
    by_cases hka : k = a
    · subst hka; simp [resetOne_idem]
    · simp [hka]

theorem rt_resetSubtree_mem (p : Prog) (s : St) (n k : Nat) (h : k ∈ n :: descendants p n) :
    (resetSubtree p s n).rt k = resetOne (s.rt k) := by
  unfold resetSubtree; rw [foldl_reset_rt]; simp only [h, if_true]

theorem rt_resetSubtree_notMem (p : Prog) (s : St) (n k : Nat) (h : k ∉ n :: descendants p n) :
    (resetSubtree p s n).rt k = s.rt k := by
  unfold resetSubtree; rw [foldl_reset_rt]; simp only [h, if_false]

theorem foldl_setRt_gens (l : List Nat) (f : NodeRt → NodeRt) (s : St) :
    (l.foldl (fun s k => setRt s k f) s).gens = s.gens ∧ (l.foldl (fun s k => setRt s k f) s).imap = s.imap ∧
    (l.foldl (fun s k => setRt s k f) s).nextGid = s.nextGid := by
  induction l generalizing s with
  | nil => exact ⟨rfl, rfl, rfl⟩
  | cons a l ih => simp only [List.foldl]; exact ih (setRt s a f)

/-! ### `gens` / `imap` / `nextGid` projections -/

structure Reg where
  gens : List Gen
  imap : List (Nat × Nat)
  nextGid : Nat

/-- the registration part of the state -/
def reg (s : St) : Reg := ⟨s.gens, s.imap, s.nextGid⟩

@[simp] theorem reg_setRt (s : St) (n : Nat) (f : NodeRt → NodeRt) : reg (setRt s n f) = reg s := rfl
@[simp] theorem reg_emit (s : St) (e : Event) : reg (emit s e) = reg s := rfl

@[simp] theorem reg_markCompleted (s : St) (n : Nat) : reg (markCompleted s n) = reg s := by
  unfold markCompleted; simp only []; split <;> rfl

@[simp] theorem reg_finishNode (s : St) (n : Nat) : reg (finishNode s n) = reg s := by
  unfold finishNode; simp

@[simp] theorem reg_resetSubtree (p : Prog) (s : St) (n : Nat) : reg (resetSubtree p s n) = reg s := by
  unfold resetSubtree reg
  obtain ⟨h1, h2, h3⟩ := foldl_setRt_gens (n :: descendants p n) resetOne s
  rw [h1, h2, h3]

theorem reg_unregisterInterrupt (s : St) (n : Nat) :
    reg (unregisterInterrupt s n) = ⟨s.gens, dictDel s.imap n, s.nextGid⟩ := rfl

theorem reg_registerInterrupt (p : Prog) (s : St) (n : Nat) :
    reg (registerInterrupt p s n) =
      ⟨s.gens ++ [{ gid := s.nextGid, node := n, stack := [.wrapEnter n] }], dictSet s.imap n s.nextGid,
       s.nextGid + 1⟩ := by
  unfold registerInterrupt
  simp only []
  split <;> rfl

/-! ### the Alarm re-arm -/

/-- **Re-arm.** Completing an Alarm body counts the run, clears the node's flags (so the next run
    needs a fresh activation), and registers a fresh generator at the node's entry. -/
theorem alarmRearm_spec (p : Prog) (s : St) (n : Nat) :
    let s' := alarmRearm p s n
    (s'.rt n).runCount = (s.rt n).runCount + 1 ∧
    (s'.rt n).activated = false ∧ (s'.rt n).cancelled = false ∧ (s'.rt n).forced = false ∧
    (s'.rt n).started = false ∧ (s'.rt n).completed = false ∧ (s'.rt n).interruptRegistered = true ∧
    s'.gens = s.gens ++ [{ gid := s.nextGid, node := n, stack := [.wrapEnter n] }] ∧
    s'.imap = dictSet (dictDel s.imap n) n s.nextGid := by
  simp only [alarmRearm]
  have hm : n ∈ n :: descendants p n := List.mem_cons_self ..
  refine ⟨?_, ?_, ?_, ?_, ?_, ?_, ?_, ?_, ?_⟩
  · simp [rt_resetSubtree_mem _ _ _ _ hm, resetOne]
    by_cases hf : (s.rt n).failed = true <;> simp [hf]
  · simp [rt_resetSubtree_mem _ _ _ _ hm, resetOne]
  · simp [rt_resetSubtree_mem _ _ _ _ hm, resetOne]
  · simp [rt_resetSubtree_mem _ _ _ _ hm, resetOne]
  · simp [rt_resetSubtree_mem _ _ _ _ hm, resetOne]
  · simp [rt_resetSubtree_mem _ _ _ _ hm, resetOne]
  · simp
  · have := congrArg Reg.gens (reg_registerInterrupt p (resetSubtree p (unregisterInterrupt (setRt (emit (markCompleted s n)
        (Event.scopeEnd n)) n fun r => { r with runCount := r.runCount + 1 }) n) n) n)
    simp only [reg] at this
    rw [this]
    have h2 := reg_resetSubtree p (unregisterInterrupt (setRt (emit (markCompleted s n)
        (Event.scopeEnd n)) n fun r => { r with runCount := r.runCount + 1 }) n) n
    have h3 := reg_markCompleted s n
    simp only [reg, reg_unregisterInterrupt, Reg.mk.injEq] at h2 h3
    rw [h2.1, h2.2.2]
    simp only [unregisterInterrupt, emit, setRt]
    rw [h3.1, h3.2.2]
  · have := congrArg Reg.imap (reg_registerInterrupt p (resetSubtree p (unregisterInterrupt (setRt (emit (markCompleted s n)
        (Event.scopeEnd n)) n fun r => { r with runCount := r.runCount + 1 }) n) n) n)
    simp only [reg] at this
    rw [this]
    have h2 := reg_resetSubtree p (unregisterInterrupt (setRt (emit (markCompleted s n)
        (Event.scopeEnd n)) n fun r => { r with runCount := r.runCount + 1 }) n) n
    have h3 := reg_markCompleted s n
    simp only [reg, reg_unregisterInterrupt, Reg.mk.injEq] at h2 h3
    rw [h2.2.1, h2.2.2]
    simp only [unregisterInterrupt, emit, setRt]
    rw [h3.2.1, h3.2.2]

/-! ### `runCount` changes only at the re-arm -/

theorem rc_abort (p : Prog) (s : St) (b k : Nat) :
    ((abortBlockInterrupts p s b).rt k).runCount = (s.rt k).runCount :=
  proj_abortBlockInterrupts (·.runCount) (fun _ _ => rfl) (fun _ _ => rfl) p s b k

theorem rc_endOneBlock (p : Prog) (s : St) (old : Nat) (nm : String) (k : Nat) :
    ((endOneBlock p s old nm).rt k).runCount = (s.rt k).runCount := by
  unfold endOneBlock
  simp only [rt_emit, rc_abort, rt_setRt]
  split
  · rename_i h; subst h; rfl
  · rfl

theorem rc_endBlockStep (p : Prog) (s : St) (k : Nat) :
    ((endBlockStep p s).rt k).runCount = (s.rt k).runCount := by
  unfold endBlockStep
  split
  · rfl
  · simp only [rc_endOneBlock]

theorem rc_endBlocksStep (p : Prog) (s : St) (k : Nat) :
    ((endBlocksStep p s).rt k).runCount = (s.rt k).runCount := by
  unfold endBlocksStep
  simp only []
  exact proj_foldl_keep (·.runCount) _ (fun s a k => rc_endOneBlock p s _ _ k) _ s k

theorem rc_resetSubtree (p : Prog) (s : St) (n k : Nat) :
    ((resetSubtree p s n).rt k).runCount = (s.rt k).runCount := by
  rcases rt_resetSubtree p s n k with e | e <;> rw [e]
  rfl

theorem rc_callPrepare (p : Prog) (s : St) (m k : Nat) :
    ((callPrepare p s m).rt k).runCount = (s.rt k).runCount := by
  unfold callPrepare
  simp only []
  split
  · simp only [rt_setRt]
    split
    · rename_i hk; subst hk; exact rc_resetSubtree _ _ _ _
    · exact rc_resetSubtree _ _ _ _
  · rfl

theorem rc_callFinish (s : St) (n m k : Nat) :
    ((callFinish s n m).rt k).runCount = (s.rt k).runCount := by
  unfold callFinish
  simp only [rt_setRt, rt_finishNode, getRt_eq]
  repeat' split
  all_goals (try subst_vars)
  all_goals rfl

theorem rc_alarmRearm_ne (p : Prog) (s : St) (n k : Nat) (h : k ≠ n) :
    ((alarmRearm p s n).rt k).runCount = (s.rt k).runCount := by
  unfold alarmRearm
  simp only [rt_registerInterrupt, h, if_false, rc_resetSubtree, rt_unregisterInterrupt, rt_setRt, rt_emit,
    rt_markCompleted, false_and]

/-- `run_count` of a node changes only in the re-arm step of that very Alarm, by exactly one. -/
theorem stepBody_rc (p : Prog) (s : St) (n pc : Nat) (below : List Frame) (k : Nat) :
    ((outState (stepBody p s n pc below)).rt k).runCount = (s.rt k).runCount ∨
    (k = n ∧ pc = 3 ∧ isAlarm p n = true ∧
      ((outState (stepBody p s n pc below)).rt k).runCount = (s.rt k).runCount + 1) := by
  by_cases hc : k = n ∧ pc = 3 ∧ isAlarm p n = true
  · right
    obtain ⟨h1, h2, h3⟩ := hc
    subst h1; subst h2
    refine ⟨rfl, rfl, h3, ?_⟩
    unfold isAlarm at h3
    split at h3
    · rename_i c hk
      rw [stepBody_alarm_pc3 p s k below c hk]
      exact (alarmRearm_spec p s k).1
    · cases h3
  · left
    unfold isAlarm at hc
    unfold stepBody
    simp only []
    split
    all_goals (repeat' split)
    all_goals (try simp only [outState, rt_setRt, rt_emit, rt_finishNode, rt_markFailed, rt_markCompleted,
      rt_registerInterrupt, rt_unregisterInterrupt, rt_tryActivate, getRt_eq, rc_abort,
      rc_endBlockStep, rc_endBlocksStep, rc_callPrepare, rc_callFinish])
    all_goals (try (repeat' split))
    all_goals (try (first | rfl | exact rc_endBlockStep _ _ _ | exact rc_endBlocksStep _ _ _ | (simp_all; done)))
    -- the Alarm re-arm for another node
    all_goals (apply rc_alarmRearm_ne; intro e; simp_all)

theorem stepFrame_rc (p : Prog) (s : St) (f : Frame) (below : List Frame) (k : Nat) :
    ((outState (stepFrame p s f below)).rt k).runCount = (s.rt k).runCount ∨
    (f = .body k 3 ∧ isAlarm p k = true ∧
      ((outState (stepFrame p s f below)).rt k).runCount = (s.rt k).runCount + 1) := by
  cases f with
  | body n pc =>
    rcases stepBody_rc p s n pc below k with h | ⟨e1, e2, h3, h4⟩
    · exact Or.inl h
    · subst e1; subst e2; exact Or.inr ⟨rfl, h3, h4⟩
  | _ =>
    left
    unfold stepFrame
    simp only []
    repeat' split
    all_goals (try simp only [outState, rt_setRt, rt_emit, rt_finishNode, rt_markFailed, rt_markCompleted,
      getRt_eq, rc_callFinish])
    all_goals (try (repeat' split))
    all_goals (try rfl)
    all_goals (try (subst_vars; rfl))

theorem unwind_rc (s : St) (stack : List Frame) (k : Nat) :
    (((unwind s stack).1).rt k).runCount = (s.rt k).runCount := by
  induction stack with
  | nil => rfl
  | cons f rest ih =>
    cases f <;> simp only [unwind, ih]
    simp only [rt_setRt]
    split
    · rename_i h; subst h; rfl
    · rfl

/-- **Run count.** In any micro-step of any generator the `run_count` of a node either stays or is
    incremented by one, the latter only in the re-arm step (end of the body) of that very Alarm. -/
theorem stepGen_rc (p : Prog) (s : St) (stack : List Frame) (k : Nat) :
    (((stepGen p s stack).1).rt k).runCount = (s.rt k).runCount ∨
    (stack.head? = some (.body k 3) ∧ isAlarm p k = true ∧
      (((stepGen p s stack).1).rt k).runCount = (s.rt k).runCount + 1) := by
  cases stack with
  | nil => exact Or.inl rfl
  | cons f below =>
    rw [stepGen_cons]
    have := stepFrame_rc p s f below k
    cases hs : stepFrame p s f below with
    | next s' top sig =>
      rw [hs] at this
      simp only [outState] at this
      rcases this with h | ⟨e, h1, h2⟩
      · exact Or.inl h
      · exact Or.inr ⟨by rw [e]; rfl, h1, h2⟩
    | raise s' =>
      rw [hs] at this
      simp only [outState] at this
      simp only [finishStep, unwind_rc]
      rcases this with h | ⟨e, h1, h2⟩
      · exact Or.inl h
      · exact Or.inr ⟨by rw [e]; rfl, h1, h2⟩

/-! ### `cancelled` is cleared only by the resets -/

theorem canc_alarmRearm_notMem (p : Prog) (s : St) (n k : Nat) (h : k ∉ n :: descendants p n) :
    ((alarmRearm p s n).rt k).cancelled = (s.rt k).cancelled := by
  have hne : k ≠ n := by intro e; subst e; exact h (List.mem_cons_self ..)
  unfold alarmRearm
  simp only [rt_registerInterrupt, hne, if_false, rt_resetSubtree_notMem _ _ _ _ h, rt_unregisterInterrupt, rt_setRt,
    rt_emit, rt_markCompleted, false_and]

/-- A set `cancelled` flag survives every micro-step except a reset that covers the node: the re-arm
    of an Alarm at or above it, or a macro call. -/
theorem stepBody_canc_keep (p : Prog) (s : St) (n pc : Nat) (below : List Frame) (k : Nat)
    (h0 : (s.rt k).cancelled = true) :
    ((outState (stepBody p s n pc below)).rt k).cancelled = true ∨
    (isAlarm p n = true ∧ pc = 3 ∧ k ∈ n :: descendants p n) ∨ (isCall p n = true ∧ pc = 0) := by
  by_cases hA : isAlarm p n = true ∧ pc = 3 ∧ k ∈ n :: descendants p n
  · exact Or.inr (Or.inl hA)
  by_cases hC : isCall p n = true ∧ pc = 0
  · exact Or.inr (Or.inr hC)
  left
  unfold isAlarm at hA
  unfold isCall at hC
  unfold stepBody
  simp only []
  split
  all_goals (repeat' split)
  all_goals (try simp only [outState, rt_setRt, rt_emit, rt_finishNode, rt_markFailed, rt_markCompleted,
    rt_registerInterrupt, rt_unregisterInterrupt, rt_tryActivate, getRt_eq, canc_abort,
    canc_endBlockStep, canc_endBlocksStep, canc_callFinish])
  all_goals (try (repeat' split))
  all_goals (try (first | exact h0 | (rw [canc_endBlockStep]; exact h0) | (rw [canc_endBlocksStep]; exact h0)
                        | (simp_all; done)))
  all_goals (rw [canc_alarmRearm_notMem]; exact h0; simp_all)

theorem stepFrame_canc_keep (p : Prog) (s : St) (f : Frame) (below : List Frame) (k : Nat)
    (h0 : (s.rt k).cancelled = true) :
    ((outState (stepFrame p s f below)).rt k).cancelled = true ∨
    (∃ n, f = .body n 3 ∧ isAlarm p n = true ∧ k ∈ n :: descendants p n) ∨
    (∃ n, f = .body n 0 ∧ isCall p n = true) := by
  cases f with
  | body n pc =>
    rcases stepBody_canc_keep p s n pc below k h0 with h | ⟨h1, h2, h3⟩ | ⟨h1, h2⟩
    · exact Or.inl h
    · subst h2; exact Or.inr (Or.inl ⟨n, rfl, h1, h3⟩)
    · subst h2; exact Or.inr (Or.inr ⟨n, rfl, h1⟩)
  | _ =>
    left
    unfold stepFrame
    simp only []
    repeat' split
    all_goals (try simp only [outState, rt_setRt, rt_emit, rt_finishNode, rt_markFailed, rt_markCompleted,
      getRt_eq, canc_callFinish])
    all_goals (try (repeat' split))
    all_goals (try exact h0)
    all_goals (try (subst_vars; exact h0))

/-- **Cancel sticks.** -/
theorem stepGen_canc_keep (p : Prog) (s : St) (stack : List Frame) (k : Nat)
    (h0 : (s.rt k).cancelled = true) :
    (((stepGen p s stack).1).rt k).cancelled = true ∨
    (∃ n, stack.head? = some (.body n 3) ∧ isAlarm p n = true ∧ k ∈ n :: descendants p n) ∨
    (∃ n, stack.head? = some (.body n 0) ∧ isCall p n = true) := by
  cases stack with
  | nil => exact Or.inl h0
  | cons f below =>
    rw [stepGen_cons]
    have := stepFrame_canc_keep p s f below k h0
    cases hs : stepFrame p s f below with
    | next s' top sig =>
      rw [hs] at this
      simp only [outState] at this
      rcases this with h | ⟨n, e, h⟩ | ⟨n, e, h⟩
      · exact Or.inl h
      · exact Or.inr (Or.inl ⟨n, by rw [e]; rfl, h⟩)
      · exact Or.inr (Or.inr ⟨n, by rw [e]; rfl, h⟩)
    | raise s' =>
      rw [hs] at this
      simp only [outState] at this
      simp only [finishStep, unwind_canc]
      rcases this with h | ⟨n, e, h⟩ | ⟨n, e, h⟩
      · exact Or.inl h
      · exact Or.inr (Or.inl ⟨n, by rw [e]; rfl, h⟩)
      · exact Or.inr (Or.inr ⟨n, by rw [e]; rfl, h⟩)

/-! ### the children loop's entry guard -/

/-- Only the children loop enters a node (pushes its wrapper), and only if the parent is neither
    completed nor `children_complete` and no Block above the child has ended. -/
theorem enter_guard (p : Prog) (s : St) (f : Frame) (below : List Frame) (c : Nat)
    (h : Frame.wrapEnter c ∈ outTop (stepFrame p s f below)) :
    ∃ n inx, f = .children n inx false ∧ (node p n).children[inx]? = some c ∧
      (s.rt n).childrenComplete = false ∧ (s.rt n).completed = false ∧
      endedBlockAbove p s c = false := by
  cases f with
  | body n pc =>
    exfalso
    simp only [stepFrame] at h
    unfold stepBody at h
    simp only [] at h
    split at h
    all_goals (repeat' split at h)
    all_goals (simp [outTop] at h)
  | children n inx inChild =>
    unfold stepFrame at h
    simp only [] at h
    repeat' split at h
    all_goals (try (simp [outTop] at h; done))
    simp only [outTop, List.mem_cons, Frame.wrapEnter.injEq, List.mem_nil_iff, or_false] at h
    rcases h with h | h
    · subst h
      refine ⟨n, inx, ?_, ?_, ?_, ?_, ?_⟩ <;> simp_all [inEndedBlock]
    · cases h
  | _ =>
    exfalso
    unfold stepFrame at h
    simp only [] at h
    repeat' split at h
    all_goals (simp [outTop] at h)

/-! ### what `_abort_block_interrupts` does to the interrupts inside the block -/

theorem abort_marks (p : Prog) (s : St) (b k : Nat)
    (hk : k ∈ s.imap.map (·.1)) (hd : (descendants p b).contains k = true) :
    ((abortBlockInterrupts p s b).rt k).childrenComplete = true ∧
    ((abortBlockInterrupts p s b).rt k).interruptRegistered = false := by
  unfold abortBlockInterrupts
  have key : ∀ (l : List (Nat × Nat)) (s : St),
      (k ∈ l.map (·.1) ∨ ((s.rt k).childrenComplete = true ∧ (s.rt k).interruptRegistered = false)) →
      let s' := l.foldl (fun s e =>
        if (descendants p b).contains e.1 then
          unregisterInterrupt (setRt s e.1 (fun r => { r with childrenComplete := true })) e.1
        else s) s
      (s'.rt k).childrenComplete = true ∧ (s'.rt k).interruptRegistered = false := by
    intro l
    induction l with
    | nil => intro s h; rcases h with h | h; cases h; exact h
    | cons x l ih =>
      intro s h
      simp only [List.foldl]
      apply ih
      by_cases hx : x.1 = k
      · right
        rw [hx, hd]
        simp
      · rcases h with h | h
        · left
          simp only [List.map_cons, List.mem_cons] at h
          rcases h with h | h
          · exact absurd h.symm hx
          · exact h
        · right
          split
          · simp only [rt_unregisterInterrupt, rt_setRt]
            have : ¬ k = x.1 := fun e => hx e.symm
            simp [this, h]
          · exact h
  exact key s.imap s (Or.inl hk)

/-! ### which generators survive a tick -/

/-- After a tick only the main generator and the generators that are registered in the interrupt
    map are kept: a generator whose interrupt was unregistered (End block / End blocks, re-arm,
    overwritten registration) is never run again. -/
theorem tick_gens_registered (p : Prog) (s : St) (i : TickIn) :
    ∀ g ∈ (tick p s i).1.gens, g.gid = 0 ∨ g.gid ∈ (tick p s i).1.imap.map (·.2) := by
  intro g hg
  unfold tick at hg ⊢
  simp only [List.mem_filter, Bool.or_eq_true, decide_eq_true_eq, List.contains_iff_mem] at hg ⊢
  exact hg.2

end OPM.Interp
